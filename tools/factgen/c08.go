//go:build fg_all || fg_c08

package main

import (
	"fmt"
	"go/ast"
	"go/token"
	"regexp"
	"strconv"
	"strings"
)

func init() { register("C08", factsC08) }

var (
	c08RecvRe = regexp.MustCompile(`^<-ss\[chosenList\[(\d+)\]\]\.items$`)
	c08RetRe  = regexp.MustCompile(`^chosenList\[(\d+)\]$`)
)

// factsC08 extracts, from schema/select.go and schema/stream.go:
//
//	receiveN            per func literal of the table in receiveN: the cases of its select as pairs
//	                    (a, b) = "receives from ss[chosenList[a]].items, reports chosenList[b]"
//	receiveNByLen       the table is indexed with len(chosenList)
//	maxSelectNum        the constant
//	reflectAboveMax     multiStreamReader.recv uses reflect.Select iff len(chosenList) > maxSelectNum
//	peekFillsUnderOnce  parentStreamReader.peek calls p.sr.Recv() only inside elem.once.Do(func(){…})
//	closeIncrements     parentStreamReader.close nils the cursor and does atomic.AddUint32(&p.closedNum, 1)
//	closeAtLen          … and calls p.sr.Close() iff int(that value) == len(p.subStreamList)
//	closeIdempotent     … after returning early when the cursor is already nil
//	convForwarderClosesSource / childForwarderClosesSource   exit path and loop of the toStream goroutines
//	eofByIdentity       every end-of-stream test on the receive paths of copies and merged non-pipe sources
//	                    (parentStreamReader.peek: two `err != io.EOF`; both toStream loops: one `err == io.EOF`)
//	                    compares the error with the sentinel by identity, and none of the receive functions
//	                    calls errors.Is / errors.As (so an error ELEMENT that merely wraps or claims io.EOF
//	                    is not the end of the stream)
func factsC08(r *Repo) []Fact {
	var out []Fact
	sp := r.Pkg("schema")

	// ---- receiveN table ----
	tblType := "List (List (Nat × Nat))"
	if fd, file := sp.Func("", "receiveN"); fd == nil || fd.Body == nil {
		out = append(out, unknownFact("receiveN", tblType, "[]", "schema", "func receiveN not found"))
		out = append(out, unknownFact("receiveNByLen", "Bool", "false", "schema", "func receiveN not found"))
	} else {
		where := "schema/" + file + ": receiveN"
		var lit *ast.CompositeLit
		var idx ast.Expr
		ast.Inspect(fd.Body, func(n ast.Node) bool {
			if ix, ok := n.(*ast.IndexExpr); ok && lit == nil {
				if cl, ok := ix.X.(*ast.CompositeLit); ok {
					lit, idx = cl, ix.Index
				}
			}
			return true
		})
		if lit == nil {
			out = append(out, unknownFact("receiveN", tblType, "[]", where, "no indexed composite literal of func literals"))
			out = append(out, unknownFact("receiveNByLen", "Bool", "false", where, "no indexed composite literal"))
		} else {
			var rows []string
			bad := ""
			for i, e := range lit.Elts {
				switch v := e.(type) {
				case *ast.Ident:
					if v.Name != "nil" {
						bad = fmt.Sprintf("element %d is identifier %s", i, v.Name)
					}
					rows = append(rows, "[]")
				case *ast.FuncLit:
					row, err := c08SelectCases(v)
					if err != "" {
						bad = fmt.Sprintf("element %d: %s", i, err)
					}
					rows = append(rows, "["+strings.Join(row, ", ")+"]")
				default:
					bad = fmt.Sprintf("element %d is neither nil nor a func literal", i)
				}
			}
			f := Fact{Name: "receiveN", Type: tblType, Value: "[" + strings.Join(rows, ", ") + "]", Where: where}
			if bad != "" {
				f.Unknown, f.Note = true, bad
			}
			out = append(out, f)
			out = append(out, boolFact("receiveNByLen", exprString(idx) == "len(chosenList)", where+": index expression "+exprString(idx)))
		}
	}

	// ---- maxSelectNum ----
	maxSel, found := 0, false
	for _, n := range sp.Names {
		for _, d := range sp.Files[n].Decls {
			gd, ok := d.(*ast.GenDecl)
			if !ok || gd.Tok != token.CONST {
				continue
			}
			for _, s := range gd.Specs {
				vs := s.(*ast.ValueSpec)
				for i, nm := range vs.Names {
					if nm.Name == "maxSelectNum" && i < len(vs.Values) {
						if bl, ok := vs.Values[i].(*ast.BasicLit); ok {
							if v, err := strconv.Atoi(bl.Value); err == nil {
								maxSel, found = v, true
							}
						}
					}
				}
			}
		}
	}
	if found {
		out = append(out, natFact("maxSelectNum", maxSel, "schema: const maxSelectNum"))
	} else {
		out = append(out, unknownFact("maxSelectNum", "Nat", "0", "schema", "const maxSelectNum with an integer literal not found"))
	}

	// ---- multiStreamReader.recv: reflect.Select iff len(chosenList) > maxSelectNum, else receiveN ----
	if fd, file := sp.Func("multiStreamReader", "recv"); fd == nil || fd.Body == nil {
		out = append(out, unknownFact("reflectAboveMax", "Bool", "false", "schema", "multiStreamReader.recv not found"))
	} else {
		ok := false
		ast.Inspect(fd.Body, func(n ast.Node) bool {
			is, isIf := n.(*ast.IfStmt)
			if !isIf {
				return true
			}
			c := exprString(is.Cond)
			if c != "len(msr.chosenList)>maxSelectNum" {
				return true
			}
			thenReflect := c08HasSelCall(is.Body, "reflect", "Select")
			elseRecvN := false
			if eb, isBlock := is.Else.(*ast.BlockStmt); isBlock {
				elseRecvN = containsCall(eb, "receiveN") && !c08HasSelCall(eb, "reflect", "Select")
			}
			if thenReflect && elseRecvN {
				ok = true
			}
			return true
		})
		out = append(out, boolFact("reflectAboveMax", ok, "schema/"+file+": multiStreamReader.recv"))
	}

	// ---- parentStreamReader.peek ----
	if fd, file := sp.Func("parentStreamReader", "peek"); fd == nil || fd.Body == nil {
		out = append(out, unknownFact("peekFillsUnderOnce", "Bool", "false", "schema", "parentStreamReader.peek not found"))
	} else {
		inside, outside := 0, 0
		var onceLit *ast.FuncLit
		ast.Inspect(fd.Body, func(n ast.Node) bool {
			if c, ok := n.(*ast.CallExpr); ok && exprString(c.Fun) == "elem.once.Do" && len(c.Args) == 1 {
				if fl, ok := c.Args[0].(*ast.FuncLit); ok {
					onceLit = fl
				}
			}
			return true
		})
		ast.Inspect(fd.Body, func(n ast.Node) bool {
			if c, ok := n.(*ast.CallExpr); ok && exprString(c.Fun) == "p.sr.Recv" {
				if onceLit != nil && c.Pos() >= onceLit.Pos() && c.End() <= onceLit.End() {
					inside++
				} else {
					outside++
				}
			}
			return true
		})
		out = append(out, boolFact("peekFillsUnderOnce", inside == 1 && outside == 0,
			fmt.Sprintf("schema/%s: parentStreamReader.peek (p.sr.Recv inside once.Do: %d, outside: %d)", file, inside, outside)))
	}

	// ---- parentStreamReader.close ----
	if fd, file := sp.Func("parentStreamReader", "close"); fd == nil || fd.Body == nil {
		for _, n := range []string{"closeIdempotent", "closeIncrements", "closeAtLen"} {
			out = append(out, unknownFact(n, "Bool", "false", "schema", "parentStreamReader.close not found"))
		}
	} else {
		where := "schema/" + file + ": parentStreamReader.close"
		idem, setsNil, incr, atLen := false, false, false, false
		incrVar, allVar := "", ""
		incrPos, nilPos := token.NoPos, token.NoPos
		for _, st := range fd.Body.List {
			switch s := st.(type) {
			case *ast.IfStmt:
				c := exprString(s.Cond)
				if c == "p.subStreamList[idx]==nil" && len(s.Body.List) == 1 {
					if _, ok := s.Body.List[0].(*ast.ReturnStmt); ok && nilPos == token.NoPos && incrPos == token.NoPos {
						idem = true
					}
				}
				closes := c08HasCallTo(s.Body, "p.sr.Close")
				if closes && s.Else == nil {
					if allVar != "" && c == allVar {
						atLen = true
					}
					if incrVar != "" && (c == "int("+incrVar+")==len(p.subStreamList)" || c == "len(p.subStreamList)==int("+incrVar+")") {
						atLen = true
					}
				}
			case *ast.AssignStmt:
				if len(s.Lhs) == 1 && len(s.Rhs) == 1 {
					l, rr := exprString(s.Lhs[0]), exprString(s.Rhs[0])
					if l == "p.subStreamList[idx]" && rr == "nil" {
						setsNil, nilPos = true, s.Pos()
					}
					if rr == "atomic.AddUint32(&p.closedNum,1)" {
						incrVar, incrPos = l, s.Pos()
					}
					if incrVar != "" && (rr == "int("+incrVar+")==len(p.subStreamList)" || rr == "len(p.subStreamList)==int("+incrVar+")") {
						allVar = l
					}
				}
			}
		}
		// any other p.sr.Close() call (outside the guarded if) invalidates closeAtLen
		nClose := 0
		ast.Inspect(fd.Body, func(n ast.Node) bool {
			if c, ok := n.(*ast.CallExpr); ok && exprString(c.Fun) == "p.sr.Close" {
				nClose++
			}
			return true
		})
		incr = setsNil && incrVar != "" && nilPos < incrPos
		out = append(out, boolFact("closeIdempotent", idem, where))
		out = append(out, boolFact("closeIncrements", incr, where))
		out = append(out, boolFact("closeAtLen", atLen && nClose == 1, where))
	}
	// ---- the two forwarding goroutines (toStream): on exit the stream is closed for sending and the
	// source reader is closed; the loop leaves on io.EOF and when send reports closed ----
	for _, fw := range []struct{ recv, fact, self string }{
		{"streamReaderWithConvert", "convForwarderClosesSource", "srw"},
		{"childStreamReader", "childForwarderClosesSource", "csr"},
	} {
		fd, file := sp.Func(fw.recv, "toStream")
		if fd == nil || fd.Body == nil {
			out = append(out, unknownFact(fw.fact, "Bool", "false", "schema", fw.recv+".toStream not found"))
			continue
		}
		ok := false
		ast.Inspect(fd.Body, func(n ast.Node) bool {
			gs, isGo := n.(*ast.GoStmt)
			if !isGo {
				return true
			}
			fl, isLit := gs.Call.Fun.(*ast.FuncLit)
			if !isLit {
				return true
			}
			deferOK, loopOK := false, false
			for _, st := range fl.Body.List {
				switch v := st.(type) {
				case *ast.DeferStmt:
					if dl, isDL := v.Call.Fun.(*ast.FuncLit); isDL {
						// top-level statements of the deferred function (not inside the recover branch)
						cs, cl := false, false
						for _, ds := range dl.Body.List {
							if es, isES := ds.(*ast.ExprStmt); isES {
								switch exprString(es.X) {
								case "ret.closeSend()":
									cs = true
								case fw.self + ".close()":
									cl = true
								}
							}
						}
						deferOK = cs && cl
					}
				case *ast.ForStmt:
					brEOF, brClosed := false, false
					for _, ls := range v.Body.List {
						if is, isIf := ls.(*ast.IfStmt); isIf && len(is.Body.List) == 1 {
							if bs, isBr := is.Body.List[0].(*ast.BranchStmt); isBr && bs.Tok == token.BREAK {
								switch exprString(is.Cond) {
								case "err==io.EOF":
									brEOF = true
								case "closed":
									brClosed = true
								}
							}
						}
					}
					loopOK = brEOF && brClosed && c08HasCallTo(v.Body, "ret.send") && c08HasCallTo(v.Body, fw.self+".recv")
				}
			}
			if deferOK && loopOK {
				ok = true
			}
			return true
		})
		out = append(out, boolFact(fw.fact, ok, "schema/"+file+": "+fw.recv+".toStream"))
	}
	out = append(out, c08EOFByIdentity(sp))
	out = append(out, factsC08Late(r)...) // c08_late.go: mergeTakes, mergeChildViaToStream, mergeArrayFromIndex, childRecvIsOwnPeek
	out = append(out, factsC08Wide(r)...) // c08_wide.go: reflectDisablesChosenIndex, chosenRemovedByValue, itemsCasesPerSource
	return out
}

// c08EOFByIdentity: see factsC08.  Counted per function: comparisons `x == io.EOF` / `x != io.EOF`
// (either operand order) and calls errors.Is / errors.As (with any arguments: on these paths there
// is nothing else they could be testing for, except ErrNoValue in streamReaderWithConvert.recv,
// which is allowed there and only there).
func c08EOFByIdentity(sp *Pkg) Fact {
	type want struct {
		recv, fn string
		ident    int // identity comparisons with io.EOF expected
		isOK     int // errors.Is calls allowed (the ErrNoValue test)
	}
	wants := []want{
		{"parentStreamReader", "peek", 2, 0},
		{"streamReaderWithConvert", "toStream", 1, 0},
		{"childStreamReader", "toStream", 1, 0},
		{"streamReaderWithConvert", "recv", 0, 1},
		{"childStreamReader", "recv", 0, 0},
		{"multiStreamReader", "recv", 0, 0},
		{"stream", "recv", 0, 0},
		{"arrayReader", "recv", 0, 0},
		{"StreamReader", "Recv", 0, 0},
	}
	ok := true
	var notes []string
	for _, w := range wants {
		fd, _ := sp.Func(w.recv, w.fn)
		if fd == nil || fd.Body == nil {
			return unknownFact("eofByIdentity", "Bool", "false", "schema", w.recv+"."+w.fn+" not found")
		}
		ident, other, is := 0, 0, 0
		ast.Inspect(fd.Body, func(n ast.Node) bool {
			switch v := n.(type) {
			case *ast.BinaryExpr:
				l, r := exprString(v.X), exprString(v.Y)
				if l == "io.EOF" || r == "io.EOF" {
					if v.Op == token.EQL || v.Op == token.NEQ {
						ident++
					} else {
						other++
					}
				}
			case *ast.CallExpr:
				switch exprString(v.Fun) {
				case "errors.Is":
					if w.isOK > 0 && len(v.Args) == 2 && exprString(v.Args[1]) == "ErrNoValue" {
						is++
					} else {
						other++
					}
				case "errors.As", "errors.Unwrap":
					other++
				}
			case *ast.CaseClause:
				// `switch err { case io.EOF: }` would be an identity test too, but is not what the code
				// does: counted as unrecognised
				for _, e := range v.List {
					if exprString(e) == "io.EOF" {
						other++
					}
				}
			}
			return true
		})
		if ident != w.ident || other != 0 || is > w.isOK {
			ok = false
		}
		notes = append(notes, fmt.Sprintf("%s.%s: ==/!= io.EOF %d (want %d), other tests %d", w.recv, w.fn, ident, w.ident, other))
	}
	return boolFact("eofByIdentity", ok, "schema/stream.go: "+strings.Join(notes, "; "))
}

func c08SelectCases(fl *ast.FuncLit) ([]string, string) {
	if fl.Body == nil || len(fl.Body.List) != 1 {
		return nil, "body is not a single statement"
	}
	sel, ok := fl.Body.List[0].(*ast.SelectStmt)
	if !ok {
		return nil, "body is not a select"
	}
	var row []string
	for _, cs := range sel.Body.List {
		cc := cs.(*ast.CommClause)
		if cc.Comm == nil {
			return nil, "select has a default case"
		}
		as, ok := cc.Comm.(*ast.AssignStmt)
		if !ok || len(as.Lhs) != 2 || len(as.Rhs) != 1 || exprString(as.Lhs[0]) != "item" || exprString(as.Lhs[1]) != "ok" {
			return nil, "case is not `item, ok := <-…`"
		}
		m := c08RecvRe.FindStringSubmatch(exprString(as.Rhs[0]))
		if m == nil {
			return nil, "case receives from " + exprString(as.Rhs[0])
		}
		if len(cc.Body) != 1 {
			return nil, "case body is not a single return"
		}
		rs, ok := cc.Body[0].(*ast.ReturnStmt)
		if !ok || len(rs.Results) != 3 || exprString(rs.Results[1]) != "&item" || exprString(rs.Results[2]) != "ok" {
			return nil, "case body is not `return chosenList[k], &item, ok`"
		}
		m2 := c08RetRe.FindStringSubmatch(exprString(rs.Results[0]))
		if m2 == nil {
			return nil, "case returns " + exprString(rs.Results[0])
		}
		row = append(row, "("+m[1]+", "+m2[1]+")")
	}
	return row, ""
}

// containsSelCall: a call pkg.Name(...) somewhere below n.
func c08HasSelCall(n ast.Node, pkg, name string) bool {
	return c08HasCallTo(n, pkg+"."+name)
}

func c08HasCallTo(n ast.Node, fun string) bool {
	found := false
	ast.Inspect(n, func(x ast.Node) bool {
		if c, ok := x.(*ast.CallExpr); ok && exprString(c.Fun) == fun {
			found = true
		}
		return !found
	})
	return found
}
