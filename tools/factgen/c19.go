//go:build fg_all || fg_c19

package main

import (
	"go/ast"
	"strings"
)

func init() { register("C19", factsC19) }

func factsC19(r *Repo) []Fact {
	cp := r.Pkg("compose")
	var out []Fact
	fd, _ := cp.Func("runner", "resolveCompletedTasks")
	first, recopy, toCopy := "?", "?", "?"
	closes := false
	if fd != nil {
		ast.Inspect(fd.Body, func(n ast.Node) bool {
			switch x := n.(type) {
			case *ast.AssignStmt:
				if len(x.Lhs) == 1 && len(x.Rhs) == 1 {
					lhs := exprString(x.Lhs[0])
					if c, ok := x.Rhs[0].(*ast.CallExpr); ok && exprString(c.Fun) == "copyItem" && len(c.Args) == 2 {
						if lhs == "vs" {
							first = exprString(c.Args[1])
						} else {
							recopy = exprString(c.Args[1])
						}
					}
					if lhs == "toCopyNum" {
						toCopy = exprString(x.Rhs[0])
					}
				}
			case *ast.RangeStmt:
				// for _, v := range <slice of vs> { if s, ok := v.(streamReader); ok { s.close() } }
				src := exprString(x.X)
				if (strings.HasPrefix(src, "vs[") || src == "unused" || src == "surplus") && containsMethodCall(x.Body, "close") {
					closes = true
				}
			}
			return true
		})
	}
	// closesReplaced: before `writeChannelValues[next][t.nodeKey] = vs[i]` an if statement
	// asserts the old slot value to streamReader and closes it
	replaced := false
	if fd != nil {
		ast.Inspect(fd.Body, func(n ast.Node) bool {
			is, ok := n.(*ast.IfStmt)
			if !ok || is.Init == nil {
				return true
			}
			if as, ok := is.Init.(*ast.AssignStmt); ok && len(as.Rhs) == 1 {
				rhs := exprString(as.Rhs[0])
				if strings.HasPrefix(rhs, "writeChannelValues[next][t.nodeKey].(") && strings.Contains(rhs, "streamReader") && containsMethodCall(is.Body, "close") {
					replaced = true
				}
			}
			return true
		})
		out = append(out, boolFact("closesReplaced", replaced, "compose/graph_run.go resolveCompletedTasks: the copy a repeated successor entry replaces is closed"))
	} else {
		out = append(out, unknownFact("closesReplaced", "Bool", "false", "compose/graph_run.go", "resolveCompletedTasks not found"))
	}
	// skippedChannelClosesValues: dagChannel.reportValues closes the streams when ch.Skipped
	if rfd, _ := cp.Func("dagChannel", "reportValues"); rfd != nil {
		okc := false
		for _, st := range rfd.Body.List {
			if is, ok := st.(*ast.IfStmt); ok && exprString(is.Cond) == "ch.Skipped" && containsMethodCall(is.Body, "close") {
				okc = true
			}
		}
		out = append(out, boolFact("skippedChannelClosesValues", okc, "compose/dag.go reportValues: streams handed to a skipped channel are closed"))
	} else {
		out = append(out, unknownFact("skippedChannelClosesValues", "Bool", "false", "compose/dag.go", "dagChannel.reportValues not found"))
	}
	if fd == nil {
		out = append(out, unknownFact("closesSurplus", "Bool", "false", "compose/graph_run.go", "resolveCompletedTasks not found"))
	} else {
		out = append(out, boolFact("closesSurplus", closes, "compose/graph_run.go resolveCompletedTasks: a loop closing the readers no successor consumes"))
	}
	out = append(out, Fact{Name: "firstCopyExpr", Type: "String", Value: leanStr(first), Where: "copyItem(t.output, <expr>)", Unknown: first == "?"})
	out = append(out, Fact{Name: "recopyExpr", Type: "String", Value: leanStr(recopy), Where: "nVs := copyItem(vs[...], <expr>)", Unknown: recopy == "?"})
	out = append(out, Fact{Name: "toCopyNumExpr", Type: "String", Value: leanStr(toCopy), Where: "toCopyNum := <expr>", Unknown: toCopy == "?"})
	// updateValues closes streams addressed to a non data predecessor
	cl := false
	if ufd, _ := cp.Func("channelManager", "updateValues"); ufd != nil {
		ast.Inspect(ufd.Body, func(n ast.Node) bool {
			if is, ok := n.(*ast.IfStmt); ok && is.Else != nil {
				if as, ok := is.Init.(*ast.AssignStmt); ok && len(as.Rhs) == 1 && exprString(as.Rhs[0]) == "dps[from]" && containsMethodCall(is.Else, "close") {
					cl = true
				}
			}
			return true
		})
		out = append(out, boolFact("closesNonDataValues", cl, "compose/graph_manager.go updateValues: else-branch closes the stream when `from` is not a data predecessor"))
	} else {
		out = append(out, unknownFact("closesNonDataValues", "Bool", "false", "compose/graph_manager.go", "updateValues not found"))
	}
	return out
}

func containsMethodCall(n ast.Node, method string) bool {
	found := false
	ast.Inspect(n, func(x ast.Node) bool {
		if c, ok := x.(*ast.CallExpr); ok {
			if s, ok := c.Fun.(*ast.SelectorExpr); ok && s.Sel.Name == method {
				found = true
			}
		}
		return !found
	})
	return found
}
