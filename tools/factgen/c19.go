//go:build fg_all || fg_c19

package main

import (
	"go/ast"
	"strings"
)

func init() { register("C19", factsC19) }

func factsC19(r *Repo) []Fact {
	cp := r.Pkg("compose")
	var out []Fact
	fd, _ := cp.Func("runner", "resolveCompletedTasks")
	first, recopy, toCopy := "?", "?", "?"
	closes := false
	if fd != nil {
		ast.Inspect(fd.Body, func(n ast.Node) bool {
			switch x := n.(type) {
			case *ast.AssignStmt:
				if len(x.Lhs) == 1 && len(x.Rhs) == 1 {
					lhs := exprString(x.Lhs[0])
					if c, ok := x.Rhs[0].(*ast.CallExpr); ok && exprString(c.Fun) == "copyItem" && len(c.Args) == 2 {
						if lhs == "vs" {
							first = exprString(c.Args[1])
						} else {
							recopy = exprString(c.Args[1])
						}
					}
					if lhs == "toCopyNum" {
						toCopy = exprString(x.Rhs[0])
					}
				}
			case *ast.RangeStmt:
				// for _, v := range <slice of vs> { if s, ok := v.(streamReader); ok { s.close() } }
				src := exprString(x.X)
				if (strings.HasPrefix(src, "vs[") || src == "unused" || src == "surplus") && containsMethodCall(x.Body, "close") {
					closes = true
				}
			}
			return true
		})
	}
	// closesReplaced: before `writeChannelValues[next][t.nodeKey] = vs[i]` an if statement
	// asserts the old slot value to streamReader and closes it
	replaced := false
	if fd != nil {
		ast.Inspect(fd.Body, func(n ast.Node) bool {
			is, ok := n.(*ast.IfStmt)
			if !ok || is.Init == nil {
				return true
			}
			if as, ok := is.Init.(*ast.AssignStmt); ok && len(as.Rhs) == 1 {
				rhs := exprString(as.Rhs[0])
				if strings.HasPrefix(rhs, "writeChannelValues[next][t.nodeKey].(") && strings.Contains(rhs, "streamReader") && containsMethodCall(is.Body, "close") {
					replaced = true
				}
			}
			return true
		})
		out = append(out, boolFact("closesReplaced", replaced, "compose/graph_run.go resolveCompletedTasks: the copy a repeated successor entry replaces is closed"))
	} else {
		out = append(out, unknownFact("closesReplaced", "Bool", "false", "compose/graph_run.go", "resolveCompletedTasks not found"))
	}
	// skippedChannelClosesValues: dagChannel.reportValues closes the streams when ch.Skipped
	if rfd, _ := cp.Func("dagChannel", "reportValues"); rfd != nil {
		okc := false
		for _, st := range rfd.Body.List {
			if is, ok := st.(*ast.IfStmt); ok && exprString(is.Cond) == "ch.Skipped" && containsMethodCall(is.Body, "close") {
				okc = true
			}
		}
		out = append(out, boolFact("skippedChannelClosesValues", okc, "compose/dag.go reportValues: streams handed to a skipped channel are closed"))
	} else {
		out = append(out, unknownFact("skippedChannelClosesValues", "Bool", "false", "compose/dag.go", "dagChannel.reportValues not found"))
	}
	if fd == nil {
		out = append(out, unknownFact("closesSurplus", "Bool", "false", "compose/graph_run.go", "resolveCompletedTasks not found"))
	} else {
		out = append(out, boolFact("closesSurplus", closes, "compose/graph_run.go resolveCompletedTasks: a loop closing the readers no successor consumes"))
	}
	out = append(out, Fact{Name: "firstCopyExpr", Type: "String", Value: leanStr(first), Where: "copyItem(t.output, <expr>)", Unknown: first == "?"})
	out = append(out, Fact{Name: "recopyExpr", Type: "String", Value: leanStr(recopy), Where: "nVs := copyItem(vs[...], <expr>)", Unknown: recopy == "?"})
	out = append(out, Fact{Name: "toCopyNumExpr", Type: "String", Value: leanStr(toCopy), Where: "toCopyNum := <expr>", Unknown: toCopy == "?"})
	// updateValues closes streams addressed to a non data predecessor
	cl := false
	if ufd, _ := cp.Func("channelManager", "updateValues"); ufd != nil {
		ast.Inspect(ufd.Body, func(n ast.Node) bool {
			if is, ok := n.(*ast.IfStmt); ok && is.Else != nil {
				if as, ok := is.Init.(*ast.AssignStmt); ok && len(as.Rhs) == 1 && exprString(as.Rhs[0]) == "dps[from]" && containsMethodCall(is.Else, "close") {
					cl = true
				}
			}
			return true
		})
		out = append(out, boolFact("closesNonDataValues", cl, "compose/graph_manager.go updateValues: else-branch closes the stream when `from` is not a data predecessor"))
	} else {
		out = append(out, unknownFact("closesNonDataValues", "Bool", "false", "compose/graph_manager.go", "updateValues not found"))
	}
	out = append(out, factsC19Merge(r)...)
	return out
}

// the merged reader (schema/stream.go multiStreamReader): the shape of the loop in `close`
// (which sources get the closeRecv signal) and of the bookkeeping in `recv` (a source found
// closed is dropped from chosenList). Range variables are renamed K (key) and V (value).
func factsC19Merge(r *Repo) []Fact {
	sp := r.Pkg("schema")
	var out []Fact
	where := "schema/stream.go multiStreamReader.close: range <X>: <receiver>.closeRecv()"
	cfd, _ := sp.Func("multiStreamReader", "close")
	if cfd == nil || cfd.Body == nil {
		out = append(out, unknownFact("mergeCloseLoop", "String", "\"\"", where, "multiStreamReader.close not found"))
	} else {
		loop := "?"
		if len(cfd.Body.List) == 1 {
			if rs, ok := cfd.Body.List[0].(*ast.RangeStmt); ok && len(rs.Body.List) == 1 {
				ren := map[string]string{}
				if id, ok := rs.Key.(*ast.Ident); ok && id.Name != "_" {
					ren[id.Name] = "K"
				}
				if id, ok := rs.Value.(*ast.Ident); ok && id.Name != "_" {
					ren[id.Name] = "V"
				}
				if es, ok := rs.Body.List[0].(*ast.ExprStmt); ok {
					if c, ok := es.X.(*ast.CallExpr); ok && len(c.Args) == 0 {
						if sel, ok := c.Fun.(*ast.SelectorExpr); ok {
							loop = "range " + exprString(rs.X) + ": " + c19Renamed(sel.X, ren) + "." + sel.Sel.Name + "()"
						}
					}
				}
			}
		}
		// "?" (any other body: several statements, conditions, ...) is a value no theorem accepts
		out = append(out, Fact{Name: "mergeCloseLoop", Type: "String", Value: leanStr(loop), Where: where})
	}
	whereR := "schema/stream.go multiStreamReader.recv: if <cond> { msr.chosenList = <expr> } inside a range over msr.chosenList"
	rfd, _ := sp.Func("multiStreamReader", "recv")
	if rfd == nil || rfd.Body == nil {
		out = append(out, unknownFact("mergeRecvDrop", "String", "\"\"", whereR, "multiStreamReader.recv not found"))
	} else {
		drop := "?"
		n := 0
		ast.Inspect(rfd.Body, func(x ast.Node) bool {
			rs, ok := x.(*ast.RangeStmt)
			if !ok || exprString(rs.X) != "msr.chosenList" {
				return true
			}
			ren := map[string]string{}
			if id, ok := rs.Key.(*ast.Ident); ok && id.Name != "_" {
				ren[id.Name] = "K"
			}
			if id, ok := rs.Value.(*ast.Ident); ok && id.Name != "_" {
				ren[id.Name] = "V"
			}
			for _, st := range rs.Body.List {
				is, ok := st.(*ast.IfStmt)
				if !ok || is.Init != nil || is.Else != nil {
					continue
				}
				for _, bs := range is.Body.List {
					if as, ok := bs.(*ast.AssignStmt); ok && len(as.Lhs) == 1 && len(as.Rhs) == 1 && exprString(as.Lhs[0]) == "msr.chosenList" {
						n++
						drop = "if " + c19Renamed(is.Cond, ren) + ": " + c19Renamed(as.Rhs[0], ren)
					}
				}
			}
			return true
		})
		if n != 1 {
			drop = "?"
		}
		// every assignment to msr.chosenList in recv must be that one
		assigns := 0
		ast.Inspect(rfd.Body, func(x ast.Node) bool {
			if as, ok := x.(*ast.AssignStmt); ok {
				for _, l := range as.Lhs {
					if exprString(l) == "msr.chosenList" {
						assigns++
					}
				}
			}
			return true
		})
		if assigns != 1 {
			drop = "?"
		}
		out = append(out, Fact{Name: "mergeRecvDrop", Type: "String", Value: leanStr(drop), Where: whereR})
	}
	return out
}

// c19Renamed renders an expression like exprString, with the identifiers in ren replaced.
func c19Renamed(e ast.Expr, ren map[string]string) string {
	switch v := e.(type) {
	case *ast.Ident:
		if n, ok := ren[v.Name]; ok {
			return n
		}
		return v.Name
	case *ast.SelectorExpr:
		return c19Renamed(v.X, ren) + "." + v.Sel.Name
	case *ast.IndexExpr:
		return c19Renamed(v.X, ren) + "[" + c19Renamed(v.Index, ren) + "]"
	case *ast.BinaryExpr:
		return c19Renamed(v.X, ren) + v.Op.String() + c19Renamed(v.Y, ren)
	case *ast.ParenExpr:
		return "(" + c19Renamed(v.X, ren) + ")"
	case *ast.BasicLit:
		return v.Value
	case *ast.SliceExpr:
		lo, hi := "", ""
		if v.Low != nil {
			lo = c19Renamed(v.Low, ren)
		}
		if v.High != nil {
			hi = c19Renamed(v.High, ren)
		}
		return c19Renamed(v.X, ren) + "[" + lo + ":" + hi + "]"
	case *ast.CallExpr:
		var as []string
		for _, a := range v.Args {
			as = append(as, c19Renamed(a, ren))
		}
		dots := ""
		if v.Ellipsis.IsValid() {
			dots = "..."
		}
		return c19Renamed(v.Fun, ren) + "(" + strings.Join(as, ",") + dots + ")"
	}
	return "?"
}

func containsMethodCall(n ast.Node, method string) bool {
	found := false
	ast.Inspect(n, func(x ast.Node) bool {
		if c, ok := x.(*ast.CallExpr); ok {
			if s, ok := c.Fun.(*ast.SelectorExpr); ok && s.Sel.Name == method {
				found = true
			}
		}
		return !found
	})
	return found
}
