//go:build fg_all || fg_c19

package main

import (
	"go/ast"
	"strings"
)

func init() { register("C19", factsC19) }

func factsC19(r *Repo) []Fact {
	cp := r.Pkg("compose")
	var out []Fact
	fd, _ := cp.Func("runner", "resolveCompletedTasks")
	first, recopy, toCopy := "?", "?", "?"
	closes := false
	if fd != nil {
		ast.Inspect(fd.Body, func(n ast.Node) bool {
			switch x := n.(type) {
			case *ast.AssignStmt:
				if len(x.Lhs) == 1 && len(x.Rhs) == 1 {
					lhs := exprString(x.Lhs[0])
					if c, ok := x.Rhs[0].(*ast.CallExpr); ok && exprString(c.Fun) == "copyItem" && len(c.Args) == 2 {
						if lhs == "vs" {
							first = exprString(c.Args[1])
						} else {
							recopy = exprString(c.Args[1])
						}
					}
					if lhs == "toCopyNum" {
						toCopy = exprString(x.Rhs[0])
					}
				}
			case *ast.RangeStmt:
				// for _, v := range <slice of vs> { if s, ok := v.(streamReader); ok { s.close() } }
				src := exprString(x.X)
				if (strings.HasPrefix(src, "vs[") || src == "unused" || src == "surplus") && c19Closes(cp, x.Body) {
					closes = true
				}
			}
			return true
		})
	}
	// closesReplaced: before `writeChannelValues[next][t.nodeKey] = vs[i]` an if statement
	// asserts the old slot value to streamReader and closes it
	replaced := false
	if fd != nil {
		ast.Inspect(fd.Body, func(n ast.Node) bool {
			// or: <close-if-stream helper>(writeChannelValues[next][t.nodeKey]) as a statement
			if es, ok := n.(*ast.ExprStmt); ok {
				if c, ok := es.X.(*ast.CallExpr); ok && len(c.Args) == 1 && exprString(c.Args[0]) == "writeChannelValues[next][t.nodeKey]" && c19Closes(cp, es) {
					replaced = true
				}
			}
			is, ok := n.(*ast.IfStmt)
			if !ok || is.Init == nil {
				return true
			}
			if as, ok := is.Init.(*ast.AssignStmt); ok && len(as.Rhs) == 1 {
				rhs := exprString(as.Rhs[0])
				if strings.HasPrefix(rhs, "writeChannelValues[next][t.nodeKey].(") && strings.Contains(rhs, "streamReader") && c19Closes(cp, is.Body) {
					replaced = true
				}
			}
			return true
		})
		out = append(out, boolFact("closesReplaced", replaced, "compose/graph_run.go resolveCompletedTasks: the copy a repeated successor entry replaces is closed"))
	} else {
		out = append(out, unknownFact("closesReplaced", "Bool", "false", "compose/graph_run.go", "resolveCompletedTasks not found"))
	}
	// skippedChannelClosesValues: dagChannel.reportValues closes the streams when ch.Skipped
	if rfd, _ := cp.Func("dagChannel", "reportValues"); rfd != nil {
		// if ch.Skipped { for _, v := range <the parameter> { <close v> } ... }: the values that
		// ARRIVE are closed (ranging over anything else, e.g. the values already held, does not count)
		okc := false
		param := ""
		if rfd.Type.Params != nil && len(rfd.Type.Params.List) == 1 && len(rfd.Type.Params.List[0].Names) == 1 {
			param = rfd.Type.Params.List[0].Names[0].Name
		}
		for _, st := range rfd.Body.List {
			if is, ok := st.(*ast.IfStmt); ok && exprString(is.Cond) == "ch.Skipped" {
				for _, bs := range is.Body.List {
					if rs, ok := bs.(*ast.RangeStmt); ok && param != "" && exprString(rs.X) == param && c19Closes(cp, rs.Body) {
						okc = true
					}
				}
			}
		}
		out = append(out, boolFact("skippedChannelClosesValues", okc, "compose/dag.go reportValues: the streams handed to a skipped channel (a range over the parameter) are closed"))
	} else {
		out = append(out, unknownFact("skippedChannelClosesValues", "Bool", "false", "compose/dag.go", "dagChannel.reportValues not found"))
	}
	// skipReleasesStored: dagChannel.reportSkip closes the streams the channel already holds
	// (range over ch.Values) under a condition that mentions allSkipped
	if sfd, _ := cp.Func("dagChannel", "reportSkip"); sfd != nil {
		rel := false
		ast.Inspect(sfd.Body, func(n ast.Node) bool {
			if is, ok := n.(*ast.IfStmt); ok && strings.Contains(exprString(is.Cond), "allSkipped") {
				for _, bs := range is.Body.List {
					if rs, ok := bs.(*ast.RangeStmt); ok && exprString(rs.X) == "ch.Values" && c19Closes(cp, rs.Body) {
						rel = true
					}
				}
			}
			return true
		})
		out = append(out, boolFact("skipReleasesStored", rel, "compose/dag.go reportSkip: when the channel turns skipped the streams it already holds (ch.Values) are closed"))
	} else {
		out = append(out, unknownFact("skipReleasesStored", "Bool", "false", "compose/dag.go", "dagChannel.reportSkip not found"))
	}
	if fd == nil {
		out = append(out, unknownFact("closesSurplus", "Bool", "false", "compose/graph_run.go", "resolveCompletedTasks not found"))
	} else {
		out = append(out, boolFact("closesSurplus", closes, "compose/graph_run.go resolveCompletedTasks: a loop closing the readers no successor consumes"))
	}
	out = append(out, Fact{Name: "firstCopyExpr", Type: "String", Value: leanStr(first), Where: "copyItem(t.output, <expr>)", Unknown: first == "?"})
	out = append(out, Fact{Name: "recopyExpr", Type: "String", Value: leanStr(recopy), Where: "nVs := copyItem(vs[...], <expr>)", Unknown: recopy == "?"})
	out = append(out, Fact{Name: "toCopyNumExpr", Type: "String", Value: leanStr(toCopy), Where: "toCopyNum := <expr>", Unknown: toCopy == "?"})
	// updateValues closes streams addressed to a non data predecessor
	cl := false
	if ufd, _ := cp.Func("channelManager", "updateValues"); ufd != nil {
		ast.Inspect(ufd.Body, func(n ast.Node) bool {
			if is, ok := n.(*ast.IfStmt); ok && is.Else != nil {
				if as, ok := is.Init.(*ast.AssignStmt); ok && len(as.Rhs) == 1 && exprString(as.Rhs[0]) == "dps[from]" && c19Closes(cp, is.Else) {
					cl = true
				}
			}
			return true
		})
		out = append(out, boolFact("closesNonDataValues", cl, "compose/graph_manager.go updateValues: else-branch closes the stream when `from` is not a data predecessor"))
	} else {
		out = append(out, unknownFact("closesNonDataValues", "Bool", "false", "compose/graph_manager.go", "updateValues not found"))
	}
	out = append(out, factC19MissingDps(cp))
	out = append(out, factsC19Callbacks(r)...)
	out = append(out, factsC19Merge(r)...)
	return out
}

// missingDpsArm: what channelManager.updateValues does for a target that has no entry in
// c.dataPredecessors (no data edge ends at it; the end node of a data-less Workflow branch that
// takes no input of its own). The values sent to such a target must still reach the arm that
// closes streams from non-data senders.
//
//	dps, ok := c.dataPredecessors[target]; if !ok { dps = <empty map | nil> }   -> "empty-set"
//	dps := c.dataPredecessors[target]   /  dps, _ := ...                         -> "nil-map"
//	... if !ok { continue }                                                      -> "skip-target"
//	... if !ok { return ... }                                                    -> "return"
//
// anything else renders "?" (no theorem accepts it).
func factC19MissingDps(cp *Pkg) Fact {
	where := "compose/graph_manager.go updateValues: the statement after `dps, ok := c.dataPredecessors[target]`"
	ufd, _ := cp.Func("channelManager", "updateValues")
	if ufd == nil || ufd.Body == nil {
		return unknownFact("missingDpsArm", "String", "\"\"", where, "updateValues not found")
	}
	arm, found := "?", 0
	var visit func(list []ast.Stmt)
	visit = func(list []ast.Stmt) {
		for i, st := range list {
			switch x := st.(type) {
			case *ast.AssignStmt:
				if len(x.Rhs) != 1 {
					continue
				}
				ie, ok := x.Rhs[0].(*ast.IndexExpr)
				if !ok || !strings.HasSuffix(exprString(ie.X), ".dataPredecessors") {
					continue
				}
				found++
				if len(x.Lhs) == 1 {
					arm = "nil-map"
					continue
				}
				if len(x.Lhs) != 2 {
					continue
				}
				okName := exprString(x.Lhs[1])
				dpsName := exprString(x.Lhs[0])
				if okName == "_" {
					arm = "nil-map"
					continue
				}
				if i+1 >= len(list) {
					continue
				}
				is, isIf := list[i+1].(*ast.IfStmt)
				if !isIf || is.Init != nil || is.Else != nil || exprString(is.Cond) != "!"+okName {
					continue
				}
				arm = c19MissingArm(is.Body, dpsName)
			case *ast.RangeStmt:
				visit(x.Body.List)
			case *ast.ForStmt:
				visit(x.Body.List)
			case *ast.BlockStmt:
				visit(x.List)
			}
		}
	}
	visit(ufd.Body.List)
	if found != 1 {
		arm = "?"
	}
	return Fact{Name: "missingDpsArm", Type: "String", Value: leanStr(arm), Where: where}
}

func c19MissingArm(body *ast.BlockStmt, dpsName string) string {
	if body == nil || len(body.List) != 1 {
		return "?"
	}
	switch s := body.List[0].(type) {
	case *ast.BranchStmt:
		if s.Tok.String() == "continue" && s.Label == nil {
			return "skip-target"
		}
	case *ast.ReturnStmt:
		return "return"
	case *ast.AssignStmt:
		if len(s.Lhs) == 1 && len(s.Rhs) == 1 && exprString(s.Lhs[0]) == dpsName && s.Tok.String() == "=" {
			switch r := s.Rhs[0].(type) {
			case *ast.CompositeLit:
				if _, isMap := r.Type.(*ast.MapType); isMap && len(r.Elts) == 0 {
					return "empty-set"
				}
			case *ast.Ident:
				if r.Name == "nil" {
					return "empty-set"
				}
			case *ast.CallExpr:
				if exprString(r.Fun) == "make" && len(r.Args) >= 1 {
					if _, isMap := r.Args[0].(*ast.MapType); isMap {
						return "empty-set"
					}
				}
			}
		}
	}
	return "?"
}

// the merged reader (schema/stream.go multiStreamReader): the shape of the loop in `close`
// (which sources get the closeRecv signal) and of the bookkeeping in `recv` (a source found
// closed is dropped from chosenList). Range variables are renamed K (key) and V (value).
func factsC19Merge(r *Repo) []Fact {
	sp := r.Pkg("schema")
	var out []Fact
	where := "schema/stream.go multiStreamReader.close: range <X>: <receiver>.closeRecv()"
	cfd, _ := sp.Func("multiStreamReader", "close")
	if cfd == nil || cfd.Body == nil {
		out = append(out, unknownFact("mergeCloseLoop", "String", "\"\"", where, "multiStreamReader.close not found"))
	} else {
		loop := "?"
		if len(cfd.Body.List) == 1 {
			if rs, ok := cfd.Body.List[0].(*ast.RangeStmt); ok && len(rs.Body.List) == 1 {
				ren := map[string]string{}
				if id, ok := rs.Key.(*ast.Ident); ok && id.Name != "_" {
					ren[id.Name] = "K"
				}
				if id, ok := rs.Value.(*ast.Ident); ok && id.Name != "_" {
					ren[id.Name] = "V"
				}
				if es, ok := rs.Body.List[0].(*ast.ExprStmt); ok {
					if c, ok := es.X.(*ast.CallExpr); ok && len(c.Args) == 0 {
						if sel, ok := c.Fun.(*ast.SelectorExpr); ok {
							loop = "range " + exprString(rs.X) + ": " + c19Renamed(sel.X, ren) + "." + sel.Sel.Name + "()"
						}
					}
				}
			}
		}
		// "?" (any other body: several statements, conditions, ...) is a value no theorem accepts
		out = append(out, Fact{Name: "mergeCloseLoop", Type: "String", Value: leanStr(loop), Where: where})
	}
	whereR := "schema/stream.go multiStreamReader.recv: if <cond> { msr.chosenList = <expr> } inside a range over msr.chosenList"
	rfd, _ := sp.Func("multiStreamReader", "recv")
	if rfd == nil || rfd.Body == nil {
		out = append(out, unknownFact("mergeRecvDrop", "String", "\"\"", whereR, "multiStreamReader.recv not found"))
	} else {
		drop := "?"
		n := 0
		ast.Inspect(rfd.Body, func(x ast.Node) bool {
			rs, ok := x.(*ast.RangeStmt)
			if !ok || exprString(rs.X) != "msr.chosenList" {
				return true
			}
			ren := map[string]string{}
			if id, ok := rs.Key.(*ast.Ident); ok && id.Name != "_" {
				ren[id.Name] = "K"
			}
			if id, ok := rs.Value.(*ast.Ident); ok && id.Name != "_" {
				ren[id.Name] = "V"
			}
			for _, st := range rs.Body.List {
				is, ok := st.(*ast.IfStmt)
				if !ok || is.Init != nil || is.Else != nil {
					continue
				}
				for _, bs := range is.Body.List {
					if as, ok := bs.(*ast.AssignStmt); ok && len(as.Lhs) == 1 && len(as.Rhs) == 1 && exprString(as.Lhs[0]) == "msr.chosenList" {
						n++
						drop = "if " + c19Renamed(is.Cond, ren) + ": " + c19Renamed(as.Rhs[0], ren)
					}
				}
			}
			return true
		})
		if n != 1 {
			drop = "?"
		}
		// every assignment to msr.chosenList in recv must be that one
		assigns := 0
		ast.Inspect(rfd.Body, func(x ast.Node) bool {
			if as, ok := x.(*ast.AssignStmt); ok {
				for _, l := range as.Lhs {
					if exprString(l) == "msr.chosenList" {
						assigns++
					}
				}
			}
			return true
		})
		if assigns != 1 {
			drop = "?"
		}
		out = append(out, Fact{Name: "mergeRecvDrop", Type: "String", Value: leanStr(drop), Where: whereR})
	}
	return out
}

// callback copies (internal/callbacks/inject.go OnWithStreamHandle): the number of copies made
// (`cpy(<expr>)`) and the loop that hands them out. The loop must be a range whose body is the
// single statement `ctx = handle(ctx, <value>, inOuts[<key>])`: every listed handler gets the
// copy at its own index; any other body (a condition, a continue, ...) renders "?".
func factsC19Callbacks(r *Repo) []Fact {
	ip := r.Pkg("internal/callbacks")
	whereC := "internal/callbacks/inject.go OnWithStreamHandle: inOuts := cpy(<expr>)"
	whereL := "internal/callbacks/inject.go OnWithStreamHandle: for K, V := range handlers { ctx = handle(ctx, V, inOuts[K]) }"
	fd, _ := ip.Func("", "OnWithStreamHandle")
	if fd == nil || fd.Body == nil {
		return []Fact{unknownFact("cbCopyCountExpr", "String", "\"\"", whereC, "OnWithStreamHandle not found"),
			unknownFact("cbHandLoop", "String", "\"\"", whereL, "OnWithStreamHandle not found")}
	}
	count, loop, nCpy, nRange := "?", "?", 0, 0
	for _, st := range fd.Body.List {
		switch x := st.(type) {
		case *ast.AssignStmt:
			if len(x.Rhs) == 1 {
				if c, ok := x.Rhs[0].(*ast.CallExpr); ok && exprString(c.Fun) == "cpy" && len(c.Args) == 1 {
					nCpy++
					count = exprString(c.Args[0])
				}
			}
		case *ast.RangeStmt:
			nRange++
			ren := map[string]string{}
			if id, ok := x.Key.(*ast.Ident); ok && id.Name != "_" {
				ren[id.Name] = "K"
			}
			if id, ok := x.Value.(*ast.Ident); ok && id.Name != "_" {
				ren[id.Name] = "V"
			}
			if len(x.Body.List) == 1 {
				if as, ok := x.Body.List[0].(*ast.AssignStmt); ok && len(as.Lhs) == 1 && len(as.Rhs) == 1 {
					loop = "range " + exprString(x.X) + ": " + c19Renamed(as.Lhs[0], ren) + as.Tok.String() + c19Renamed(as.Rhs[0], ren)
				}
			}
		}
	}
	if nCpy != 1 {
		count = "?"
	}
	if nRange != 1 {
		loop = "?"
	}
	return []Fact{{Name: "cbCopyCountExpr", Type: "String", Value: leanStr(count), Where: whereC},
		{Name: "cbHandLoop", Type: "String", Value: leanStr(loop), Where: whereL}}
}

// c19Renamed renders an expression like exprString, with the identifiers in ren replaced.
func c19Renamed(e ast.Expr, ren map[string]string) string {
	switch v := e.(type) {
	case *ast.Ident:
		if n, ok := ren[v.Name]; ok {
			return n
		}
		return v.Name
	case *ast.SelectorExpr:
		return c19Renamed(v.X, ren) + "." + v.Sel.Name
	case *ast.IndexExpr:
		return c19Renamed(v.X, ren) + "[" + c19Renamed(v.Index, ren) + "]"
	case *ast.BinaryExpr:
		return c19Renamed(v.X, ren) + v.Op.String() + c19Renamed(v.Y, ren)
	case *ast.ParenExpr:
		return "(" + c19Renamed(v.X, ren) + ")"
	case *ast.BasicLit:
		return v.Value
	case *ast.SliceExpr:
		lo, hi := "", ""
		if v.Low != nil {
			lo = c19Renamed(v.Low, ren)
		}
		if v.High != nil {
			hi = c19Renamed(v.High, ren)
		}
		return c19Renamed(v.X, ren) + "[" + lo + ":" + hi + "]"
	case *ast.CallExpr:
		var as []string
		for _, a := range v.Args {
			as = append(as, c19Renamed(a, ren))
		}
		dots := ""
		if v.Ellipsis.IsValid() {
			dots = "..."
		}
		return c19Renamed(v.Fun, ren) + "(" + strings.Join(as, ",") + dots + ")"
	}
	return "?"
}

// c19Closes: the node closes a stream — it contains a `.close()` method call, or a call of a
// receiver-less function of the package whose body contains one (a close-if-stream helper).
func c19Closes(cp *Pkg, n ast.Node) bool {
	if n == nil {
		return false
	}
	if containsMethodCall(n, "close") {
		return true
	}
	found := false
	ast.Inspect(n, func(x ast.Node) bool {
		if c, ok := x.(*ast.CallExpr); ok {
			if id, ok := c.Fun.(*ast.Ident); ok && len(c.Args) == 1 {
				if fd, _ := cp.Func("", id.Name); fd != nil && fd.Body != nil && containsMethodCall(fd.Body, "close") {
					found = true
				}
			}
		}
		return !found
	})
	return found
}

func containsMethodCall(n ast.Node, method string) bool {
	found := false
	ast.Inspect(n, func(x ast.Node) bool {
		if c, ok := x.(*ast.CallExpr); ok {
			if s, ok := c.Fun.(*ast.SelectorExpr); ok && s.Sel.Name == method {
				found = true
			}
		}
		return !found
	})
	return found
}
