#!/usr/bin/env python3
"""tools/design_add.py <Cxx> <file> — inserts the paragraph(s) of <file> into DESIGN.md §4 <Cxx>, right before its '**Findings.**' line."""
import sys, re
pid, f = sys.argv[1], sys.argv[2]
txt = open(f).read().strip() + '\n\n'
p = '/verif/DESIGN.md'; s = open(p).read()
m = re.search(r'^### %s — .*?$' % pid, s, re.M)
assert m, 'section not found'
e = s.find('\n**Findings.**', m.end())
nxt = re.search(r'^### ', s[m.end():], re.M)
assert e != -1 and (not nxt or e < m.end() + nxt.start()), 'no Findings line in the section'
s = s[:e + 1] + txt + s[e + 1:]
open(p, 'w').write(s)
print('inserted', len(txt), 'chars into', pid)
