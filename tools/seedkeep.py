#!/usr/bin/env python3
"""tools/seedkeep.py <Cxx-n> [check ids...]
Confirms a seeded change produced by an independent agent (/tmp/mut/out/<Cxx-n>/) in scratch
worktrees of /repo and, if everything holds, keeps it as /verif/seeded/<Cxx-n>/:
  1. patch applies to /repo HEAD, tree builds, existing test suite passes with it
  2. the demonstration fails with the patch and passes without it
  3. our checks are run against the patched worktree (VERIF_REPO) and the verdicts recorded
"""
import sys, os, re, json, subprocess, shutil, glob, time
sid = sys.argv[1]; prop = sid.split('-')[0]
checks = sys.argv[2:] or [prop]
src = os.environ.get('SEED_SRC', '/tmp/mut/out') + '/' + sid
dst = '/verif/seeded/' + sid
env = dict(os.environ, GOFLAGS='-mod=mod', GOPROXY='off', GOSUMDB='off', GOTOOLCHAIN='local')
def sh(cmd, cwd=None, timeout=1800, extra=None):
    e = dict(env); e.update(extra or {})
    p = subprocess.run(cmd, cwd=cwd, env=e, shell=isinstance(cmd, str), stdout=subprocess.PIPE, stderr=subprocess.STDOUT, text=True, timeout=timeout)
    return p.returncode, p.stdout
PKGDIR = {'compose': 'compose', 'compose_test': 'compose', 'react': 'flow/agent/react', 'react_test': 'flow/agent/react',
          'serialization': 'internal/serialization', 'serialization_test': 'internal/serialization', 'schema': 'schema', 'schema_test': 'schema',
          'callbacks': 'internal/callbacks', 'internal': 'internal', 'generic': 'internal/generic', 'host': 'flow/agent/multiagent/host'}
wt = '/tmp/wt/keep-%s-%d' % (sid, os.getpid())
rc, out = sh(['git', '-C', '/repo', 'worktree', 'add', '-q', '--detach', wt, 'HEAD'])
res = {'seed': sid, 'property': prop, 'repo_head': sh('git -C /repo rev-parse --short HEAD')[1].strip(), 'at': time.strftime('%Y-%m-%d %H:%M:%S')}
try:
    demos = []
    for f in sorted(glob.glob(src + '/*_test.go') + glob.glob(src + '/*/*_test.go')):
        pkg = re.search(r'^package\s+(\w+)', open(f).read(), re.M).group(1)
        d = PKGDIR.get(pkg)
        if d is None: raise SystemExit('unknown package %s in %s' % (pkg, f))
        demos.append((f, d))
    def place():
        for f, d in demos: shutil.copy(f, os.path.join(wt, d, os.path.basename(f)))
    def testnames(f):
        return '|'.join(re.findall(r'^func (Test\w+)\(', open(f).read(), re.M))
    def rundemos():
        ok = True; outs = []
        for f, d in demos:
            rc, out = sh(['go', 'test', '-vet=off', '-count=1', '-run', '^(%s)$' % testnames(f), './' + d + '/'], cwd=wt, timeout=900)
            ok = ok and rc == 0; outs.append(out[-600:])
        return ok, outs
    # without the patch
    place(); ok0, o0 = rundemos()
    res['demo_passes_without_patch'] = ok0
    # with the patch
    rc, out = sh(['git', 'apply', src + '/patch.diff'], cwd=wt); res['patch_applies'] = rc == 0
    rc, out = sh('go build ./...', cwd=wt); res['builds'] = rc == 0
    ok1, o1 = rundemos(); res['demo_fails_with_patch'] = not ok1
    res['demo_output_with_patch'] = [x[-400:] for x in o1]
    for f, d in demos: os.remove(os.path.join(wt, d, os.path.basename(f)))
    rc, out = sh('go test -vet=off -count=1 ./... 2>&1 | grep -v "no test files" | grep -v "^ok"', cwd=wt)
    res['existing_suite_passes_with_patch'] = out.strip() == ''
    if out.strip(): res['existing_suite_failures'] = out[-800:]
    res['checks'] = {}
    for c in checks:
        rc, out = sh(['./check', c], cwd='/verif', extra={'VERIF_REPO': wt}, timeout=3600)
        lines = out.strip().split('\n')
        if rc == 2 or not lines[-1].startswith('check '):   # tooling failure (e.g. factgen does not build), not a verdict
            res.setdefault('tooling_errors', {})[c] = out[-600:]
            continue
        res['checks'][c] = {'caught': rc != 0, 'violations': sum(1 for l in lines if l.startswith('VIOLATION')),
                            'without_failing_input': sum(1 for l in lines if 'no-failing-input-found' in l), 'summary': lines[-1][:300],
                            'first_violation': next((l for l in lines if l.startswith('VIOLATION')), None)}
        v = res['checks'][c]['first_violation']
        if v:
            m = re.search(r'replay=(\S+)', v)
            if m and os.path.exists(m.group(1)):
                try:
                    rp = json.load(open(m.group(1))); res['checks'][c]['signature'] = rp.get('signature'); res['checks'][c]['what'] = (rp.get('what') or '')[:300]
                except Exception: pass
finally:
    sh(['git', '-C', '/repo', 'worktree', 'remove', '--force', wt])
good = res.get('patch_applies') and res.get('builds') and res.get('demo_passes_without_patch') and res.get('demo_fails_with_patch') and res.get('existing_suite_passes_with_patch')
res['confirmed'] = bool(good)
print(json.dumps(res, indent=1))
if good:
    os.makedirs(dst, exist_ok=True)
    shutil.copy(src + '/patch.diff', dst + '/patch.diff')
    def keepname(f):
        rel = os.path.relpath(f, src)
        return rel.replace('/', '__')
    for f, d in demos: shutil.copy(f, dst + '/' + keepname(f))
    if os.path.exists(src + '/README.md'): shutil.copy(src + '/README.md', dst + '/README.md')
    meta = {'property': prop, 'breaks': 'see README.md (written by the independent agent that produced the change)',
            'demo_files': [{'file': keepname(f), 'goes_in': d, 'as': os.path.basename(f)} for f, d in demos],
            'confirmed_by': 'tools/seedkeep.py in a scratch worktree of /repo', 'result': res}
    json.dump(meta, open(dst + '/meta.json', 'w'), indent=1)
