#!/bin/sh
# tools/seedtest.sh <Cxx> <dir with patch.diff [+ demo files]> [check ids...]
# Evaluates one seeded change in a scratch worktree (never touches /repo's working tree):
#  1. the patch applies to /repo HEAD, the tree builds and the existing test suite passes
#  2. our checks (default: the property's own) are run against the worktree (VERIF_REPO)
# Prints one summary line per check: CAUGHT / MISSED.
set -u
P="$1"; D="$2"; shift 2
CHECKS="${*:-$P}"
export GOFLAGS=-mod=mod GOPROXY=off GOSUMDB=off GOTOOLCHAIN=local
WT=/tmp/wt/seed-$P-$$
git -C /repo worktree add -q --detach "$WT" HEAD || exit 2
trap 'git -C /repo worktree remove --force "$WT" >/dev/null 2>&1' EXIT
if ! (cd "$WT" && git apply "$D/patch.diff"); then echo "SEED $D: patch does not apply"; exit 2; fi
if ! (cd "$WT" && go build ./... >/dev/null 2>&1); then echo "SEED $D: does not build"; exit 2; fi
FAILS=$(cd "$WT" && go test -vet=off -count=1 ./... 2>&1 | grep -v "no test files" | grep -v "^ok" | head -5)
if [ -n "$FAILS" ]; then echo "SEED $D: existing tests FAIL with the patch: $FAILS"; fi
for C in $CHECKS; do
  OUT=$(cd /verif && VERIF_REPO="$WT" ./check "$C" 2>&1); RC=$?
  V=$(echo "$OUT" | grep -c "^VIOLATION")
  NF=$(echo "$OUT" | grep -c "no-failing-input-found")
  if [ $RC -ne 0 ]; then echo "SEED $D check=$C: CAUGHT (violations=$V, without-input=$NF)"; else echo "SEED $D check=$C: MISSED"; fi
  echo "$OUT" | tail -2 | sed 's/^/    /'
done
