#!/usr/bin/env python3
"""tools/seedrecheck.py [--all | --weak | <seed ids...>] [--checks Cxx,Cyy]
Re-runs the checks against kept seeded changes (/verif/seeded/<id>/patch.diff applied to a scratch
worktree of /repo HEAD) and refreshes `result.checks` of their meta.json (the previous verdict is
kept under `result.previous_checks`).  --weak = the seeds whose recorded verdict is "missed" by the
property's own check or "broken obligation only".  Never touches /repo's working tree.
"""
import sys, os, re, json, subprocess, glob, time
env = dict(os.environ, GOFLAGS='-mod=mod', GOPROXY='off', GOSUMDB='off', GOTOOLCHAIN='local')
def sh(cmd, cwd=None, timeout=3600, extra=None):
    e = dict(env); e.update(extra or {})
    p = subprocess.run(cmd, cwd=cwd, env=e, shell=isinstance(cmd, str), stdout=subprocess.PIPE, stderr=subprocess.STDOUT, text=True, timeout=timeout)
    return p.returncode, p.stdout
args = sys.argv[1:]
only_checks = None
if '--checks' in args:
    i = args.index('--checks'); only_checks = args[i + 1].split(','); del args[i:i + 2]
def weak(m):
    prop = m['property']; cs = m.get('result', {}).get('checks', {})
    own = cs.get(prop)
    if own is None: return True
    if not own.get('caught'): return True
    return own.get('violations', 0) <= own.get('without_failing_input', 0)
ids = []
for d in sorted(glob.glob('/verif/seeded/*/')):
    sid = os.path.basename(d.rstrip('/'))
    if not os.path.exists(d + 'meta.json'): continue
    m = json.load(open(d + 'meta.json'))
    if '--all' in args or ('--weak' in args and weak(m)) or sid in args: ids.append(sid)
head = sh('git -C /repo rev-parse --short HEAD')[1].strip()
for sid in ids:
    d = '/verif/seeded/%s/' % sid
    m = json.load(open(d + 'meta.json')); prop = m['property']
    checks = only_checks or list(m.get('result', {}).get('checks', {}).keys()) or [prop]
    if prop not in checks: checks.insert(0, prop)
    wt = '/tmp/wt/re-%s-%d' % (sid, os.getpid())
    sh(['git', '-C', '/repo', 'worktree', 'add', '-q', '--detach', wt, 'HEAD'])
    try:
        rc, out = sh(['git', 'apply', d + 'patch.diff'], cwd=wt)
        if rc != 0:
            rc, out = sh(['git', 'apply', '--3way', d + 'patch.diff'], cwd=wt)
        if rc != 0:
            print('%s: patch no longer applies to %s: %s' % (sid, head, out.strip()[-200:])); m.setdefault('result', {})['applies_to_' + head] = False
            json.dump(m, open(d + 'meta.json', 'w'), indent=1); continue
        rc, out = sh('go build ./...', cwd=wt)
        if rc != 0:
            print('%s: does not build on %s' % (sid, head)); continue
        new = {}
        for c in checks:
            rc, out = sh(['./check', c], cwd='/verif', extra={'VERIF_REPO': wt})
            lines = out.strip().split('\n')
            if rc == 2 or not lines[-1].startswith('check '):   # tooling failure, not a verdict
                print('%s check=%s: TOOLING ERROR %s' % (sid, c, out[-300:]), flush=True); continue
            v = {'caught': rc != 0, 'violations': sum(1 for l in lines if l.startswith('VIOLATION')),
                 'without_failing_input': sum(1 for l in lines if 'no-failing-input-found' in l), 'summary': lines[-1][:300],
                 'first_violation': next((l for l in lines if l.startswith('VIOLATION')), None)}
            fv = next((l for l in lines if l.startswith('VIOLATION') and 'no-failing-input-found' not in l), v['first_violation'])
            if fv:
                mm = re.search(r'replay=(\S+)', fv)
                if mm and os.path.exists(mm.group(1)):
                    try:
                        rp = json.load(open(mm.group(1))); v['signature'] = rp.get('signature'); v['what'] = (rp.get('what') or '')[:300]
                    except Exception: pass
            new[c] = v
            print('%s check=%s: %s %s' % (sid, c, 'CAUGHT' if v['caught'] else 'MISSED', v.get('signature') or ('(obligation only)' if v['caught'] else '')), flush=True)
        r = m.setdefault('result', {})
        r['previous_checks'] = r.get('checks'); r['checks'] = new; r['rechecked_at'] = time.strftime('%Y-%m-%d %H:%M:%S'); r['rechecked_repo_head'] = head
        json.dump(m, open(d + 'meta.json', 'w'), indent=1)
    finally:
        sh(['git', '-C', '/repo', 'worktree', 'remove', '--force', wt])
