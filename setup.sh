#!/bin/sh
# Build the framework from files on disk only (offline). Run once after a fresh restore.
set -e
cd "$(dirname "$0")"
export GOFLAGS=-mod=mod GOPROXY=off GOSUMDB=off GOTOOLCHAIN=local
mkdir -p build/facts build/audit build/run evidence replays
(cd tools/factgen && go build -o factgen .)
./tools/factgen/factgen -repo "${VERIF_REPO:-/repo}" -prop all -lean lean/EinoV/Gen -json build/facts
./tools/genlake.py
(cd lean && lake build)
cp "${VERIF_REPO:-/repo}/go.sum" harness/go.sum
(cd harness && go build -tags verif -o ../build/vh ./cmd/vh)
echo "setup ok"
