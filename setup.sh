#!/bin/sh
# Build the framework from files on disk only (offline). Run once after a fresh restore.
# Only the properties listed in meta/ENABLED (the ones claimed in MANIFEST.json) are built;
# every property has its own factgen / oracle / harness binary (build tags fg_cxx, vh_cxx).
set -e
cd "$(dirname "$0")"
export GOFLAGS=-mod=mod GOPROXY=off GOSUMDB=off GOTOOLCHAIN=local
mkdir -p build/gocache
export GOCACHE="$(pwd)/build/gocache"
REPO="${VERIF_REPO:-/repo}"
mkdir -p build/facts build/audit build/run evidence replays lean/EinoV/Gen
./tools/genlake.py
cp "$REPO/go.sum" harness/go.sum
TARGETS=""
for P in $(cat meta/ENABLED); do
  p=$(echo "$P" | tr 'A-Z' 'a-z')
  (cd tools/factgen && go build -tags "fg_$p" -o "../../build/factgen-$P" .)
  "./build/factgen-$P" -repo "$REPO" -prop "$P" -lean lean/EinoV/Gen -json build/facts
  TARGETS="$TARGETS EinoV.Props.$P oracle_$P"
done
(cd lean && lake build $TARGETS)
for P in $(cat meta/ENABLED); do
  p=$(echo "$P" | tr 'A-Z' 'a-z')
  RACE=""
  if grep -q '"race": *true' "meta/$P.json" 2>/dev/null; then RACE="-race"; fi
  (cd harness && go build $RACE -tags "verif,vh_$p" -o "../build/vh-$P$RACE" ./cmd/vh)
done
echo "setup ok"
