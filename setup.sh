#!/bin/sh
# Build the framework from files on disk only (offline). Run once after a fresh restore.
set -e
cd "$(dirname "$0")"
export GOFLAGS=-mod=mod GOPROXY=off GOSUMDB=off GOTOOLCHAIN=local
mkdir -p build/facts build/audit build/run evidence replays
(cd tools/factgen && go build -tags fg_all -o ../../build/factgen-all .)
./build/factgen-all -repo "${VERIF_REPO:-/repo}" -prop all -lean lean/EinoV/Gen -json build/facts
./tools/genlake.py
(cd lean && lake build)
cp "${VERIF_REPO:-/repo}/go.sum" harness/go.sum
(cd harness && go build -tags verif,vh_all -o ../build/vh-all ./cmd/vh)
echo "setup ok"
