/-
  Oracle executable: one JSON object per line on stdin
    {"p":"C13","case":{...}}
  one JSON object per line on stdout (the model's canonical observables), or
    {"oracle_error":"..."}
  Runs the very definitions the theorems in EinoV/Props are about, instantiated with the
  constants in EinoV/Expected (the values the theorems are proved for).
-/
import EinoV.Oracle.All

open Lean EinoV

partial def loop (hin hout : IO.FS.Stream) : IO Unit := do
  let line ← hin.getLine
  if line.isEmpty then return ()
  let t := line.trimAscii.toString
  if t.isEmpty then loop hin hout else
  let out : Json :=
    match Json.parse t with
    | .error e => Json.mkObj [("oracle_error", Json.str s!"parse: {e}")]
    | .ok j =>
      match EinoV.Oracle.dispatch j with
      | .ok r => r
      | .error e => Json.mkObj [("oracle_error", Json.str e)]
  hout.putStrLn out.compress
  hout.flush
  loop hin hout

def main : IO Unit := do
  loop (← IO.getStdin) (← IO.getStdout)
