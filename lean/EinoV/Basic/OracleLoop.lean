/-
  Oracle executable loop: one JSON object per line on stdin  {"p":"Cxx","case":{...}},
  one JSON object per line on stdout (the model's canonical observables) or
  {"oracle_error":"..."}.  Each property has its own executable (Oracles/Cxx.lean) running
  the very definitions its theorems are about.
-/
import EinoV.Basic.JsonUtil

namespace EinoV
open Lean

partial def oracleLoop (handle : Json → JE Json) (hin hout : IO.FS.Stream) : IO Unit := do
  let line ← hin.getLine
  if line.isEmpty then return ()
  let t := line.trimAscii.toString
  if t.isEmpty then oracleLoop handle hin hout else
  let out : Json :=
    match Json.parse t with
    | .error e => Json.mkObj [("oracle_error", Json.str s!"parse: {e}")]
    | .ok j =>
      match (J.field j "case") >>= handle with
      | .ok r => r
      | .error e => Json.mkObj [("oracle_error", Json.str e)]
  hout.putStrLn out.compress
  hout.flush
  oracleLoop handle hin hout

def oracleMain (handle : Json → JE Json) : IO Unit := do
  oracleLoop handle (← IO.getStdin) (← IO.getStdout)

end EinoV
