/-
  JSON helpers for the oracle line protocol (core only: `Lean.Data.Json`).
-/
import Lean.Data.Json

namespace EinoV
open Lean

abbrev JE := Except String

namespace J

def field (j : Json) (k : String) : JE Json :=
  match j.getObjVal? k with
  | .ok v => .ok v
  | .error _ => .error s!"missing field {k}"

def fieldD (j : Json) (k : String) (d : Json) : Json :=
  match j.getObjVal? k with
  | .ok v => v
  | .error _ => d

def str (j : Json) (k : String) : JE String := do
  match (← field j k) with
  | .str s => pure s
  | _ => throw s!"field {k}: not a string"

def strD (j : Json) (k : String) (d : String) : String :=
  match j.getObjVal? k with
  | .ok (.str s) => s
  | _ => d

def nat (j : Json) (k : String) : JE Nat := do
  match (← field j k).getNat? with
  | .ok n => pure n
  | .error _ => throw s!"field {k}: not a nat"

def natD (j : Json) (k : String) (d : Nat) : Nat :=
  match j.getObjVal? k with
  | .ok v => match v.getNat? with | .ok n => n | .error _ => d
  | .error _ => d

def int (j : Json) (k : String) : JE Int := do
  match (← field j k).getInt? with
  | .ok n => pure n
  | .error _ => throw s!"field {k}: not an int"

def bool (j : Json) (k : String) : JE Bool := do
  match (← field j k) with
  | .bool b => pure b
  | _ => throw s!"field {k}: not a bool"

def boolD (j : Json) (k : String) (d : Bool) : Bool :=
  match j.getObjVal? k with
  | .ok (.bool b) => b
  | _ => d

def arr (j : Json) (k : String) : JE (List Json) := do
  match (← field j k) with
  | .arr a => pure a.toList
  | _ => throw s!"field {k}: not an array"

def arrD (j : Json) (k : String) : List Json :=
  match j.getObjVal? k with
  | .ok (.arr a) => a.toList
  | _ => []

def asStr : Json → JE String
  | .str s => pure s
  | _ => throw "not a string"

def asNat (j : Json) : JE Nat :=
  match j.getNat? with
  | .ok n => pure n
  | .error _ => throw "not a nat"

def asInt (j : Json) : JE Int :=
  match j.getInt? with
  | .ok n => pure n
  | .error _ => throw "not an int"

def asArr : Json → JE (List Json)
  | .arr a => pure a.toList
  | _ => throw "not an array"

def strList (j : Json) (k : String) : JE (List String) := do
  (← arr j k).mapM asStr

def natList (j : Json) (k : String) : JE (List Nat) := do
  (← arr j k).mapM asNat

def mkArr (l : List Json) : Json := .arr l.toArray
def mkStrs (l : List String) : Json := .arr (l.map Json.str).toArray
def mkNats (l : List Nat) : Json := .arr (l.map fun (n : Nat) => (n : Json)).toArray

end J
end EinoV
