import EinoV.Model.C14
import EinoV.Proofs.C14
import EinoV.Gen.FactsC14
import EinoV.Expected.C14

namespace EinoV.C14
open EinoV.Gen

theorem facts_match :
    FactsC14.concatFuncs = Expected.C14.concatFuncs ∧
    FactsC14.registered = Expected.C14.registered ∧
    FactsC14.nilGuard = Expected.C14.nilGuard ∧
    FactsC14.roleCheck = true ∧ FactsC14.nameCheck = true ∧ FactsC14.tcidCheck = true ∧
    FactsC14.tcIdCheck = true ∧ FactsC14.tcTypeCheck = true ∧ FactsC14.tcNameCheck = true := by
  decide

end EinoV.C14
