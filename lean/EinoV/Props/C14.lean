/-
  C14 — Chunk concatenation is total, deterministic and independent of chunk boundaries.
  Property theorems.  Model: EinoV/Model/C14.lean.  Lemmas: EinoV/Proofs/C14.lean.
  Source facts: EinoV/Gen/FactsC14.lean (regenerated from /repo on every run).

  `srcCfg` is the model configuration built from the regenerated facts: the `concatFuncs`
  table of internal/concat.go, whether `concatMaps` guards nil interface values, whether that
  guard tests `Kind() == Interface` before `IsNil()`, whether the recursion into nested maps
  is decided by the kind of the values' type, whether `ConcatItems` handles a nil interface
  result, the presence of the conflict checks in `ConcatMessages` / `concatToolCalls`, and
  whether the final sort of `concatToolCalls` is a stable one.
  Every theorem is about the model instantiated with `srcCfg`; `EqvE a b` = "equal results,
  or both errors".  Maps carry their element type (`map[string]any`, `map[string]string`,
  `map[string]map[string]string`, … at every nesting level, as chunk type, under a key of a
  `map[string]any` chunk and in `Message.Extra`).  The fuel `n` bounds the nesting depth of
  map values (`Err.fuel` is the model's artefact for deeper nesting; `*_total` shows it is
  unreachable for `n` above the nesting depth, and the laws hold for every `n`).
-/
import EinoV.Model.C14
import EinoV.Proofs.C14
import EinoV.Proofs.C14Sort
import EinoV.Gen.FactsC14
import EinoV.Expected.C14
import EinoV.Proofs.TransC14

namespace EinoV.C14
open EinoV.Gen

/-- the model configuration read off the source tree -/
def srcCfg : Cfg :=
  Expected.C14.mkCfg FactsC14.concatFuncs FactsC14.nilGuard FactsC14.guardKindFirst FactsC14.recurseByKind
    FactsC14.nilResultGuard FactsC14.roleCheck FactsC14.nameCheck
    FactsC14.tcidCheck FactsC14.tcIdCheck FactsC14.tcTypeCheck FactsC14.tcNameCheck FactsC14.tcSortStable

/-! ## source-fact tie -/

/-- The regenerated facts are the ones the oracle runs with: the `concatFuncs` table
    (string ↦ concatStrings, the numeric/bool/time types ↦ useLast, nothing else), the two
    functions registered by schema's `init`, the nil guard of `concatMaps`, its form
    (`val.Kind() == reflect.Interface && val.IsNil()`: `IsNil` only ever sees interface
    values), the recursion test (`….Type().Elem().Kind() == reflect.Map`: every map type
    recurses, not only `map[string]any`), all six conflict checks, and the stable final sort
    of `concatToolCalls` (`sort.SliceStable`).  (`nilResultGuard` is deliberately not here: see
    `concat_*_anys_partial`.) -/
theorem facts_match :
    FactsC14.concatFuncs = Expected.C14.concatFuncs ∧
    FactsC14.registered = Expected.C14.registered ∧
    FactsC14.nilGuard = Expected.C14.nilGuard ∧
    FactsC14.guardKindFirst = Expected.C14.guardKindFirst ∧
    FactsC14.recurseByKind = Expected.C14.recurseByKind ∧
    FactsC14.roleCheck = true ∧ FactsC14.nameCheck = true ∧ FactsC14.tcidCheck = true ∧
    FactsC14.tcIdCheck = true ∧ FactsC14.tcTypeCheck = true ∧ FactsC14.tcNameCheck = true ∧
    FactsC14.tcSortStable = Expected.C14.tcSortStable := by
  decide

theorem srcCfg_eq_expected : srcCfg.table = Expected.C14.cfg.table ∧ srcCfg.nilAbsent = true ∧ srcCfg.Std := by
  decide

/-! ## totality: a value or an ordinary error, never a panic -/

/-- **concat_total (ConcatMessages).** For every chunk sequence (nil chunks, absent / zero
    fields, nested extras with nil values and type clashes included) `ConcatMessages` returns
    a message or an ordinary error: the modelled panic sites (`reflect.SliceOf(nil)` in
    `toSliceValue`, `s[len(s)-1]` in `useLast`) are unreachable. -/
theorem concat_total (n : Nat) (cs : List (Option Msg))
    (hn : ∀ ms, allSome cs = some ms → extrasDepth ms < n) :
    (∃ m, concatMsgPtrs srcCfg n cs = .ok m) ∨ concatMsgPtrs srcCfg n cs = .error .fail :=
  concatMsgPtrs_total srcCfg (by decide) (by decide) n cs hn

/-- no panic, for every fuel (no side condition at all) -/
theorem concat_never_panics (n : Nat) (cs : List (Option Msg)) :
    concatMsgPtrs srcCfg n cs ≠ .error .panic := by
  unfold concatMsgPtrs
  cases h : allSome cs with
  | none => simp
  | some ms =>
    intro he
    rcases concatMsgs_err srcCfg n ms _ he with h1 | h2
    · cases h1
    · exact concatEvs_no_panic srcCfg (by decide) (by decide) n _ _ h2

/-- **concat_total (map chunks of every element type through the stream→value conversion):**
    `map[string]any`, `map[string]string`, `map[string]int`, `map[string]S`,
    `map[string]map[string]string`, `map[string][]string`, … (`et` = the element type), with
    typed maps nested at any depth. -/
theorem concat_total_maps (n : Nat) (et : String) (ms : List KVs) (hn : depthKVs ms.flatten < n) :
    (∃ m, concatMapChunks srcCfg n et ms = .ok m) ∨ concatMapChunks srcCfg n et ms = .error .fail := by
  cases ms with
  | nil => exact Or.inr rfl
  | cons a t =>
    cases t with
    | nil => exact Or.inl ⟨a, rfl⟩
    | cons b t' => exact concatMaps_total srcCfg (by decide) (by decide) n et _ hn

/-- no panic for map chunks of any element type, for every fuel -/
theorem concat_maps_never_panic (n : Nat) (et : String) (ms : List KVs) :
    concatMaps srcCfg n et ms ≠ .error .panic :=
  concatEvs_no_panic srcCfg (by decide) (by decide) n et _

/-- **concat_total (string chunks).** -/
theorem concat_total_strs (xs : List String) :
    (∃ s, concatStrChunks srcCfg xs = .ok s) ∨ concatStrChunks srcCfg xs = .error .fail :=
  concatStream_total _ (fun xs h => strCore_total srcCfg xs h) xs

/-! ## re-chunking invariance (the monoid-with-errors law) -/

/-- **concat_rechunk (messages).** Concatenating any prefix first and then the rest gives
    the same message as concatenating everything at once, or both fail. -/
theorem concat_rechunk (n : Nat) (xs ys : List (Option Msg)) :
    EqvE (concatMsgPtrs srcCfg n xs >>= fun r => concatMsgPtrs srcCfg n (some r :: ys))
         (concatMsgPtrs srcCfg n (xs ++ ys)) :=
  concatMsgPtrs_rechunk srcCfg (by decide) n xs ys

/-- **concat_rechunk (tool calls)**, as an equality. -/
theorem concat_rechunk_toolcalls (xs ys : List TC) :
    (concatTC srcCfg xs >>= fun r => concatTC srcCfg (r ++ ys)) = concatTC srcCfg (xs ++ ys) :=
  concatTC_rechunk srcCfg xs ys

/-- **concat_rechunk (maps, `concatMaps`)**, for maps of every element type `et`: nested maps
    of any map type (all of them recurse), per-key rules from the table, nil values, type
    clashes. -/
theorem concat_rechunk_maps (n : Nat) (et : String) (xs ys : List KVs) :
    EqvE (concatMaps srcCfg n et xs >>= fun r => concatMaps srcCfg n et (r :: ys)) (concatMaps srcCfg n et (xs ++ ys)) :=
  concatMaps_rechunk srcCfg (by decide) n et xs ys

/-- **chunk boundaries inside a chunk (maps of every type).** A map chunk may be delivered as
    two consecutive chunks holding its entries `m1` and `m2`. -/
theorem concat_split_chunk (n : Nat) (et : String) (xs ys : List KVs) (m1 m2 : KVs) :
    concatMaps srcCfg n et (xs ++ [m1 ++ m2] ++ ys) = concatMaps srcCfg n et (xs ++ [m1, m2] ++ ys) := by
  simp [concatMaps]

/-- **chunk boundaries inside a nested map value.** A nested map value — of *any* map type:
    `map[string]any`, `map[string]string`, `map[string][]T`, … — stored under key `k` of a chunk
    may be delivered in two consecutive chunks instead, each holding part of its entries
    (`a`, `b`): the result is the same.  (This is the law a recursion restricted to
    `map[string]any` breaks: `typed_nested_map_rechunk_breaks_without_kind_test`.) -/
theorem concat_split_nested_map (n : Nat) (et : String) (xs ys : List KVs) (pre post : KVs) (k e : String) (a b : KVs) :
    concatMaps srcCfg n et (xs ++ [pre ++ (k, .map e (a ++ b)) :: post] ++ ys) =
    concatMaps srcCfg n et (xs ++ [pre ++ [(k, .map e a)], (k, .map e b) :: post] ++ ys) := by
  have h := concatEvs_split_nested srcCfg (by decide) n et (xs.flatten ++ pre) (post ++ ys.flatten) k e a b
  simpa [concatMaps, List.flatten_append, List.append_assoc] using h

/-- **concat_rechunk through `concatStreamReader`** (empty stream = error, one chunk = that
    chunk untouched, otherwise `ConcatItems`) for string, map and message chunks. -/
theorem concat_rechunk_stream_strs (xs ys : List String) (h : xs ≠ []) :
    EqvE (concatStrChunks srcCfg xs >>= fun r => concatStrChunks srcCfg (r :: ys)) (concatStrChunks srcCfg (xs ++ ys)) :=
  concatStrChunks_rechunk srcCfg xs ys h

theorem concat_rechunk_stream_maps (n : Nat) (et : String) (xs ys : List KVs) (h : xs ≠ []) :
    EqvE (concatMapChunks srcCfg n et xs >>= fun r => concatMapChunks srcCfg n et (r :: ys)) (concatMapChunks srcCfg n et (xs ++ ys)) :=
  concatMapChunks_rechunk srcCfg (by decide) n et xs ys h

theorem concat_rechunk_stream_msgs (n : Nat) (xs ys : List (Option Msg)) (h : xs ≠ []) :
    EqvE (concatMsgChunks srcCfg n xs >>= fun r => concatMsgChunks srcCfg n (r :: ys)) (concatMsgChunks srcCfg n (xs ++ ys)) :=
  concatMsgChunks_rechunk srcCfg (by decide) n xs ys h

theorem concat_rechunk_stream_arrays (n : Nat) (xs ys : List (List (Option Msg))) (h : xs ≠ []) :
    EqvE (concatArrChunks srcCfg n xs >>= fun r => concatArrChunks srcCfg n (r :: ys)) (concatArrChunks srcCfg n (xs ++ ys)) :=
  concatArrChunks_rechunk srcCfg (by decide) n xs ys h

/-- `[]*Message` chunks (position-wise `concatMessageArray`) never panic either: `mas[0]` is
    only evaluated on at least two arrays. -/
theorem concat_arrays_never_panic (n : Nat) (xs : List (List (Option Msg))) :
    concatArrChunks srcCfg n xs ≠ .error .panic :=
  concatArrChunks_no_panic srcCfg (by decide) (by decide) n xs

/-- **the fuel is a proof device only**: any two fuels above the nesting depth of the extras
    give the same result (so `concat_total` and `concat_rechunk` speak about one function). -/
theorem fuel_irrelevant (n m : Nat) (ms : List Msg) (hn : extrasDepth ms < n) (hm : extrasDepth ms < m) :
    concatMsgs srcCfg n ms = concatMsgs srcCfg m ms :=
  concatMsgs_fuel_irrelevant srcCfg (by decide) n m ms hn hm

/-! ## chunks of type `any` (`ConcatItems` with an interface element type)

  `concatSliceValue` on `[]any`: nothing registered, zero ⇔ nil interface: all chunks nil → the
  nil interface; one non-nil chunk → it; more → error.  On a tree whose `ConcatItems` does not
  handle the nil interface result (`FactsC14.nilResultGuard = false`) the all-nil case panics
  in `cv.Interface().(T)` (genuine defect, known_findings/C14.json, fixes/C14-nil-interface-result.diff),
  so the two clauses are stated with the explicit hypothesis that excludes it — satisfied
  outright once the fact is `true` — next to the negation witness. -/

/-- full statement: `∀ xs, (∃ v, concatAnyChunks srcCfg xs = .ok v) ∨ … = .error .fail`; proved
    for: the guard is present, or some chunk is non-nil, or there are fewer than two chunks -/
theorem concat_total_anys_partial (xs : List XVal)
    (h : FactsC14.nilResultGuard = true ∨ (∃ x ∈ xs, x.isNil = false) ∨ xs.length < 2) :
    (∃ v, concatAnyChunks srcCfg xs = .ok v) ∨ concatAnyChunks srcCfg xs = .error .fail :=
  concatAnyChunks_total srcCfg xs h

/-- full statement: the law for every non-empty `xs`; proved for: the guard is present, or
    the prefix holds a non-nil chunk -/
theorem concat_rechunk_stream_anys_partial (xs ys : List XVal) (hxs : xs ≠ [])
    (h : FactsC14.nilResultGuard = true ∨ ∃ x ∈ xs, x.isNil = false) :
    EqvE (concatAnyChunks srcCfg xs >>= fun r => concatAnyChunks srcCfg (r :: ys)) (concatAnyChunks srcCfg (xs ++ ys)) :=
  concatAnyChunks_rechunk srcCfg xs ys hxs h

/-- the excluded case is real: without the guard two nil chunks panic, and the panic depends
    on the split (`[nil, nil] ++ ["a"]` at once is `"a"`) -/
theorem any_all_nil_panics_without_guard :
    isPanic (concatAnyChunks { Expected.C14.cfg with nilResultGuard := false } [.nil, .nil]) = true ∧
    (match concatAnyChunks { Expected.C14.cfg with nilResultGuard := false } [.nil, .nil, .sc "string" "a"] with
      | .ok (.sc "string" "a") => true
      | _ => false) = true := by decide

/-- … and with it they concatenate to nil -/
theorem any_all_nil_ok_with_guard :
    (match concatAnyChunks Expected.C14.cfg [.nil, .nil] with
      | .ok .nil => true
      | _ => false) = true := by decide

/-! ## arrival order and grouping by index -/

/-- **args_in_order (text).** The content of the result is the contents of the chunks in
    arrival order. -/
theorem args_in_order_content (n : Nat) (ms : List Msg) (m : Msg) (h : concatMsgs srcCfg n ms = .ok m) :
    m.content = joinS (ms.map (·.content)) :=
  (concatMsgs_ok_fields srcCfg n ms m h).2.2.2.1

/-- **toolcalls_by_index + args_in_order (tool calls).** In a successful result the tool
    calls are: the nil-index fragments, untouched, in arrival order; then exactly one call
    per index that occurs, in strictly ascending index order, whose arguments are the
    arguments of the fragments with that index in arrival order. -/
theorem toolcalls_by_index (n : Nat) (ms : List Msg) (m : Msg) (h : concatMsgs srcCfg n ms = .ok m) :
    let cs := ms.flatMap (·.toolCalls)
    ∃ gs : List (Int × TC),
      m.toolCalls = cs.filter (fun c => c.index = none) ++ gs.map (·.2) ∧
      gs.Pairwise (fun p q => p.1 < q.1) ∧
      (∀ p ∈ gs, p.2.index = some p.1) ∧
      (∀ i, (∃ c ∈ cs, c.index = some i) ↔ (∃ p ∈ gs, p.1 = i)) ∧
      (∀ p ∈ gs, p.2.args = joinS ((cs.filter (fun c => c.index = some p.1)).map (·.args))) :=
  concatTC_spec srcCfg _ _ (concatMsgs_ok_fields srcCfg n ms m h).2.2.2.2.2.1

/-! ## the final sort of `concatToolCalls`: messages with many tool calls

  `toolcalls_by_index` is about the specification-level `concatTC`, which keeps the groups
  ascending while it builds them.  The Go function appends the calls without an index in
  arrival order, then one merged call per index in the iteration order of a Go map (random),
  and sorts at the end with a comparator under which all calls without an index are equal.
  `concatTCGo` is that shape (`ord` = the map's iteration order).  Nothing below bounds the
  number of calls: the harness family `heavy` (2 … 130 calls per message) runs against it. -/

/-- **deterministic function of the chunk sequence (tool calls), and the tie between the
    code-level and the specification-level function.**  Whatever order the Go map of index
    groups is iterated in (`ord`: any permutation), `concatToolCalls` as written — gather,
    merge per index, stable sort — returns what `concatTC` returns, for every number of
    calls.  Rests on the fact `tcSortStable` (discharged from `srcCfg` by `decide`). -/
theorem toolcalls_any_map_order (ord : List (Int × TC) → List (Int × TC)) (hord : ∀ l, (ord l).Perm l)
    (cs : List TC) :
    concatTCGo srcCfg ord cs = concatTC srcCfg cs :=
  concatTCGo_eq srcCfg (by decide) ord hord cs

/-- two iteration orders of the map give the same result -/
theorem toolcalls_map_order_irrelevant (ord ord' : List (Int × TC) → List (Int × TC))
    (hord : ∀ l, (ord l).Perm l) (hord' : ∀ l, (ord' l).Perm l) (cs : List TC) :
    concatTCGo srcCfg ord cs = concatTCGo srcCfg ord' cs := by
  rw [toolcalls_any_map_order ord hord, toolcalls_any_map_order ord' hord']

/-- **arrival order of the calls without an index, any number of calls.**  The sort the
    source uses (`finalSort srcCfg`, i.e. `sort.SliceStable`) returns, on every list `merged`,
    a permutation of it that is sorted by the comparator and in which the calls without an
    index stand in the order they had in `merged` (= arrival order). -/
theorem toolcalls_final_sort_stable (merged : List TC) :
    (finalSort srcCfg merged).Perm merged ∧
    (finalSort srcCfg merged).Pairwise (fun a b => tcLess b a = false) ∧
    (finalSort srcCfg merged).filter (fun c => c.index.isNone) = merged.filter (fun c => c.index.isNone) := by
  have h : finalSort srcCfg merged = sortStable merged := by
    have hs : srcCfg.tcSortStable = true := by decide
    simp [finalSort, hs]
  rw [h]
  exact ⟨sortStable_perm merged, sortStable_sorted merged, sortStable_filter_none merged⟩

/-- the re-chunking law for the code-level function (an equality), every map order on
    either side -/
theorem concat_rechunk_toolcalls_go (ord : List (Int × TC) → List (Int × TC)) (hord : ∀ l, (ord l).Perm l)
    (xs ys : List TC) :
    (concatTCGo srcCfg ord xs >>= fun r => concatTCGo srcCfg ord (r ++ ys)) = concatTCGo srcCfg ord (xs ++ ys) := by
  have h : (fun r => concatTCGo srcCfg ord (r ++ ys)) = (fun r => concatTC srcCfg (r ++ ys)) := by
    funext r; exact toolcalls_any_map_order ord hord _
  rw [h, toolcalls_any_map_order ord hord, toolcalls_any_map_order ord hord]
  exact concatTC_rechunk srcCfg xs ys

/-! ## non-vacuity -/

private def tc (i : Option Int) (id name args : String) : TC :=
  { index := i, id := id, type := "", name := name, args := args, extra := 0 }
private def msg (content : String) (tcs : List TC) (extra : KVs) : Msg :=
  { role := "assistant", name := "", toolCallID := "", content := content, multi := [], toolCalls := tcs,
    rmeta := none, extra := extra }

/-- a successful, non-trivial concatenation (fragments of two indexed calls arriving
    interleaved and out of order, a nil-index call, nested extras with a nil value) -/
example :
    (match concatMsgPtrs Expected.C14.cfg 3
        [some (msg "He" [tc (some 1) "b" "g" "{\"y\"", tc none "n" "h" "z"] [("k", .sc "string" "a"), ("m", .map "any" [("x", .nil)])]),
         some (msg "llo" [tc (some 0) "a" "f" "{\"x\":", tc (some 1) "" "" ":2}"] [("k", .sc "string" "b"), ("m", .map "any" [("x", .sc "int" "7")])]),
         some (msg "" [tc (some 0) "" "" "1}"] [])] with
      | .ok m => m.content == "Hello" &&
                 m.toolCalls.map (fun t => (t.index, t.id, t.name, t.args)) ==
                   [(none, "n", "h", "z"), (some 0, "a", "f", "{\"x\":1}"), (some 1, "b", "g", "{\"y\":2}")] &&
                 (match m.extra with
                  | [("k", .sc "string" "ab"), ("m", .map "any" [("x", .sc "int" "7")])] => true
                  | _ => false)
      | .error _ => false) = true := by decide

/-- an ordinary error: conflicting tool-call ids for one index -/
example : isFail (concatMsgPtrs Expected.C14.cfg 2
    [some (msg "" [tc (some 0) "a" "" ""] []), some (msg "" [tc (some 0) "b" "" ""] [])]) = true := by decide

/-- an ordinary error: a nil chunk -/
example : isFail (concatMsgPtrs Expected.C14.cfg 2 [some (msg "x" [] []), none]) = true := by decide

/-! ## the negation for the other value of the stable-sort fact -/

private def ids (r : Except Err (List TC)) : List String :=
  match r with
  | .ok l => l.map (·.id)
  | .error _ => ["error"]

/-- three complete calls without an index among the first fragments of ten indexed calls
    opened as 1,0,3,2,…: thirteen calls in the result -/
private def thirteen : List TC :=
  [tc none "a" "" "", tc (some 1) "g1" "" "", tc (some 0) "g0" "" "", tc none "b" "" "", tc (some 3) "g3" "" "",
   tc (some 2) "g2" "" "", tc none "c" "" "", tc (some 5) "g5" "" "", tc (some 4) "g4" "" "", tc (some 7) "g7" "" "",
   tc (some 6) "g6" "" "", tc (some 9) "g9" "" "", tc (some 8) "g8" "" ""]

/-- If the final sort were `sort.Slice` (insertion sort up to 12 elements, no stability
    above; the model's representative of an unstable sort is `sortBySwaps`): with twelve calls
    everything is as specified, with thirteen the calls without an index leave their arrival
    order (`b c a`), and re-chunking invariance is false as well (fourteen calls: the first
    thirteen first and then the rest gives `c a b …`, all at once `b c a …`) — while the stable
    sort gives `a b c …` in all three situations and for the reversed map order. -/
theorem unstable_final_sort_loses_arrival_order :
    let u : Cfg := { Expected.C14.cfg with tcSortStable := false }
    let more := thirteen ++ [tc (some 10) "g10" "" ""]
    ids (concatTCGo u List.reverse (thirteen.take 12)) = ["a", "b", "c", "g0", "g1", "g2", "g3", "g4", "g5", "g6", "g7", "g9"] ∧
    ids (concatTCGo u List.reverse thirteen) = ["b", "c", "a", "g0", "g1", "g2", "g3", "g4", "g5", "g6", "g7", "g8", "g9"] ∧
    ids (concatTCGo u List.reverse thirteen >>= fun r => concatTCGo u List.reverse (r ++ [tc (some 10) "g10" "" ""])) =
      ["c", "a", "b", "g0", "g1", "g2", "g3", "g4", "g5", "g6", "g7", "g8", "g9", "g10"] ∧
    ids (concatTCGo u List.reverse more) = ["b", "c", "a", "g0", "g1", "g2", "g3", "g4", "g5", "g6", "g7", "g8", "g9", "g10"] ∧
    ids (concatTCGo Expected.C14.cfg List.reverse thirteen) = ["a", "b", "c", "g0", "g1", "g2", "g3", "g4", "g5", "g6", "g7", "g8", "g9"] ∧
    ids (concatTCGo Expected.C14.cfg id more) = ["a", "b", "c", "g0", "g1", "g2", "g3", "g4", "g5", "g6", "g7", "g8", "g9", "g10"] := by
  decide

/-- what `sort.Slice` promises — a permutation that is sorted by the comparator — does not
    determine the result as soon as two calls have no index: both lists below are sorted
    permutations of the same `merged`. -/
theorem sorted_permutation_is_not_unique :
    let merged := [tc none "a" "" "", tc none "b" "" "", tc (some 0) "g" "" ""]
    let other := [tc none "b" "" "", tc none "a" "" "", tc (some 0) "g" "" ""]
    other.Perm merged ∧ other.Pairwise (fun x y => tcLess y x = false) ∧
    merged.Pairwise (fun x y => tcLess y x = false) ∧ other ≠ merged ∧ sortStable merged = merged := by
  decide

/-! ## the negation for the other value of the nil-guard fact (the defect of the unfixed tree) -/

/-- Without the nil guard in `concatMaps` totality is false: one chunk whose `Extra` maps a
    key to nil makes `ConcatMessages` panic (`reflect.SliceOf(reflect.TypeOf(nil))`). -/
theorem nil_extra_panics_without_guard :
    isPanic (concatMsgPtrs { Expected.C14.cfg with nilAbsent := false } 2
      [some (msg "" [] [("k", .nil)])]) = true := by decide

/-- … and with the guard the same input concatenates (the key keeps its nil value). -/
theorem nil_extra_ok_with_guard :
    (match concatMsgPtrs Expected.C14.cfg 2 [some (msg "" [] [("k", .nil)]), some (msg "" [] [("k", .sc "int" "1")])] with
      | .ok m => (match m.extra with | [("k", .sc "int" "1")] => true | _ => false)
      | .error _ => false) = true := by decide

/-! ## typed maps: non-vacuity and the negations for the other values of the two facts -/

/-- typed maps concatenate: `map[string]string` chunks join their values, a
    `map[string]string` nested in `Extra` under one key in three chunks recurses, a
    `map[string]map[string]string` recurses twice, `map[string]S` keeps the single non-zero
    struct, `map[string]int` keeps the last value -/
example :
    (match concatMapChunks Expected.C14.cfg 3 "string" [[("k", .sc "string" "a")], [("k", .sc "string" "b"), ("j", .sc "string" "")], []] with
      | .ok [("k", .sc "string" "ab"), ("j", .sc "string" "")] => true
      | _ => false) = true ∧
    (match concatMsgPtrs Expected.C14.cfg 3
        [some (msg "" [] [("l", .map "string" [("x", .sc "string" "a")]), ("n", .nil)]),
         some (msg "" [] [("l", .map "string" [("x", .sc "string" "b")])]),
         some (msg "" [] [("l", .map "string" [("y", .sc "string" "c")])])] with
      | .ok m => (match m.extra with
                  | [("l", .map "string" [("x", .sc "string" "ab"), ("y", .sc "string" "c")]), ("n", .nil)] => true
                  | _ => false)
      | .error _ => false) = true ∧
    (match concatMapChunks Expected.C14.cfg 4 "map[string]string"
        [[("k", .map "string" [("x", .sc "string" "a")])], [("k", .map "string" [])], [("k", .map "string" [("x", .sc "string" "b")])]] with
      | .ok [("k", .map "string" [("x", .sc "string" "ab")])] => true
      | _ => false) = true ∧
    (match concatMapChunks Expected.C14.cfg 3 "c14S" [[("k", .sc "c14S" "")], [("k", .sc "c14S" "p")]] with
      | .ok [("k", .sc "c14S" "p")] => true
      | _ => false) = true ∧
    isFail (concatMapChunks Expected.C14.cfg 3 "c14S" [[("k", .sc "c14S" "q")], [("k", .sc "c14S" "p")]]) = true ∧
    (match concatMapChunks Expected.C14.cfg 3 "int" [[("k", .sc "int" "1")], [("k", .sc "int" "2")]] with
      | .ok [("k", .sc "int" "2")] => true
      | _ => false) = true := by decide

/-- a `map[string]string` and a `map[string]any` under one key: ordinary error (type clash) -/
example : isFail (concatMapChunks Expected.C14.cfg 3 "any"
    [[("k", .map "string" [("x", .sc "string" "a")])], [("k", .map "any" [("x", .sc "string" "a")])]]) = true := by decide

/-- If the nil guard of `concatMaps` called `val.IsNil()` without testing
    `val.Kind() == reflect.Interface` first, totality would be false: two `map[string]string`
    chunks panic (`reflect: call of reflect.Value.IsNil on string Value`), as does a
    `map[string]string` nested in `Extra` under a key present in two chunks. -/
theorem typed_map_panics_with_unconditional_isnil :
    isPanic (concatMapChunks { Expected.C14.cfg with guardKindFirst := false } 3 "string"
      [[("k", .sc "string" "a")], [("k", .sc "string" "b")]]) = true ∧
    isPanic (concatMapChunks { Expected.C14.cfg with guardKindFirst := false } 3 "c14S"
      [[("k", .sc "c14S" "")], [("k", .sc "c14S" "p")]]) = true ∧
    isPanic (concatMsgPtrs { Expected.C14.cfg with guardKindFirst := false } 3
      [some (msg "" [] [("l", .map "string" [("x", .sc "string" "a")])]),
       some (msg "" [] [("l", .map "string" [("x", .sc "string" "b")])])]) = true := by decide

/-- If `concatMaps` recursed only into `map[string]any` values (instead of testing the kind
    of the values' type), re-chunking invariance would be false: a `map[string]string` under
    one key in two chunks is an error, while the same data in one chunk (plus an empty one)
    concatenates. -/
theorem typed_nested_map_rechunk_breaks_without_kind_test :
    isFail (concatMapChunks { Expected.C14.cfg with recurseByKind := false } 3 "any"
      [[("k", .map "string" [("x", .sc "string" "a")])], [("k", .map "string" [("y", .sc "string" "b")])]]) = true ∧
    (match concatMapChunks { Expected.C14.cfg with recurseByKind := false } 3 "any"
      [[("k", .map "string" [("x", .sc "string" "a"), ("y", .sc "string" "b")])], []] with
      | .ok [("k", .map "string" [("x", .sc "string" "a"), ("y", .sc "string" "b")])] => true
      | _ => false) = true ∧
    (match concatMapChunks Expected.C14.cfg 3 "any"
      [[("k", .map "string" [("x", .sc "string" "a")])], [("k", .map "string" [("y", .sc "string" "b")])]] with
      | .ok [("k", .map "string" [("x", .sc "string" "a"), ("y", .sc "string" "b")])] => true
      | _ => false) = true := by decide

/-! ### The translated `concatToolCalls` (schema/message.go → Gen/TransC14.lean; gotrans phase 7)

  `concatToolCalls` (with the comparator closure of its final sort) is re-translated from /repo on every run of
  this property.  `*int` is `Option Int`, the map `m` (index ↦ positions) is a `GoMapK` keyed by `Int`,
  `strings.Builder` is a String accumulator and `sort.SliceStable` is the prelude's stable sort on the comparator
  translated from the closure (Model/GoSemTC.lean — trusted statements of library behaviour).  The map is
  built by the function itself, so the order in which `for k, v := range m` visits it is the external
  `tcext.rangeOrder` — an arbitrary function; the theorems assume only that it returns a permutation of its
  argument, and hold for every such function.  They say: the translated function returns exactly the model's
  code-level `concatTCGo srcCfg ord cs` for a reordering `ord` of the groups that is a permutation, hence
  (`toolcalls_any_map_order`) the specification `concatTC srcCfg cs`; when the model fails it returns one of the
  three "cannot concat ToolCalls" errors; it never panics (no index out of range, no nil dereference in the
  comparator). -/
section TranslatedToolCalls
open EinoV.GoSem EinoV.TransC14 EinoV.Gen.TransC14
variable {V : Type} [Inhabited V]

theorem translated_source_is_current : FactsC14.concatToolCallsTranslated = true := by decide

/-- the three conflict checks and the stable sort are source facts of this run -/
theorem translated_checks_present : Checks srcCfg ∧ srcCfg.tcSortStable = true :=
  ⟨⟨by decide, by decide, by decide⟩, by decide⟩

/-- the comparator closure of the final sort is the model's `tcLess` (never a nil dereference) -/
theorem translated_less_refines (ext : Ext V) (tcext : TCExt) (ex : Nat → GoMap V) (a b : TC) :
    concatToolCalls__less ext tcext (TransC14.enc ex a) (TransC14.enc ex b) = .ret (tcLess a b) :=
  less_spec ext tcext ex a b

theorem translated_concatToolCalls_refines (ext : Ext V) (tcext : TCExt) (ex : Nat → GoMap V)
    (hperm : ∀ m, (tcext.rangeOrder m).Perm m) (cs : List TC) :
    ∃ ord : List (Int × TC) → List (Int × TC), (∀ l, (ord l).Perm l) ∧
      match concatTCGo srcCfg ord cs with
      | .ok out => concatToolCalls ext tcext (cs.map (TransC14.enc ex)) = .ret (out.map (TransC14.enc ex), none)
      | .error _ => ∃ E, IsConflict E ∧ concatToolCalls ext tcext (cs.map (TransC14.enc ex)) = E :=
  concatToolCalls_refines ext tcext ex srcCfg translated_checks_present.1 translated_checks_present.2 hperm cs

/-- … hence the specification: whatever order Go visits the map in, the code returns `concatTC` -/
theorem translated_concatToolCalls_is_spec (ext : Ext V) (tcext : TCExt) (ex : Nat → GoMap V)
    (hperm : ∀ m, (tcext.rangeOrder m).Perm m) (cs : List TC) :
    match concatTC srcCfg cs with
    | .ok out => concatToolCalls ext tcext (cs.map (TransC14.enc ex)) = .ret (out.map (TransC14.enc ex), none)
    | .error _ => ∃ E, IsConflict E ∧ concatToolCalls ext tcext (cs.map (TransC14.enc ex)) = E :=
  concatToolCalls_is_spec ext tcext ex srcCfg translated_checks_present.1 translated_checks_present.2 hperm cs

theorem translated_concatToolCalls_total (ext : Ext V) (tcext : TCExt) (ex : Nat → GoMap V)
    (hperm : ∀ m, (tcext.rangeOrder m).Perm m) (cs : List TC) :
    ∃ res, concatToolCalls ext tcext (cs.map (TransC14.enc ex)) = .ret res :=
  concatToolCalls_total ext tcext ex srcCfg translated_checks_present.1 translated_checks_present.2 hperm cs

/-! non-vacuity: fragments of two indexed calls interleaved with a call without an index, the map visited in
    reverse order — the result is sorted, the arguments are joined per index -/
def exExtT : Ext Nat := { zeroValue := 0, emptyStream := 0, mergeValues := fun _ => (0, none) }
def exRev : TCExt := { rangeOrder := fun m => m.reverse }
def exTC (i : Option Int) (id args : String) : ToolCall Nat :=
  { Index := i, ID := id, Type_ := "", Function := { Name := "", Arguments := args }, Extra := [] }

example : ∀ m, (exRev.rangeOrder m).Perm m := fun m => List.reverse_perm m

example : (match concatToolCalls exExtT exRev
      [exTC (some 1) "b" "x", exTC none "n" "q", exTC (some 0) "a" "1", exTC (some 1) "" "y", exTC (some 0) "" "2"] with
    | .ret r => r.1.map (fun t => (t.Index, t.ID, t.Function.Arguments))
    | _ => []) = [(none, "n", "q"), (some 0, "a", "12"), (some 1, "b", "xy")] := by decide

/-- two fragments of one index with different ids: the conflict error -/
example : (match concatToolCalls exExtT exRev [exTC (some 0) "a" "1", exTC (some 0) "b" "2"] with
    | .ret r => r.2
    | _ => none) = some (GoErr.mk "cannot concat ToolCalls with different tool id: '%s' '%s'") := by decide

end TranslatedToolCalls

end EinoV.C14
