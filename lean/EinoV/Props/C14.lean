/-
  C14 — Chunk concatenation is total, deterministic and independent of chunk boundaries.
  Property theorems.  Model: EinoV/Model/C14.lean.  Lemmas: EinoV/Proofs/C14.lean.
  Source facts: EinoV/Gen/FactsC14.lean (regenerated from /repo on every run).

  `srcCfg` is the model configuration built from the regenerated facts: the `concatFuncs`
  table of internal/concat.go, whether `concatMaps` guards nil interface values, and the
  presence of the conflict checks in `ConcatMessages` / `concatToolCalls`.  Every theorem is
  about the model instantiated with `srcCfg`; `EqvE a b` = "equal results, or both errors".
  The fuel `n` bounds the nesting depth of `map[string]any` values (`Err.fuel` is the
  model's artefact for deeper nesting; `*_total` shows it is unreachable for `n` above the
  nesting depth, and the laws hold for every `n`).
-/
import EinoV.Model.C14
import EinoV.Proofs.C14
import EinoV.Gen.FactsC14
import EinoV.Expected.C14

namespace EinoV.C14
open EinoV.Gen

/-- the model configuration read off the source tree -/
def srcCfg : Cfg :=
  Expected.C14.mkCfg FactsC14.concatFuncs FactsC14.nilGuard FactsC14.roleCheck FactsC14.nameCheck
    FactsC14.tcidCheck FactsC14.tcIdCheck FactsC14.tcTypeCheck FactsC14.tcNameCheck

/-! ## source-fact tie -/

/-- The regenerated facts are the ones the oracle runs with: the `concatFuncs` table
    (string ↦ concatStrings, the numeric/bool/time types ↦ useLast, nothing else), the two
    functions registered by schema's `init`, the nil guard of `concatMaps`, and all six
    conflict checks. -/
theorem facts_match :
    FactsC14.concatFuncs = Expected.C14.concatFuncs ∧
    FactsC14.registered = Expected.C14.registered ∧
    FactsC14.nilGuard = Expected.C14.nilGuard ∧
    FactsC14.roleCheck = true ∧ FactsC14.nameCheck = true ∧ FactsC14.tcidCheck = true ∧
    FactsC14.tcIdCheck = true ∧ FactsC14.tcTypeCheck = true ∧ FactsC14.tcNameCheck = true := by
  decide

theorem srcCfg_eq_expected : srcCfg.table = Expected.C14.cfg.table ∧ srcCfg.nilAbsent = true := by
  decide

/-! ## totality: a value or an ordinary error, never a panic -/

/-- **concat_total (ConcatMessages).** For every chunk sequence (nil chunks, absent / zero
    fields, nested extras with nil values and type clashes included) `ConcatMessages` returns
    a message or an ordinary error: the modelled panic sites (`reflect.SliceOf(nil)` in
    `toSliceValue`, `s[len(s)-1]` in `useLast`) are unreachable. -/
theorem concat_total (n : Nat) (cs : List (Option Msg))
    (hn : ∀ ms, allSome cs = some ms → extrasDepth ms < n) :
    (∃ m, concatMsgPtrs srcCfg n cs = .ok m) ∨ concatMsgPtrs srcCfg n cs = .error .fail :=
  concatMsgPtrs_total srcCfg (by decide) n cs hn

/-- no panic, for every fuel (no side condition at all) -/
theorem concat_never_panics (n : Nat) (cs : List (Option Msg)) :
    concatMsgPtrs srcCfg n cs ≠ .error .panic := by
  unfold concatMsgPtrs
  cases h : allSome cs with
  | none => simp
  | some ms =>
    intro he
    rcases concatMsgs_err srcCfg n ms _ he with h1 | h2
    · cases h1
    · exact concatEvs_no_panic srcCfg (by decide) n _ h2

/-- **concat_total (map[string]any chunks through the stream→value conversion).** -/
theorem concat_total_maps (n : Nat) (ms : List KVs) (hn : depthKVs ms.flatten < n) :
    (∃ m, concatMapChunks srcCfg n ms = .ok m) ∨ concatMapChunks srcCfg n ms = .error .fail := by
  cases ms with
  | nil => exact Or.inr rfl
  | cons a t =>
    cases t with
    | nil => exact Or.inl ⟨a, rfl⟩
    | cons b t' => exact concatMaps_total srcCfg (by decide) n _ hn

/-- **concat_total (string chunks).** -/
theorem concat_total_strs (xs : List String) :
    (∃ s, concatStrChunks srcCfg xs = .ok s) ∨ concatStrChunks srcCfg xs = .error .fail :=
  concatStream_total _ (fun xs h => strCore_total srcCfg xs h) xs

/-! ## re-chunking invariance (the monoid-with-errors law) -/

/-- **concat_rechunk (messages).** Concatenating any prefix first and then the rest gives
    the same message as concatenating everything at once, or both fail. -/
theorem concat_rechunk (n : Nat) (xs ys : List (Option Msg)) :
    EqvE (concatMsgPtrs srcCfg n xs >>= fun r => concatMsgPtrs srcCfg n (some r :: ys))
         (concatMsgPtrs srcCfg n (xs ++ ys)) :=
  concatMsgPtrs_rechunk srcCfg n xs ys

/-- **concat_rechunk (tool calls)**, as an equality. -/
theorem concat_rechunk_toolcalls (xs ys : List TC) :
    (concatTC srcCfg xs >>= fun r => concatTC srcCfg (r ++ ys)) = concatTC srcCfg (xs ++ ys) :=
  concatTC_rechunk srcCfg xs ys

/-- **concat_rechunk (maps, `concatMaps`)**: nested maps, per-key rules from the table,
    nil values, type clashes. -/
theorem concat_rechunk_maps (n : Nat) (xs ys : List KVs) :
    EqvE (concatMaps srcCfg n xs >>= fun r => concatMaps srcCfg n (r :: ys)) (concatMaps srcCfg n (xs ++ ys)) :=
  concatMaps_rechunk srcCfg n xs ys

/-- **concat_rechunk through `concatStreamReader`** (empty stream = error, one chunk = that
    chunk untouched, otherwise `ConcatItems`) for string, map and message chunks. -/
theorem concat_rechunk_stream_strs (xs ys : List String) (h : xs ≠ []) :
    EqvE (concatStrChunks srcCfg xs >>= fun r => concatStrChunks srcCfg (r :: ys)) (concatStrChunks srcCfg (xs ++ ys)) :=
  concatStrChunks_rechunk srcCfg xs ys h

theorem concat_rechunk_stream_maps (n : Nat) (xs ys : List KVs) (h : xs ≠ []) :
    EqvE (concatMapChunks srcCfg n xs >>= fun r => concatMapChunks srcCfg n (r :: ys)) (concatMapChunks srcCfg n (xs ++ ys)) :=
  concatMapChunks_rechunk srcCfg n xs ys h

theorem concat_rechunk_stream_msgs (n : Nat) (xs ys : List (Option Msg)) (h : xs ≠ []) :
    EqvE (concatMsgChunks srcCfg n xs >>= fun r => concatMsgChunks srcCfg n (r :: ys)) (concatMsgChunks srcCfg n (xs ++ ys)) :=
  concatMsgChunks_rechunk srcCfg n xs ys h

theorem concat_rechunk_stream_arrays (n : Nat) (xs ys : List (List (Option Msg))) (h : xs ≠ []) :
    EqvE (concatArrChunks srcCfg n xs >>= fun r => concatArrChunks srcCfg n (r :: ys)) (concatArrChunks srcCfg n (xs ++ ys)) :=
  concatArrChunks_rechunk srcCfg n xs ys h

/-- `[]*Message` chunks (position-wise `concatMessageArray`) never panic either: `mas[0]` is
    only evaluated on at least two arrays. -/
theorem concat_arrays_never_panic (n : Nat) (xs : List (List (Option Msg))) :
    concatArrChunks srcCfg n xs ≠ .error .panic :=
  concatArrChunks_no_panic srcCfg (by decide) n xs

/-- **the fuel is a proof device only**: any two fuels above the nesting depth of the extras
    give the same result (so `concat_total` and `concat_rechunk` speak about one function). -/
theorem fuel_irrelevant (n m : Nat) (ms : List Msg) (hn : extrasDepth ms < n) (hm : extrasDepth ms < m) :
    concatMsgs srcCfg n ms = concatMsgs srcCfg m ms :=
  concatMsgs_fuel_irrelevant srcCfg n m ms hn hm

/-! ## arrival order and grouping by index -/

/-- **args_in_order (text).** The content of the result is the contents of the chunks in
    arrival order. -/
theorem args_in_order_content (n : Nat) (ms : List Msg) (m : Msg) (h : concatMsgs srcCfg n ms = .ok m) :
    m.content = joinS (ms.map (·.content)) :=
  (concatMsgs_ok_fields srcCfg n ms m h).2.2.2.1

/-- **toolcalls_by_index + args_in_order (tool calls).** In a successful result the tool
    calls are: the nil-index fragments, untouched, in arrival order; then exactly one call
    per index that occurs, in strictly ascending index order, whose arguments are the
    arguments of the fragments with that index in arrival order. -/
theorem toolcalls_by_index (n : Nat) (ms : List Msg) (m : Msg) (h : concatMsgs srcCfg n ms = .ok m) :
    let cs := ms.flatMap (·.toolCalls)
    ∃ gs : List (Int × TC),
      m.toolCalls = cs.filter (fun c => c.index = none) ++ gs.map (·.2) ∧
      gs.Pairwise (fun p q => p.1 < q.1) ∧
      (∀ p ∈ gs, p.2.index = some p.1) ∧
      (∀ i, (∃ c ∈ cs, c.index = some i) ↔ (∃ p ∈ gs, p.1 = i)) ∧
      (∀ p ∈ gs, p.2.args = joinS ((cs.filter (fun c => c.index = some p.1)).map (·.args))) :=
  concatTC_spec srcCfg _ _ (concatMsgs_ok_fields srcCfg n ms m h).2.2.2.2.2.1

/-! ## non-vacuity -/

private def tc (i : Option Int) (id name args : String) : TC :=
  { index := i, id := id, type := "", name := name, args := args, extra := 0 }
private def msg (content : String) (tcs : List TC) (extra : KVs) : Msg :=
  { role := "assistant", name := "", toolCallID := "", content := content, multi := [], toolCalls := tcs,
    rmeta := none, extra := extra }

/-- a successful, non-trivial concatenation (fragments of two indexed calls arriving
    interleaved and out of order, a nil-index call, nested extras with a nil value) -/
example :
    (match concatMsgPtrs Expected.C14.cfg 3
        [some (msg "He" [tc (some 1) "b" "g" "{\"y\"", tc none "n" "h" "z"] [("k", .sc "string" "a"), ("m", .map [("x", .nil)])]),
         some (msg "llo" [tc (some 0) "a" "f" "{\"x\":", tc (some 1) "" "" ":2}"] [("k", .sc "string" "b"), ("m", .map [("x", .sc "int" "7")])]),
         some (msg "" [tc (some 0) "" "" "1}"] [])] with
      | .ok m => m.content == "Hello" &&
                 m.toolCalls.map (fun t => (t.index, t.id, t.name, t.args)) ==
                   [(none, "n", "h", "z"), (some 0, "a", "f", "{\"x\":1}"), (some 1, "b", "g", "{\"y\":2}")] &&
                 (match m.extra with
                  | [("k", .sc "string" "ab"), ("m", .map [("x", .sc "int" "7")])] => true
                  | _ => false)
      | .error _ => false) = true := by decide

/-- an ordinary error: conflicting tool-call ids for one index -/
example : isFail (concatMsgPtrs Expected.C14.cfg 2
    [some (msg "" [tc (some 0) "a" "" ""] []), some (msg "" [tc (some 0) "b" "" ""] [])]) = true := by decide

/-- an ordinary error: a nil chunk -/
example : isFail (concatMsgPtrs Expected.C14.cfg 2 [some (msg "x" [] []), none]) = true := by decide

/-! ## the negation for the other value of the nil-guard fact (the defect of the unfixed tree) -/

/-- Without the nil guard in `concatMaps` totality is false: one chunk whose `Extra` maps a
    key to nil makes `ConcatMessages` panic (`reflect.SliceOf(reflect.TypeOf(nil))`). -/
theorem nil_extra_panics_without_guard :
    isPanic (concatMsgPtrs { Expected.C14.cfg with nilAbsent := false } 2
      [some (msg "" [] [("k", .nil)])]) = true := by decide

/-- … and with the guard the same input concatenates (the key keeps its nil value). -/
theorem nil_extra_ok_with_guard :
    (match concatMsgPtrs Expected.C14.cfg 2 [some (msg "" [] [("k", .nil)]), some (msg "" [] [("k", .sc "int" "1")])] with
      | .ok m => (match m.extra with | [("k", .sc "int" "1")] => true | _ => false)
      | .error _ => false) = true := by decide

end EinoV.C14
