/-
  C04 — Invoke, Stream, Collect and Transform of a compiled graph agree.
  Property theorems.  Model: EinoV/Model/C04.lean (packer + adaptors), Engine.lean,
  EinoV/Model/C04Graph.lean (compiled graphs of packed components and their four calls).
  Source facts: EinoV/Gen/FactsC04.lean (regenerated from /repo on every run).
-/
import EinoV.Model.C04
import EinoV.Proofs.C04
import EinoV.Proofs.EngineHom
import EinoV.Model.C04Graph
import EinoV.Proofs.C04Graph
import EinoV.Proofs.C04GraphNat
import EinoV.Model.C04Lazy
import EinoV.Proofs.C04Lazy
import EinoV.Gen.FactsC04
import EinoV.Expected.C04
import EinoV.Proofs.C04Key
import EinoV.Model.C04FMap
import EinoV.Proofs.C04FMap
import EinoV.Model.C04ErrItem
import EinoV.Proofs.C04ErrItem

namespace EinoV.C04
open EinoV.Engine EinoV.Gen

/-- Source fact tie: the preference lists read from `newRunnablePacker` are the modelled ones,
    and every derived form uses the adaptor named after its (target, source) pair. -/
theorem facts_match : Pref.ofStrings FactsC04.packerPref = Expected.C04.packerPref ∧
    FactsC04.adaptorNamesMatch = true := by decide

/-- Source fact tie for the stream-mode zero: `emptyStreamFromGeneric` builds a stream of exactly one
    chunk carrying the zero value (`Pipe(1); Send(zero); Close`), and `dagChannel.get` hands it out in
    stream mode where value mode hands out the zero value — the `zero := [z]` of `opsS`, `lazyOps`,
    `listOps`, `streamOps`. -/
theorem zero_stream_facts : FactsC04.emptyStreamIsOneZeroChunk = true ∧
    FactsC04.dagGetHandsOutEmptyStream = true ∧
    (∀ z : Nat, (opsS z).zero = [z] ∧ (lazyOps z).zero = { chunks := [z] } ∧ (listOps z).zero = [z]) := by
  refine ⟨by decide, by decide, fun z => ⟨rfl, rfl, rfl⟩⟩

/-- **packer_total_and_agree.** Whichever non-empty subset of the four paradigms a component
    natively implements (all 15 subsets), however it splits its output into chunks
    (`chunk`, any function with `concat (chunk v) = v`), the four forms produced by
    `newRunnablePacker` are all defined and agree with the component's function `f`:
    Invoke is `f`; concatenating Stream's chunks gives `f`; Collect is `f` of the concatenated
    input; concatenating Transform's chunks gives `f` of the concatenated input — errors
    included. -/
theorem packer_agree {V} (co : ChunkOps V) (f : V → Except Err V) (chunk : V → List V)
    (hchunk : ∀ v, concat co (chunk v) = .ok v)
    (hasI hasS hasC hasT : Bool) (hne : (hasI || hasS || hasC || hasT) = true) :
    let p := pack co (Pref.ofStrings FactsC04.packerPref) (nativeOf co f chunk hasI hasS hasC hasT)
    (∀ x, p.i x = f x) ∧ (∀ x, (p.s x >>= concat co) = f x) ∧
    (∀ xs, p.c xs = (concat co xs >>= f)) ∧ (∀ xs, (p.t xs >>= concat co) = (concat co xs >>= f)) := by
  rw [facts_match.1]
  exact packer_agree_expected co f chunk hchunk hasI hasS hasC hasT hne

/-- **engine_hom (graph level).** Let `h : A → B` map the values of one execution mode to
    those of another (stream mode: chunk lists ↦ their concatenation).  If `h` commutes with
    every node function and every branch condition, and with the fan-in merge, on the values
    satisfying an invariant `P` preserved by node functions and merge, then for every runner
    (any wiring, cycles, branches, fan-in, either trigger mode), every input satisfying `P`
    and corresponding completion schedules, the run in the one mode maps to the run in the
    other: same result or error, same per-step trace up to `h`.  (In all-predecessor mode a
    node may be handed the zero value, which must then satisfy `P` too.)  This is the
    all-quantified form (every node and branch of the type corresponds), a corollary of
    `engine_hom_on` below; it is the one `lazy_streams_conservative` uses. -/
theorem engine_hom {A B : Type} (h : A → B) (P : A → Prop) (tb : Branch A → Branch B) (tn : Node A → Node B)
    (htb : ∀ b, BranchOK h P b (tb b)) (htn : ∀ n, NodeOK h P tb n (tn n))
    (oA : ValOps A) (oB : ValOps B) (hops : OpsOK h P oA oB)
    (r : Runner A) (hz : r.dag = true → P oA.zero) (sA : Sched A) (sB : Sched B)
    (hs : SchedHom h sA sB) (hsub : SchedSub sA) (x : A) (hx : P x) :
    runS oB (r.mapNodes tn) sB (h x) = (runS oA r sA x).mapO h :=
  run_hom h P tb tn htb htn oA oB hops r hz sA sB hs hsub x hx

/-- collecting in submission order on both sides is a pair of corresponding schedules -/
theorem sched_id_hom {A B : Type} (h : A → B) : SchedHom h (Sched.id : Sched A) (Sched.id : Sched B) ∧
    SchedSub (Sched.id : Sched A) := ⟨fun _ _ => rfl, fun _ _ _ hx => hx⟩

/-- **packed_component_node.** A component natively implementing any non-empty subset of the
    four paradigms, put into the graph through `newRunnablePacker` (preference lists as
    regenerated from the source), satisfies the node hypothesis of `engine_hom` with
    `h` = concatenation and `P` = "the stream has at least one chunk": its Transform form run
    on a chunk list concatenates to its Invoke form run on the concatenated input (errors
    included), and it never emits an empty stream. -/
theorem packed_component_node {V} (co : ChunkOps V) (d : V)
    (hct : ∀ l, l ≠ [] → ∃ v, concat co l = .ok v)
    (f : V → Except Err V) (chunk : V → List V)
    (hchunk : ∀ v, concat co (chunk v) = .ok v) (hne : ∀ v, chunk v ≠ [])
    (hasI hasS hasC hasT : Bool) (hany : (hasI || hasS || hasC || hasT) = true) :
    let p := pack co (Pref.ofStrings FactsC04.packerPref) (nativeOf co f chunk hasI hasS hasC hasT)
    (∀ a, a ≠ [] → p.i (concatD co d a) = (p.t a).map (concatD co d)) ∧
    (∀ a a', a ≠ [] → p.t a = .ok a' → a' ≠ []) := by
  rw [facts_match.1]
  exact ⟨fun a ha => packed_component_commutes co d hct f chunk hchunk hne hasI hasS hasC hasT hany a ha,
         fun a a' _ h' => packed_t_nonempty co f chunk hne hasI hasS hasC hasT hany a a' h'⟩

/-- **collect_branch.** A plain branch condition is run in stream mode as `collectByInvoke`
    (concatenate, then the condition): it satisfies the branch hypothesis of `engine_hom`. -/
theorem collect_branch {V} (co : ChunkOps V) (d : V)
    (hct : ∀ l, l ≠ [] → ∃ v, concat co l = .ok v) (ends : List Key) (noData : Bool)
    (cond : V → Except Err (List Key)) :
    BranchOK (concatD co d) (fun a => a ≠ [])
      ({ ends := ends, noData := noData, cond := fun s => concat co s >>= cond } : Branch (List V))
      ({ ends := ends, noData := noData, cond := cond } : Branch V) := by
  refine ⟨rfl, rfl, ?_⟩
  intro a ha
  simp only [concat_eq_concatD co d hct a ha]
  rfl

/-- **nested_graph_node.** A graph used as a node satisfies the node hypothesis of
    `engine_hom` as soon as its own nodes do (the theorem applied to the nested runner), and
    its results keep the invariant when the nested results do. -/
theorem nested_graph_node {A B : Type} (h : A → B) (P : A → Prop) (tb : Branch A → Branch B) (tn : Node A → Node B)
    (htb : ∀ b, BranchOK h P b (tb b)) (htn : ∀ n, NodeOK h P tb n (tn n))
    (oA : ValOps A) (oB : ValOps B) (hops : OpsOK h P oA oB)
    (sub : Runner A) (hz : sub.dag = true → P oA.zero) (a : A) (ha : P a) :
    (runS oB (sub.mapNodes tn) Sched.id (h a)).result = ((runS oA sub Sched.id a).result).map h := by
  rw [engine_hom h P tb tn htb htn oA oB hops sub hz Sched.id Sched.id (sched_id_hom h).1 (sched_id_hom h).2 a ha]
  rfl

/-! ### the graph-level statement: the four calls of a compiled graph agree
    (`Model/C04Graph.lean`) -/

/-- **engine_hom_on** — `engine_hom` with the hypotheses the engine really needs: the node and
    branch correspondences only for the nodes of the runner at hand (`r.Has n`: `n = r.start`
    or `n ∈ r.nodes`) and the branches of those nodes, the fan-in correspondence (`FanInOK`)
    only for merges of two or more values and — for the zero value — only in all-predecessor
    mode.  In addition a successful run returns a value satisfying the invariant (so that a
    graph used as a node preserves it).  This is the form that can be instantiated with
    `h` = concatenation (no translation of *all* nodes of the type along concatenation
    exists). -/
theorem engine_hom_on {A B : Type} (h : A → B) (P : A → Prop) (tb : Branch A → Branch B) (tn : Node A → Node B)
    (r : Runner A)
    (htb : ∀ n, r.Has n → ∀ b ∈ n.branches, BranchOK h P b (tb b))
    (htn : ∀ n, r.Has n → NodeOK h P tb n (tn n))
    (oA : ValOps A) (oB : ValOps B) (hops : FanInOK r.dag h P oA oB)
    (sA : Sched A) (sB : Sched B) (hs : SchedHom h sA sB) (hsub : SchedSub sA) (x : A) (hx : P x) :
    runS oB (r.mapNodes tn) sB (h x) = (runS oA r sA x).mapO h ∧
    (∀ v, (runS oA r sA x).result = .ok v → P v) :=
  run_hom_keeps_on h P tb tn r htb htn oA oB hops sA sB hs hsub x hx

/-- **calls_are_runs.** The four calls of a compiled graph are what compose builds: Invoke is
    the value-mode run of the engine over the nodes' Invoke forms, Transform the stream-mode
    run over their Transform forms (plain branch conditions through `collectByInvoke`, stream
    fan-in `opsS`, whose zero is the one-chunk stream of the value-mode zero), Stream is `streamByTransform` and Collect `collectByTransform` around it —
    at every nesting depth. -/
theorem calls_are_runs {V} (co : ChunkOps V) (pref : Pref) (opsV : ValOps V) (n : Nat) (g : Graph V n) :
    (∀ x, invoke co pref opsV g x = (run opsV (valueRunner co pref opsV g) x).result) ∧
    (∀ xs, transform co pref opsV g xs = (run (opsS opsV.zero) (streamRunner co pref opsV g) xs).result) ∧
    (∀ x, stream co pref opsV g x = transform co pref opsV g [x]) ∧
    (∀ xs, collect co pref opsV g xs = (transform co pref opsV g xs >>= concat co)) := by
  cases n <;> exact ⟨fun _ => rfl, fun _ => rfl, fun _ => rfl, fun _ => rfl⟩

/-- **graph_four_paradigms_agree.** For every graph of packed components `g` — any wiring,
    cycles, branches with value conditions, fan-out and fan-in, pass-through nodes, graphs used
    as nodes to any depth `n`, either trigger mode (any-predecessor and all-predecessor) —
    whichever non-empty subset of the four paradigms each component natively implements and
    however it splits its output into (at least one) chunks (`Graph.OK`: every component of
    every level is `Comp.Valid`), with the preference table regenerated from the source, for
    every chunk concatenation `co` that is total on non-empty streams and every value fan-in
    `opsV` obeying the merge law w.r.t. `co` (`MergeLaw`; it fails for eino's map merge when
    two sources share a key — the known finding `C04:paradigms:err-merge-vs-ok`):

      * concatenating the chunks of `Stream g x` gives `Invoke g x`,
      * `Collect g xs` is `Invoke g` of the concatenated input,
      * concatenating the chunks of `Transform g xs` is `Invoke g` of the concatenated input,

    for every input `x` and every non-empty input stream `xs` — equalities in `Except Err`:
    a failure is the same error (class and node path) in all four calls.

    All-predecessor mode is covered because the stream a ready channel without values hands
    out is the one-chunk stream of the zero value (`opsS`, `emptyStreamFromGeneric`); with a
    chunk-less zero stream the statement would be false there (`concat` fails on it). -/
theorem graph_four_paradigms_agree {V} (co : ChunkOps V)
    (hct : ∀ l, l ≠ [] → ∃ v, concat co l = .ok v)
    (opsV : ValOps V) (d : V) (hml : MergeLaw co d opsV)
    (n : Nat) (g : Graph V n) (hg : Graph.OK co n g) :
    let pref := Pref.ofStrings FactsC04.packerPref
    (∀ x, (stream co pref opsV g x >>= concat co) = invoke co pref opsV g x) ∧
    (∀ xs, xs ≠ [] → collect co pref opsV g xs = (concat co xs >>= invoke co pref opsV g)) ∧
    (∀ xs, xs ≠ [] → (transform co pref opsV g xs >>= concat co) = (concat co xs >>= invoke co pref opsV g)) := by
  rw [facts_match.1]
  have hA := graph_actOK co d hct opsV hml n g hg
  exact ⟨fun x => hA.stream_concat co d hct x,
         fun xs hxs => hA.transform_concat co d hct xs hxs,
         fun xs hxs => hA.transform_concat co d hct xs hxs⟩

/-- **graph_runs_correspond.** Under the hypotheses of `graph_four_paradigms_agree` the two
    runs correspond step by step: the value-mode run on the concatenated input is the
    stream-mode run with every stream concatenated — result or error and the whole superstep
    trace (which nodes run in which step, on which values) — for any pair of corresponding
    completion schedules. -/
theorem graph_runs_correspond {V} (co : ChunkOps V)
    (hct : ∀ l, l ≠ [] → ∃ v, concat co l = .ok v)
    (opsV : ValOps V) (d : V) (hml : MergeLaw co d opsV)
    (n : Nat) (g : Graph V n) (hg : Graph.OK co n g)
    (sS : Sched (List V)) (sV : Sched V) (hs : SchedHom (concatD co d) sS sV) (hsub : SchedSub sS)
    (xs : List V) (hxs : xs ≠ []) :
    let pref := Pref.ofStrings FactsC04.packerPref
    runS opsV (valueRunner co pref opsV g) sV (concatD co d xs)
      = (runS (opsS opsV.zero) (streamRunner co pref opsV g) sS xs).mapO (concatD co d) := by
  rw [facts_match.1]
  exact graph_run_hom co d hct opsV hml n g hg sS sV hs hsub xs hxs

/-- **lift_same_calls.** Nesting depths are cumulative: a graph of depth `n` used where depth
    `n + 1` is expected (`Graph.lift`) has the same Invoke and Transform (hence Stream and
    Collect) and satisfies the side conditions iff it did — so `Graph V n`, `n : Nat`, covers
    every finite nesting of graphs in graphs. -/
theorem lift_same_calls {V} (co : ChunkOps V) (pref : Pref) (opsV : ValOps V) (n : Nat) (g : Graph V n) :
    invoke co pref opsV (Graph.lift n g) = invoke co pref opsV g ∧
    transform co pref opsV (Graph.lift n g) = transform co pref opsV g ∧
    (Graph.OK co (n + 1) (Graph.lift n g) ↔ Graph.OK co n g) :=
  ⟨(lift_sem co pref opsV n g).1, (lift_sem co pref opsV n g).2, lift_ok co n g⟩

/-- **flat_graph_four_paradigms_agree.** The same for a graph without graph nodes, with the
    side conditions spelled out. -/
theorem flat_graph_four_paradigms_agree {V} (co : ChunkOps V)
    (hct : ∀ l, l ≠ [] → ∃ v, concat co l = .ok v)
    (opsV : ValOps V) (d : V) (hml : MergeLaw co d opsV)
    (g : GraphOf V Empty)
    (hcomp : ∀ n, (n = g.start ∨ n ∈ g.nodes) → ∀ c, n.kind = .comp c →
      (∀ v, concat co (c.chunk v) = .ok v) ∧ (∀ v, c.chunk v ≠ []) ∧
      (c.hasI || c.hasS || c.hasC || c.hasT) = true) :
    let pref := Pref.ofStrings FactsC04.packerPref
    (∀ x, (stream co pref opsV (d := 0) g x >>= concat co) = invoke co pref opsV (d := 0) g x) ∧
    (∀ xs, xs ≠ [] → collect co pref opsV (d := 0) g xs = (concat co xs >>= invoke co pref opsV (d := 0) g)) ∧
    (∀ xs, xs ≠ [] → (transform co pref opsV (d := 0) g xs >>= concat co)
        = (concat co xs >>= invoke co pref opsV (d := 0) g)) := by
  apply graph_four_paradigms_agree co hct opsV d hml 0 g
  intro n hn
  cases hk : n.kind with
  | comp c =>
    obtain ⟨h1, h2, h3⟩ := hcomp n hn c hk
    exact ⟨h1, h2, h3⟩
  | pass => trivial
  | graph s => exact s.elim

/-! ### non-vacuity: a concrete instance (`V = Nat`, concatenation = sum, merge = sum);
    the data (`natCo`, `natOps`, `compA` … `natG`, `natG1`) and the routine checks of the side
    conditions are in `Proofs/C04GraphNat.lean` -/

/-- the merge law holds for sum against sum -/
theorem natMergeLaw : MergeLaw natCo 0 natOps where
  merge := by
    intro ls _ _
    have hmap : ls.map (concatD natCo 0) = ls.map List.sum := List.map_congr_left (fun l _ => natConcatD l)
    rw [hmap, natConcatD]
    simp only [natOps, Option.some.injEq]
    exact sum_map_sum ls

example : Graph.OK natCo 0 natG ∧ Graph.OK natCo 1 natG1 ∧ Graph.OK natCo 0 natDag := ⟨natG_ok, natG1_ok, natDag_ok⟩
example : compA.Valid natCo ∧ compB.Valid natCo ∧ compC.Valid natCo := ⟨compA_valid, compB_valid, compC_valid⟩

/-! the hypotheses are satisfiable together, on non-trivial graphs -/
example : let pref := Pref.ofStrings FactsC04.packerPref
    (∀ x, (stream natCo pref natOps natG1 x >>= concat natCo) = invoke natCo pref natOps natG1 x) ∧
    (∀ xs, xs ≠ [] → collect natCo pref natOps natG1 xs = (concat natCo xs >>= invoke natCo pref natOps natG1)) ∧
    (∀ xs, xs ≠ [] → (transform natCo pref natOps natG1 xs >>= concat natCo)
        = (concat natCo xs >>= invoke natCo pref natOps natG1)) :=
  graph_four_paradigms_agree natCo natHct natOps 0 natMergeLaw 1 natG1 natG1_ok

/-! the runs are not trivial: three loop rounds through the branch, a two-chunk output whose
    chunks differ from Invoke's value, an error with its node path inside the nested graph -/
example : invoke natCo (Pref.ofStrings FactsC04.packerPref) natOps natG 5 = .ok 48 := by rfl
example : stream natCo (Pref.ofStrings FactsC04.packerPref) natOps natG 5 = .ok [1, 47] := by rfl
example : transform natCo (Pref.ofStrings FactsC04.packerPref) natOps natG [2, 3] = .ok [1, 47] := by rfl
example : (runS (opsS 0) (streamRunner natCo (Pref.ofStrings FactsC04.packerPref) natOps natG) Sched.id [2, 3]).trace
    = [[("a", [2, 3]), ("b", [2, 3])], [("c", [1, 5, 0, 10])], [("a", [1, 25])], [("c", [1, 26])],
       [("a", [1, 36])], [("c", [1, 37])], [("p", [1, 47])]] := by rfl
example : transform natCo (Pref.ofStrings FactsC04.packerPref) natOps natG1 [2, 3] = .ok [1, 47, 1, 5] := by rfl
example : invoke natCo (Pref.ofStrings FactsC04.packerPref) natOps natG1 5 = .ok 54 := by rfl
example : invoke natCo (Pref.ofStrings FactsC04.packerPref) natOps natG1 40
    = .error { cls := .user 7, path := ["g", "c"] } := by rfl
example : collect natCo (Pref.ofStrings FactsC04.packerPref) natOps natG1 [20, 20]
    = .error { cls := .user 7, path := ["g", "c"] } := by rfl

/-! all-predecessor mode, a node that is handed the zero value: value mode runs it on `0`,
    stream mode on the one-chunk stream `[0]` -/
example : natDag.dag = true ∧
    invoke natCo (Pref.ofStrings FactsC04.packerPref) natOps natDag 5 = .ok 1 ∧
    collect natCo (Pref.ofStrings FactsC04.packerPref) natOps natDag [2, 3] = .ok 1 ∧
    (runS (opsS 0) (streamRunner natCo (Pref.ofStrings FactsC04.packerPref) natOps natDag) Sched.id [2, 3]).trace
      = [[("a", [0])]] := ⟨rfl, by rfl, by rfl, by rfl⟩

/-! … and with a chunk-less zero stream (the `zero := []` of `listOps` / `streamOps`, which is
    not what `emptyStreamFromGeneric` builds) the same graph would fail in stream mode only -/
example : ((run ({ merge := fun ls => some ls.flatten, zero := [] } : ValOps (List Nat))
      (streamRunner natCo (Pref.ofStrings FactsC04.packerPref) natOps natDag) [5]).result >>= concat natCo)
    = .error { cls := .noTasks, path := ["a"] } := by rfl

/-! the merge law cannot be dropped: with a value merge that rejects the fan-in (as eino's map
    merge rejects two sources sharing a key) Invoke fails with the merge error while Collect
    succeeds — the shape of the known finding `C04:paradigms:err-merge-vs-ok` -/
def rejectOps : ValOps Nat := { merge := fun _ => none, zero := 0 }
example : invoke natCo (Pref.ofStrings FactsC04.packerPref) rejectOps natG 5 = .error { cls := .merge } ∧
    collect natCo (Pref.ofStrings FactsC04.packerPref) rejectOps natG [5] = .ok 48 := ⟨by rfl, by rfl⟩

/-! ### error items: failures reported in the middle of a stream (`Model/C04Lazy.lean`) -/

/-- **error_item_reported.** "A failure is reported in every paradigm (at call time or as an
    error item on the stream)": everything that drains a stream carrying an error item fails with
    that item — a packed component (`lazyNode`), a natively streaming producer that would itself
    break later (`lazyMidFail`), a plain branch condition (`lazyCond`, `collectByInvoke`) and the
    caller concatenating the output (`lazyConcat`: Collect, or draining Stream / Transform). -/
theorem error_item_reported {V} (co : ChunkOps V) (s : LStream V) (e : Err) (he : s.err = some e)
    (t : List V → Except Err (List V)) (k : Nat) (e' : Err) (c : List V → Except Err (List Key)) :
    lazyNode t s = .error e ∧ lazyMidFail t k e' s = .error e ∧ lazyCond c s = .error e ∧
    lazyConcat co s = .error e := by
  simp [lazyNode, lazyMidFail, lazyCond, lazyConcat, LStream.force_err s e he, bind, Except.bind]

/-- **merge_keeps_error_items.** The fan-in of streams (`MergeStreamReaders`) neither drops nor
    invents error items: the merged stream carries one iff some source does, and the one it
    carries is a source's. (Chain `Parallel`, a node or END with several data predecessors.) -/
theorem merge_keeps_error_items {V} (z : V) (ls : List (LStream V)) :
    ∃ m, (lazyOps z).merge ls = some m ∧
      (∀ s ∈ ls, ∀ e, s.err = some e → ∃ e', m.err = some e') ∧
      (∀ e', m.err = some e' → ∃ s ∈ ls, s.err = some e') ∧
      ((∀ s ∈ ls, s.err = none) → m.err = none ∧ m.chunks = (ls.map (·.chunks)).flatten) := by
  refine ⟨_, rfl, ?_, ?_, ?_⟩
  · intro s hs e he
    exact findSome_err_some ls s hs e he
  · intro e' he'
    exact findSome_err_mem ls e' he'
  · intro h
    exact ⟨findSome_err_none ls h, rfl⟩

/-- **forwarding_keeps_error_items.** Chunk-wise conversion of a stream (`WithOutputKey`,
    `WithInputKey` on a stream, edge handlers: `StreamReaderWithConvert`) forwards the error item. -/
theorem forwarding_keeps_error_items {V} (f : List V → List V) (s : LStream V) :
    (s.mapChunks f).err = s.err ∧ (s.mapChunks f).chunks = f s.chunks := ⟨rfl, rfl⟩

/-- **broken_producer_reported.** A natively streaming producer that returns its reader and
    breaks after `k` chunks, merged with any other streams at a fan-in and converted on the way,
    fails whatever drains the merged stream: the consumer node in stream mode, and the caller of
    Stream / Collect / Transform when the fan-in is END — as Invoke fails when the producer runs. -/
theorem broken_producer_reported {V} (z : V) (co : ChunkOps V) (t : List V → Except Err (List V)) (k : Nat) (e : Err)
    (x o : LStream V) (ho : lazyMidFail t k e x = .ok o) (conv : List V → List V)
    (ls : List (LStream V)) (hmem : o.mapChunks conv ∈ ls)
    (t' : List V → Except Err (List V)) :
    ∃ m e', (lazyOps z).merge ls = some m ∧ (∃ s ∈ ls, s.err = some e') ∧
      lazyNode t' m = .error e' ∧ lazyConcat co m = .error e' := by
  have hoe : o.err = some e := by
    unfold lazyMidFail at ho
    cases hx : x.force with
    | error _ => simp [hx, bind, Except.bind] at ho
    | ok xs =>
      cases ht : t xs with
      | error _ => simp [hx, ht, bind, Except.bind] at ho
      | ok ys =>
        simp [hx, ht, bind, Except.bind, pure, Except.pure] at ho
        rw [← ho]
  obtain ⟨m, hm, h1, h2, _⟩ := merge_keeps_error_items z ls
  obtain ⟨e', he'⟩ := h1 _ hmem e hoe
  refine ⟨m, e', hm, h2 e' he', ?_, ?_⟩
  · exact (error_item_reported co m e' he' t' 0 e (fun _ => .ok [])).1
  · exact (error_item_reported co m e' he' t' 0 e (fun _ => .ok [])).2.2.2

/-- **lazy_node_ok / lazy_branch_ok.** A draining node and a draining branch condition over
    lazy streams correspond (hypotheses of `engine_hom`) to the same node and condition over
    chunk lists, for `h` = the chunks of a stream and `P` = "no error item". -/
theorem lazy_node_ok {V} (tb : Branch (LStream V) → Branch (List V)) (key : Key) (writeTo controls : List Key)
    (brs : List (Branch (LStream V))) (t : List V → Except Err (List V)) :
    NodeOK LStream.chunks (fun s : LStream V => s.err = none) tb
      { key := key, act := lazyNode t, writeTo := writeTo, controls := controls, branches := brs }
      { key := key, act := t, writeTo := writeTo, controls := controls, branches := brs.map tb } where
  key := rfl
  writeTo := rfl
  controls := rfl
  branches := rfl
  act := by
    intro a ha
    simp only [lazyNode, LStream.force_ok a ha]
    cases ht : t a.chunks <;> simp [ht, bind, Except.bind, pure, Except.pure, Except.map, LStream.ofList]
  keeps := by
    intro a a' ha h
    simp only [lazyNode, LStream.force_ok a ha] at h
    cases ht : t a.chunks with
    | error _ => simp [ht, bind, Except.bind] at h
    | ok ys =>
      simp [ht, bind, Except.bind, pure, Except.pure] at h
      rw [← h]; rfl

theorem lazy_branch_ok {V} (ends : List Key) (noData : Bool) (c : List V → Except Err (List Key)) :
    BranchOK LStream.chunks (fun s : LStream V => s.err = none)
      ({ ends := ends, noData := noData, cond := lazyCond c } : Branch (LStream V))
      ({ ends := ends, noData := noData, cond := c } : Branch (List V)) := by
  refine ⟨rfl, rfl, ?_⟩
  intro a ha
  simp only [lazyCond, LStream.force_ok a ha]
  rfl

/-- **lazy_streams_conservative.** Without error items the refined stream mode is the chunk-list
    stream mode: for every runner over lazy streams whose nodes and branch conditions correspond
    to chunk-list ones (as draining nodes and conditions do: `lazy_node_ok`, `lazy_branch_ok`;
    pass-through and nested graphs likewise), every error-item-free input and the in-order
    schedule, the lazy run maps to the chunk-list run — result, error and per-step trace. So
    whatever `engine_hom` gives for chunk lists against value mode (the agreement of Stream /
    Collect / Transform with Invoke) carries over to lazy streams as long as no producer breaks. -/
theorem lazy_streams_conservative {V} (tb : Branch (LStream V) → Branch (List V)) (tn : Node (LStream V) → Node (List V))
    (htb : ∀ b, BranchOK LStream.chunks (fun s : LStream V => s.err = none) b (tb b))
    (htn : ∀ n, NodeOK LStream.chunks (fun s : LStream V => s.err = none) tb n (tn n))
    (z : V) (r : Runner (LStream V)) (x : LStream V) (hx : x.err = none) :
    runS (listOps z) (r.mapNodes tn) Sched.id x.chunks = (runS (lazyOps z) r Sched.id x).mapO LStream.chunks :=
  engine_hom LStream.chunks (fun s => s.err = none) tb tn htb htn (lazyOps z) (listOps z) (lazy_ops_ok z) r (fun _ => rfl)
    Sched.id Sched.id (sched_id_hom LStream.chunks).1 (sched_id_hom (B := List V) LStream.chunks).2 x hx

/-! non-vacuity: a chunker that really splits, on a concrete value type -/
example : concat ({ concatItems := fun l => .ok l.sum, emptyErr := { cls := .noTasks } } : ChunkOps Nat) [1, 2] = .ok 3 := rfl

/-! non-vacuity: a producer that breaks after one chunk, merged with a healthy stream, fails the
    caller's concatenation although chunks were delivered -/
example : (lazyMidFail (V := Nat) (fun xs => .ok xs) 1 { cls := .user 7 } (.ofList [1, 2])).toOption.bind
      (fun o => ((lazyOps 0).merge [LStream.ofList [5], o]).map
        (lazyConcat { concatItems := fun l => .ok l.sum, emptyErr := { cls := .noTasks } }))
    = some (.error { cls := .user 7 }) := rfl

/-! ### values under an input key (`WithInputKey`): absent, nil, wrongly typed (`Model/C04Key.lean`) -/

/-- fact tie: the conversion function of `defaultStreamMapFilter` describes a wrongly typed value
    without calling a method on `reflect.TypeOf(v)` (which is nil for an untyped nil) -/
theorem stream_filter_fact : FactsC04.streamFilterNilSafe = true := by decide

/-- **input_key_never_panics.** With the nil-safe conversion function the source has
    (`stream_filter_fact`), reading a stream filtered by an input key never panics, whatever the
    chunks carry under the key — absent, an untyped nil, a value of another type, a good value, in
    any order: every chunk is dropped, forwarded, or turned into an error item. -/
theorem input_key_never_panics {V} (l : List (KVal V)) :
    panicsAt FactsC04.streamFilterNilSafe l = false := by
  rw [stream_filter_fact]; exact panicsAt_safe l

/-- **input_key_paradigms_agree.** For the one-chunk stream (what `Stream` and every invoke-only
    producer hand over) value mode and stream mode agree on the value under the key: the same value
    when it has the node's type, a failure in both otherwise (absent, nil, wrong type). -/
theorem input_key_paradigms_agree {V} (co : ChunkOps V) (kv : KVal V) :
    (∀ v, keyValue kv = .ok v → lazyConcat co (keyStream [kv]) = .ok v) ∧
    (∀ e, keyValue kv = .error e → ∃ e', lazyConcat co (keyStream [kv]) = .error e') :=
  key_single_chunk co kv

/-- a stream of good values passes the filter unchanged -/
theorem input_key_forwards_good {V} (vs : List V) :
    keyStream (vs.map KVal.good) = { chunks := vs, err := none } := keyStream_good vs

/-- negation witness (the code before the repair): without the nil guard an untyped nil under the
    key makes `Recv` panic in the reader's goroutine, while value mode returns an ordinary error -/
theorem input_key_nil_panicked_before_repair :
    panicsAt (V := Nat) false [.good 1, .nilVal] = true ∧ keyValue (V := Nat) .nilVal = .error errKeyType := ⟨rfl, rfl⟩

/-! ### map chunks through field mappings (`Model/C04FMap.lean`): a producer that distributes the
    mapped keys over its chunks, splits string values, or carries nil / wrongly typed values -/

/-- fact tie: the combined run-time checker `validateFieldMapping` puts on an edge visits the entries
    the field map HAS (it ranges over the map, or looks a key up with comma-ok) — it does not look
    every checked target up directly, which finds nil for the keys a stream chunk does not carry -/
theorem field_checker_fact : FactsC04.fieldCheckerPresentKeysOnly = true := by decide

/-- **field_mapped_chunks_agree.** "… however producers split their output into chunks … wherever
    streams pass … field mappings", for one edge with field mappings `ms` (pairwise distinct targets;
    any mixture of mappings with and without a run-time checker, nilable or not) and EVERY way `cs` of
    splitting a `map[string]any` value into at least one chunk such that, per key, the chunks carry
    string pieces only or at most one chunk carries the key (`SplitOK`: then the chunks concatenate —
    `concatCols` succeeds), and every mapped key is carried by some chunk:
    the successor's input obtained in stream mode — field map, checker and conversion chunk by chunk
    (`fmStream`, with the checker as the source has it), then concatenation of the converted chunks —
    is the one value mode builds from the concatenated value (`fmValue`), and a refusal in value mode
    (nil or a wrongly typed value under a checked mapping) is a failure in stream mode too: never a
    success in one and a failure in the other. -/
theorem field_mapped_chunks_agree (ms : List FMapping) (cs : List FChunk) (ks : List Key)
    (hne : cs ≠ []) (hnd : (ms.map (·.dst)).Nodup)
    (hks : ∀ m ∈ ms, m.src ∈ ks)
    (hsplit : ∀ k ∈ ks, SplitOK (occ k cs))
    (hpres : ∀ m ∈ ms, occ m.src cs ≠ []) :
    ∃ whole, concatCols cs ks = .ok whole ∧
      (∀ t, fmValue ms whole = .ok t →
        fmConcat (ms.map (·.dst)) (fmStream FactsC04.fieldCheckerPresentKeysOnly ms cs) = .ok t) ∧
      (∀ e, fmValue ms whole = .error e →
        ∃ e', fmConcat (ms.map (·.dst)) (fmStream FactsC04.fieldCheckerPresentKeysOnly ms cs) = .error e') := by
  rw [field_checker_fact]
  exact fmap_agree_expected ms cs ks hne hnd hks hsplit hpres

/-- **field_mapped_fan_in_agrees.** The same for a sink (a node, or END) that takes fields from any
    number of sources — edges `es`, each with its own mappings, its source's chunks and the keys of its
    source's map; all targets pairwise distinct, every edge's chunks a well-formed split that carries
    every mapped key (`EdgeOK`): the value the sink is handed in stream mode (every edge converted
    chunk by chunk, the converted streams merged, the merged chunks concatenated key by key —
    `fmStreamAll`) is the value it is handed in value mode (every source's chunks concatenated, every
    edge's field map of the whole value checked, the union — `fmInvokeAll`), and a failure in value
    mode is a failure in stream mode. -/
theorem field_mapped_fan_in_agrees (es : List FEdge) (hes : es ≠ [])
    (hok : ∀ e ∈ es, EdgeOK e.ms e.cs e.keys) (hnd : (es.flatMap FEdge.dsts).Nodup) :
    (∀ t, fmInvokeAll es = .ok t → fmStreamAll FactsC04.fieldCheckerPresentKeysOnly es = .ok t) ∧
    (∀ err, fmInvokeAll es = .error err → ∃ err', fmStreamAll FactsC04.fieldCheckerPresentKeysOnly es = .error err') := by
  rw [field_checker_fact]
  exact fmap_fanin_agree_expected es hes hok hnd

/-- **field_mapped_chunk_refused_only_for_its_own_values.** In stream mode a chunk is turned into an
    error item only because of a value it carries: some mapped key is in the chunk and the checker of
    that mapping refuses the value found there — never because of a key the chunk lacks. -/
theorem field_mapped_chunk_refused_only_for_its_own_values (ms : List FMapping) (c : FChunk) (e : Err)
    (h : fmChunk FactsC04.fieldCheckerPresentKeysOnly ms c = .error e) :
    ∃ m ∈ ms, c.get m.src ≠ .absent ∧ ∃ e', checkVal m (c.get m.src) = .error e' := by
  rw [field_checker_fact] at h
  exact fmChunk_err ms c e h

/-- negation witness: a checker that looks every checked target up (instead of visiting the entries
    of the chunk's field map) refuses `{"a":"x"}, {"b":"y"}` in stream mode while value mode accepts the
    concatenated map -/
theorem field_checker_direct_lookup_breaks_split_chunks :
    let ms : List FMapping := [{ src := "a", dst := "A" }, { src := "b", dst := "B" }]
    let cs : List FChunk := [[("a", .good "x")], [("b", .good "y")]]
    concatCols cs ["a", "b"] = .ok [("a", .good "x"), ("b", .good "y")] ∧
    fmValue ms [("a", .good "x"), ("b", .good "y")] = .ok [("A", .good "x"), ("B", .good "y")] ∧
    fmConcat ["A", "B"] (fmStream true ms cs) = .ok [("A", .good "x"), ("B", .good "y")] ∧
    fmConcat ["A", "B"] (fmStream false ms cs) = .error errNotAssignable := by
  refine ⟨by rfl, by rfl, by rfl, by rfl⟩

deriving instance DecidableEq for Except

/-- what fails outside `SplitOK` (the hypothesis of `field_mapped_chunks_agree` cannot be dropped; known
    finding `C04:fmap:paradigms:invoke=ok,streamed=err:nil-beside-value-under-checked-key`): a chunk that
    carries an explicit nil under a key whose value another chunk carries is not a well-formed split in
    the sense of `SplitOK`, yet the chunks concatenate to the value (`concatVals` skips nil, as
    `concatMaps` does). Value mode accepts the concatenated value; stream mode refuses the nil chunk when
    the mapping is checked and its target cannot be nil — in either order of the two chunks. With an
    unchecked or a nilable target both modes agree on the same chunks. -/
theorem field_mapped_nil_beside_value_disagrees :
    let m : FMapping := { src := "a", dst := "A" }
    let cs : List FChunk := [[("a", .nilV)], [("a", .good "x")]]
    ¬ SplitOK (occ "a" cs) ∧
    concatCols cs ["a"] = .ok [("a", .good "x")] ∧ concatCols cs.reverse ["a"] = .ok [("a", .good "x")] ∧
    fmValue [m] [("a", .good "x")] = .ok [("A", .good "x")] ∧
    fmConcat ["A"] (fmStream true [m] cs) = .error errNotAssignable ∧
    fmConcat ["A"] (fmStream true [m] cs.reverse) = .error errNotAssignable ∧
    fmConcat ["A"] (fmStream true [{ m with checked := false }] cs) = .ok [("A", .good "x")] ∧
    fmConcat ["A"] (fmStream true [{ m with nilable := true }] cs) = .ok [("A", .good "x")] := by
  refine ⟨?_, by decide, by decide, by decide, by decide, by decide, by decide, by decide⟩
  intro h
  rcases h with h | h
  · have := h .nilV (by decide)
    exact absurd this (by decide)
  · exact absurd h (by decide)

/-! non-vacuity: the hypotheses of `field_mapped_chunks_agree` hold for a three-chunk split with a
    string in two pieces, a key per chunk and an unmapped key; a refused value is refused in both modes -/
example : let cs : List FChunk := [[("a", .good "x1")], [("b", .good "y"), ("z", .wrong)], [("a", .good "x2")]]
    (∀ k ∈ ["a", "b", "z"], SplitOK (occ k cs)) ∧ occ "a" cs = [.good "x1", .good "x2"] ∧
    fmConcat ["A", "B"] (fmStream true [{ src := "a", dst := "A" }, { src := "b", dst := "B" }] cs)
      = .ok [("A", .good "x1x2"), ("B", .good "y")] := by
  refine ⟨?_, by rfl, by rfl⟩
  intro k hk
  simp only [List.mem_cons, List.not_mem_nil, or_false] at hk
  rcases hk with rfl | rfl | rfl
  · exact .inl (by decide)
  · exact .inr (by decide)
  · exact .inr (by decide)
example : fmValue [{ src := "a", dst := "A" }] [("a", .nilV)] = .error errNotAssignable ∧
    fmConcat ["A"] (fmStream true [{ src := "a", dst := "A" }] [[("z", .good "q")], [("a", .nilV)]]) = .error errNotAssignable ∧
    fmValue [{ src := "a", dst := "A", checked := false }] [("a", .nilV)] = .ok [("A", .nilV)] := ⟨by rfl, by rfl, by rfl⟩
example : let es : List FEdge := [{ ms := [{ src := "a", dst := "A" }], cs := [[("a", .good "x")], [("z", .nilV)]], keys := ["a", "z"] },
      { ms := [{ src := "b", dst := "B", checked := false }], cs := [[("b", .wrong)]], keys := ["b"] }]
    fmInvokeAll es = .ok [("A", .good "x"), ("B", .wrong)] ∧ fmStreamAll true es = .ok [("A", .good "x"), ("B", .wrong)] ∧
    fmStreamAll false es = .error errNotAssignable := ⟨by rfl, by rfl, by rfl⟩

/-! ### the error VALUE of an error item (`Model/C04ErrItem.lean`): only the bare io.EOF ends a stream -/

/-- fact tie: package compose compares with io.EOF by identity (`err == io.EOF`) — in
    `concatStreamReader`, the one Recv loop of the package, behind every derived paradigm — and
    nowhere through `errors.Is(·, io.EOF)` -/
theorem eof_comparison_fact : FactsC04.composeEOFComparedByIdentity = true := by decide

/-- **error_item_value_irrelevant.** "A failure is reported in every paradigm": an error item that is
    not io.EOF ITSELF is a failure for the framework's concatenation loop whatever the error value is —
    a leaf error, io.ErrUnexpectedEOF, a wrapped context.Canceled, or an error whose `Unwrap` chain
    reaches io.EOF (`rel = .reaches`: `*url.Error{Err: io.EOF}`, `%w` of io.EOF, `errors.Join`, an `Is`
    method) — at any chunk position `pre.length`, whatever follows: the loop (with the comparison the
    source has) sees exactly the chunks before the item and the item, and everything that drains the
    stream fails with it: the concatenation behind Invoke / Collect and every derived paradigm
    (`lazyConcat`), a packed component (`lazyNode`), a plain branch condition (`lazyCond`). -/
theorem error_item_value_irrelevant {V} (co : ChunkOps V) (pre : List V) (rel : EOFRel) (e : Err)
    (rest : List (Item V)) (h : rel ≠ .identical)
    (t : List V → Except Err (List V)) (c : List V → Except Err (List Key)) :
    let s := view FactsC04.composeEOFComparedByIdentity (pre.map Item.chunk ++ Item.fail rel e :: rest)
    s = { chunks := pre, err := some e } ∧
    lazyConcat co s = .error e ∧ lazyNode t s = .error e ∧ lazyCond c s = .error e := by
  rw [eof_comparison_fact, view_identity_fail pre rel e rest h]
  have hr := error_item_reported co ({ chunks := pre, err := some e } : LStream V) e rfl t 0 e c
  exact ⟨rfl, hr.2.2.2, hr.1, hr.2.2.1⟩

/-- **reader_loops_agree.** The framework's loop sees every stream exactly as a caller's
    `err == io.EOF` loop does (the one that drains the readers Stream / Transform hand out): the two
    kinds of paradigms cannot differ in whether an item ends or fails the stream. -/
theorem reader_loops_agree {V} (items : List (Item V)) :
    view FactsC04.composeEOFComparedByIdentity items = view true items := by
  rw [eof_comparison_fact]

/-- negation witness: a loop that ends on `errors.Is(err, io.EOF)` takes a wrapped io.EOF for the end
    of the stream — the concatenation (Invoke, Collect) returns the truncated value as a success while
    a caller draining the same stream (Stream, Transform) gets the failure -/
theorem errors_is_eof_truncates :
    let items : List (Item Nat) := [.chunk 1, .chunk 2, .fail .reaches { cls := .user 7 }, .chunk 4]
    let co : ChunkOps Nat := { concatItems := fun l => .ok l.sum, emptyErr := { cls := .noTasks } }
    lazyConcat co (view false items) = .ok 3 ∧ lazyConcat co (view true items) = .error { cls := .user 7 } ∧
    lazyConcat co (view true [.chunk 1, .chunk 2, .chunk 4]) = .ok 7 := by decide

end EinoV.C04
