/-
  C04 — Invoke, Stream, Collect and Transform of a compiled graph agree.
  Property theorems.  Model: EinoV/Model/C04.lean (packer + adaptors), Engine.lean.
  Source facts: EinoV/Gen/FactsC04.lean (regenerated from /repo on every run).
-/
import EinoV.Model.C04
import EinoV.Proofs.C04
import EinoV.Gen.FactsC04
import EinoV.Expected.C04

namespace EinoV.C04
open EinoV.Engine EinoV.Gen

/-- Source fact tie: the preference lists read from `newRunnablePacker` are the modelled ones,
    and every derived form uses the adaptor named after its (target, source) pair. -/
theorem facts_match : Pref.ofStrings FactsC04.packerPref = Expected.C04.packerPref ∧
    FactsC04.adaptorNamesMatch = true := by decide

/-- **packer_total_and_agree.** Whichever non-empty subset of the four paradigms a component
    natively implements (all 15 subsets), however it splits its output into chunks
    (`chunk`, any function with `concat (chunk v) = v`), the four forms produced by
    `newRunnablePacker` are all defined and agree with the component's function `f`:
    Invoke is `f`; concatenating Stream's chunks gives `f`; Collect is `f` of the concatenated
    input; concatenating Transform's chunks gives `f` of the concatenated input — errors
    included. -/
theorem packer_agree {V} (co : ChunkOps V) (f : V → Except Err V) (chunk : V → List V)
    (hchunk : ∀ v, concat co (chunk v) = .ok v)
    (hasI hasS hasC hasT : Bool) (hne : (hasI || hasS || hasC || hasT) = true) :
    let p := pack co (Pref.ofStrings FactsC04.packerPref) (nativeOf co f chunk hasI hasS hasC hasT)
    (∀ x, p.i x = f x) ∧ (∀ x, (p.s x >>= concat co) = f x) ∧
    (∀ xs, p.c xs = (concat co xs >>= f)) ∧ (∀ xs, (p.t xs >>= concat co) = (concat co xs >>= f)) := by
  rw [facts_match.1]
  have e1 : ∀ (x : Except Err V), (x >>= fun a => concat co (chunk a)) = x := by
    intro x; cases x <;> simp [bind, Except.bind, hchunk]
  have e2 : ∀ (x : Except Err V), (x >>= fun a => concat co [a]) = x := by
    intro x; cases x <;> simp [bind, Except.bind, concat]
  have e3 : ∀ {β} (x : V) (g : V → Except Err β), (Except.ok x >>= g) = g x := fun _ _ => rfl
  have e4 : ∀ {β} (y : Except Err V) (g : V → Except Err β) (k : β → Except Err V),
      (y >>= fun a => g a >>= k) = (y >>= g >>= k) := by
    intro β y g k; cases y <;> rfl
  have e5 : ∀ (x : Except Err V), (x >>= fun a => Except.ok a) = x := by
    intro x; cases x <;> rfl
  cases hasI <;> cases hasS <;> cases hasC <;> cases hasT <;> simp at hne <;>
    simp [pack, nativeOf, pickSource, Native.has, Expected.C04.packerPref, deriveI, deriveS, deriveC, deriveT,
      concat_single, e1, e2, e3, e5] <;>
    (try constructor) <;> intros <;> (try rw [e4, e1]) <;> (try rw [e4, e2]) <;> (try simp [e5])

/-! non-vacuity: a chunker that really splits, on a concrete value type -/
example : concat ({ concatItems := fun l => .ok l.sum, emptyErr := { cls := .noTasks } } : ChunkOps Nat) [1, 2] = .ok 3 := rfl

end EinoV.C04
