/-
  C04 — Invoke, Stream, Collect and Transform of a compiled graph agree.
  Property theorems.  Model: EinoV/Model/C04.lean (packer + adaptors), Engine.lean.
  Source facts: EinoV/Gen/FactsC04.lean (regenerated from /repo on every run).
-/
import EinoV.Model.C04
import EinoV.Proofs.C04
import EinoV.Proofs.EngineHom
import EinoV.Gen.FactsC04
import EinoV.Expected.C04

namespace EinoV.C04
open EinoV.Engine EinoV.Gen

/-- Source fact tie: the preference lists read from `newRunnablePacker` are the modelled ones,
    and every derived form uses the adaptor named after its (target, source) pair. -/
theorem facts_match : Pref.ofStrings FactsC04.packerPref = Expected.C04.packerPref ∧
    FactsC04.adaptorNamesMatch = true := by decide

/-- **packer_total_and_agree.** Whichever non-empty subset of the four paradigms a component
    natively implements (all 15 subsets), however it splits its output into chunks
    (`chunk`, any function with `concat (chunk v) = v`), the four forms produced by
    `newRunnablePacker` are all defined and agree with the component's function `f`:
    Invoke is `f`; concatenating Stream's chunks gives `f`; Collect is `f` of the concatenated
    input; concatenating Transform's chunks gives `f` of the concatenated input — errors
    included. -/
theorem packer_agree {V} (co : ChunkOps V) (f : V → Except Err V) (chunk : V → List V)
    (hchunk : ∀ v, concat co (chunk v) = .ok v)
    (hasI hasS hasC hasT : Bool) (hne : (hasI || hasS || hasC || hasT) = true) :
    let p := pack co (Pref.ofStrings FactsC04.packerPref) (nativeOf co f chunk hasI hasS hasC hasT)
    (∀ x, p.i x = f x) ∧ (∀ x, (p.s x >>= concat co) = f x) ∧
    (∀ xs, p.c xs = (concat co xs >>= f)) ∧ (∀ xs, (p.t xs >>= concat co) = (concat co xs >>= f)) := by
  rw [facts_match.1]
  exact packer_agree_expected co f chunk hchunk hasI hasS hasC hasT hne

/-- **engine_hom (graph level).** Let `h : A → B` map the values of one execution mode to
    those of another (stream mode: chunk lists ↦ their concatenation).  If `h` commutes with
    every node function and every branch condition, and with the fan-in merge, on the values
    satisfying an invariant `P` preserved by node functions and merge, then for every runner
    (any wiring, cycles, branches, fan-in, either trigger mode), every input satisfying `P`
    and corresponding completion schedules, the run in the one mode maps to the run in the
    other: same result or error, same per-step trace up to `h`.  (In all-predecessor mode a
    node may be handed the zero value, which must then satisfy `P` too.) -/
theorem engine_hom {A B : Type} (h : A → B) (P : A → Prop) (tb : Branch A → Branch B) (tn : Node A → Node B)
    (htb : ∀ b, BranchOK h P b (tb b)) (htn : ∀ n, NodeOK h P tb n (tn n))
    (oA : ValOps A) (oB : ValOps B) (hops : OpsOK h P oA oB)
    (r : Runner A) (hz : r.dag = true → P oA.zero) (sA : Sched A) (sB : Sched B)
    (hs : SchedHom h sA sB) (hsub : SchedSub sA) (x : A) (hx : P x) :
    runS oB (r.mapNodes tn) sB (h x) = (runS oA r sA x).mapO h :=
  run_hom h P tb tn htb htn oA oB hops r hz sA sB hs hsub x hx

/-- collecting in submission order on both sides is a pair of corresponding schedules -/
theorem sched_id_hom {A B : Type} (h : A → B) : SchedHom h (Sched.id : Sched A) (Sched.id : Sched B) ∧
    SchedSub (Sched.id : Sched A) := ⟨fun _ _ => rfl, fun _ _ _ hx => hx⟩

/-- **packed_component_node.** A component natively implementing any non-empty subset of the
    four paradigms, put into the graph through `newRunnablePacker` (preference lists as
    regenerated from the source), satisfies the node hypothesis of `engine_hom` with
    `h` = concatenation and `P` = "the stream has at least one chunk": its Transform form run
    on a chunk list concatenates to its Invoke form run on the concatenated input (errors
    included), and it never emits an empty stream. -/
theorem packed_component_node {V} (co : ChunkOps V) (d : V)
    (hct : ∀ l, l ≠ [] → ∃ v, concat co l = .ok v)
    (f : V → Except Err V) (chunk : V → List V)
    (hchunk : ∀ v, concat co (chunk v) = .ok v) (hne : ∀ v, chunk v ≠ [])
    (hasI hasS hasC hasT : Bool) (hany : (hasI || hasS || hasC || hasT) = true) :
    let p := pack co (Pref.ofStrings FactsC04.packerPref) (nativeOf co f chunk hasI hasS hasC hasT)
    (∀ a, a ≠ [] → p.i (concatD co d a) = (p.t a).map (concatD co d)) ∧
    (∀ a a', a ≠ [] → p.t a = .ok a' → a' ≠ []) := by
  rw [facts_match.1]
  exact ⟨fun a ha => packed_component_commutes co d hct f chunk hchunk hne hasI hasS hasC hasT hany a ha,
         fun a a' _ h' => packed_t_nonempty co f chunk hne hasI hasS hasC hasT hany a a' h'⟩

/-- **collect_branch.** A plain branch condition is run in stream mode as `collectByInvoke`
    (concatenate, then the condition): it satisfies the branch hypothesis of `engine_hom`. -/
theorem collect_branch {V} (co : ChunkOps V) (d : V)
    (hct : ∀ l, l ≠ [] → ∃ v, concat co l = .ok v) (ends : List Key) (noData : Bool)
    (cond : V → Except Err (List Key)) :
    BranchOK (concatD co d) (fun a => a ≠ [])
      ({ ends := ends, noData := noData, cond := fun s => concat co s >>= cond } : Branch (List V))
      ({ ends := ends, noData := noData, cond := cond } : Branch V) := by
  refine ⟨rfl, rfl, ?_⟩
  intro a ha
  simp only [concat_eq_concatD co d hct a ha]
  rfl

/-- **nested_graph_node.** A graph used as a node satisfies the node hypothesis of
    `engine_hom` as soon as its own nodes do (the theorem applied to the nested runner), and
    its results keep the invariant when the nested results do. -/
theorem nested_graph_node {A B : Type} (h : A → B) (P : A → Prop) (tb : Branch A → Branch B) (tn : Node A → Node B)
    (htb : ∀ b, BranchOK h P b (tb b)) (htn : ∀ n, NodeOK h P tb n (tn n))
    (oA : ValOps A) (oB : ValOps B) (hops : OpsOK h P oA oB)
    (sub : Runner A) (hz : sub.dag = true → P oA.zero) (a : A) (ha : P a) :
    (runS oB (sub.mapNodes tn) Sched.id (h a)).result = ((runS oA sub Sched.id a).result).map h := by
  rw [engine_hom h P tb tn htb htn oA oB hops sub hz Sched.id Sched.id (sched_id_hom h).1 (sched_id_hom h).2 a ha]
  rfl

/-! non-vacuity: a chunker that really splits, on a concrete value type -/
example : concat ({ concatItems := fun l => .ok l.sum, emptyErr := { cls := .noTasks } } : ChunkOps Nat) [1, 2] = .ok 3 := rfl

end EinoV.C04
