/-
  C10 — Callback handlers fire exactly once per execution, paired, for the right node.
  Property theorems.  Model: EinoV/Model/C10.lean.  Source facts: EinoV/Gen/FactsC10.lean
  (regenerated from /repo on every run).

  The unit machine is run with the facts extracted from the source (`genFacts`); every
  theorem about it holds for every program (unit tree, caller slices with any spare
  capacity, any designated handlers, any timing checkers, any global handlers) and for
  EVERY event list, i.e. every interleaving of the units' context-creation and callback
  steps (events that are not enabled are no-ops).
-/
import EinoV.Model.C10
import EinoV.Model.C10Runs
import EinoV.Proofs.C10
import EinoV.Proofs.C10Runs
import EinoV.Model.C10Share
import EinoV.Proofs.C10Share
import EinoV.Model.C10Builtin
import EinoV.Proofs.C10Builtin
import EinoV.Model.C10Detach
import EinoV.Proofs.C10Detach
import EinoV.Gen.FactsC10
import EinoV.Expected.C10

namespace EinoV.C10
open EinoV.Gen

/-- the unit machine's parameters, as extracted from internal/callbacks/inject.go -/
def genFacts : Facts :=
  ⟨FactsC10.appendHandlersCopies, FactsC10.onCopies, FactsC10.startReversed, FactsC10.initAlwaysInstalls⟩

/-- the compose level's parameters, as extracted from compose/graph_run.go, utils.go, tool_node.go -/
def genCF : CFacts :=
  ⟨FactsC10.runHasDeferredBlock, FactsC10.deferStartsIfMissing, FactsC10.wrapperOnErrorAlways,
   FactsC10.toolRunInfoUnconditional⟩

/-- the parameters of the self-firing built-in components, as extracted from
    components/prompt/chat_template.go, flow/retriever/utils, flow/retriever/router, flow/retriever/multiquery -/
def genBF : BFacts :=
  ⟨FactsC10.tplErrDeferred, FactsC10.tplStartEndUnconditional, FactsC10.taskErrReported, FactsC10.taskPanicReported,
   FactsC10.routeErrReported, FactsC10.routerFusionErrReported, FactsC10.mqFusionErrReported,
   FactsC10.routerDefaultInstalled⟩

/-- Source fact tie: every regenerated fact has the value the theorems (and the oracle) use. -/
theorem facts_match :
    genFacts = Expected.C10.facts ∧
    genCF = Expected.C10.cfacts ∧
    genBF = Expected.C10.bfacts ∧
    FactsC10.startStreamReversed = FactsC10.startReversed ∧
    FactsC10.endForward = Expected.C10.endForward ∧
    FactsC10.streamCopyExtra = Expected.C10.streamCopyExtra ∧
    FactsC10.flowGetsLastCopy = Expected.C10.flowGetsLastCopy ∧
    FactsC10.runHasDeferredBlock = Expected.C10.runHasDeferredBlock ∧
    FactsC10.deferStartsIfMissing = Expected.C10.deferStartsIfMissing ∧
    FactsC10.startSetsFlag = Expected.C10.startSetsFlag ∧
    FactsC10.wrapperStartThenEndOrError = Expected.C10.wrapperStartThenEndOrError ∧
    FactsC10.injectionGuarded = Expected.C10.injectionGuarded ∧
    FactsC10.toolCallOwnRunInfo = Expected.C10.toolCallOwnRunInfo ∧
    FactsC10.wrapperOnErrorAlways = Expected.C10.wrapperOnErrorAlways ∧
    FactsC10.toolRunInfoUnconditional = Expected.C10.toolRunInfoUnconditional ∧
    FactsC10.lambdaNodeOwnsRunnable = Expected.C10.lambdaNodeOwnsRunnable ∧
    FactsC10.nilManagerSilent = Expected.C10.nilManagerSilent := by
  decide

/-- `AppendHandlers` copies the inherited slice before appending (source fact) -/
theorem fact_append_copies : genFacts.appendCopies = true := by decide
/-- `On` does not append the global handlers to `mgr.handlers` in place (source fact) -/
theorem fact_on_copies : genFacts.onCopies = true := by decide
/-- `InitCallbacks` always installs a manager — the nil one when there is nothing to dispatch
    to — and so overwrites whatever the incoming context carried (source fact) -/
theorem fact_init_installs : genFacts.initInstalls = true := by decide

/-! ## handler lists -/

/-- **handlers_exact.** At every moment of every interleaving, the handler list of a unit
    whose context was made with `AppendHandlers` is exactly the parent's list followed by
    the handlers designated to the unit — whatever the siblings did in between, whatever
    the spare capacity of any slice. -/
theorem handlers_exact (P : Prog) (evs : List Ev) (i p : Nat) (d : UnitDecl)
    (hd : P.units[i]? = some d) (hk : d.kind = .append) (hp : d.parent = some p)
    (hs : List Hd) (hcreated : handlersFor (run genFacts P evs) i = some hs) :
    ∃ inherited, handlersFor (run genFacts P evs) p = some inherited ∧ hs = inherited ++ d.desig := by
  have inv := inv_run (P := P) fact_append_copies fact_on_copies fact_init_installs evs
  unfold handlersFor at hcreated ⊢
  cases hc : (run genFacts P evs).ctxs i with
  | none => simp [hc] at hcreated
  | some c =>
    simp only [hc, Option.map_some, Option.some.injEq] at hcreated
    obtain ⟨hlt, cp, hcp⟩ := inv.par i c d p hc hd (by intro s; rw [hk]; simp) hp
    refine ⟨(run genFacts P evs).heap.read cp.slice, by simp [hcp], ?_⟩
    rw [← hcreated, (inv.ctx i c hc).2.1, (inv.ctx p cp hcp).2.1, spec_append_some hd hk hp hlt]

/-- the root forms: no manager in the incoming context → exactly the designated handlers;
    `ReuseHandlers` (tool calls) → exactly the parent's list;
    `InitCallbacks` → exactly the caller's slice. -/
theorem handlers_exact_root (P : Prog) (evs : List Ev) (i : Nat) (d : UnitDecl)
    (hd : P.units[i]? = some d) (hk : d.kind = .append) (hp : d.parent = none)
    (hs : List Hd) (hcreated : handlersFor (run genFacts P evs) i = some hs) : hs = d.desig := by
  have inv := inv_run (P := P) fact_append_copies fact_on_copies fact_init_installs evs
  unfold handlersFor at hcreated
  cases hc : (run genFacts P evs).ctxs i with
  | none => simp [hc] at hcreated
  | some c =>
    simp only [hc, Option.map_some, Option.some.injEq] at hcreated
    rw [← hcreated, (inv.ctx i c hc).2.1, spec_append_none hd hk hp]

theorem handlers_exact_reuse (P : Prog) (evs : List Ev) (i p : Nat) (d : UnitDecl)
    (hd : P.units[i]? = some d) (hk : d.kind = .reuse) (hp : d.parent = some p)
    (hs : List Hd) (hcreated : handlersFor (run genFacts P evs) i = some hs) :
    handlersFor (run genFacts P evs) p = some hs := by
  have inv := inv_run (P := P) fact_append_copies fact_on_copies fact_init_installs evs
  unfold handlersFor at hcreated ⊢
  cases hc : (run genFacts P evs).ctxs i with
  | none => simp [hc] at hcreated
  | some c =>
    simp only [hc, Option.map_some, Option.some.injEq] at hcreated
    obtain ⟨hlt, cp, hcp⟩ := inv.par i c d p hc hd (by intro s; rw [hk]; simp) hp
    simp only [hcp, Option.map_some, Option.some.injEq]
    rw [← hcreated, (inv.ctx i c hc).2.1, (inv.ctx p cp hcp).2.1, spec_reuse_some hd hk hp hlt]

theorem handlers_exact_init (P : Prog) (evs : List Ev) (i : Nat) (d : UnitDecl) (s : Slice)
    (hd : P.units[i]? = some d) (hk : d.kind = .init s)
    (hs : List Hd) (hcreated : handlersFor (run genFacts P evs) i = some hs) : hs = P.arrays.read s := by
  have inv := inv_run (P := P) fact_append_copies fact_on_copies fact_init_installs evs
  unfold handlersFor at hcreated
  cases hc : (run genFacts P evs).ctxs i with
  | none => simp [hc] at hcreated
  | some c =>
    simp only [hc, Option.map_some, Option.some.injEq] at hcreated
    rw [← hcreated, (inv.ctx i c hc).2.1, spec_init hd hk]

/-- **schedule independence.** The list depends on the program only (`spec` is computed
    from the unit tree without any heap). -/
theorem handlers_static (P : Prog) (evs : List Ev) (i : Nat) (hs : List Hd)
    (hcreated : handlersFor (run genFacts P evs) i = some hs) : hs = spec P i := by
  have inv := inv_run (P := P) fact_append_copies fact_on_copies fact_init_installs evs
  unfold handlersFor at hcreated
  cases hc : (run genFacts P evs).ctxs i with
  | none => simp [hc] at hcreated
  | some c =>
    simp only [hc, Option.map_some, Option.some.injEq] at hcreated
    rw [← hcreated, (inv.ctx i c hc).2.1]

/-- the caller's arrays are never written by the callback machinery -/
theorem caller_slices_untouched (P : Prog) (evs : List Ev) (s : Slice) (hs : s.arr < P.arrays.length) :
    (run genFacts P evs).heap.read s = P.arrays.read s := by
  obtain ⟨ext, hext⟩ := (inv_run (P := P) fact_append_copies fact_on_copies fact_init_installs evs).heapPre
  rw [hext, read_prefix _ _ _ hs]

/-! ## dispatch -/

/-- **unit_trace.** In every interleaving the events recorded for unit `i` are exactly: for
    each timing the unit has fired so far, in program order, the handlers of
    `inherited ++ designated ++ global` that need that timing (start timings last to first),
    each with the unit's own run info. -/
theorem unit_trace (P : Prog) (evs : List Ev) (i : Nat) :
    projLog (run genFacts P evs).log i =
      render genFacts.startReversed i (unitInfo P i) (spec P i ++ P.globals)
        ((unitProg P i).take ((run genFacts P evs).pc i)) :=
  (inv_run (P := P) fact_append_copies fact_on_copies fact_init_installs evs).log i

/-- **no_cross_node.** Every callback that is ever delivered goes to a handler of the
    delivering unit's own list (or a global one), with that unit's run info and a timing the
    handler asked for. -/
theorem no_cross_node (P : Prog) (evs : List Ev) (e : LogEv) (he : e ∈ (run genFacts P evs).log) :
    e.h ∈ spec P e.unit ++ P.globals ∧ e.info = unitInfo P e.unit ∧ e.h.needed e.t = true ∧
    e.t ∈ unitProg P e.unit := by
  have h1 := mem_projLog he
  rw [unit_trace] at h1
  obtain ⟨_, a2, a3, a4, a5⟩ := mem_render h1
  exact ⟨a3, a2, a4, List.mem_of_mem_take a5⟩

/-- A handler designated to node `a` only is never invoked for a sibling `b`, however the
    two nodes' steps interleave. -/
theorem no_cross_node_siblings (P : Prog) (evs : List Ev) (b g : Nat) (db : UnitDecl) (h : Hd)
    (hdb : P.units[b]? = some db) (hkb : db.kind = .append) (hpb : db.parent = some g) (hlt : g < b)
    (hnotInherited : h ∉ spec P g) (hnotB : h ∉ db.desig) (hnotGlobal : h ∉ P.globals) :
    ∀ e ∈ (run genFacts P evs).log, e.unit = b → e.h ≠ h := by
  intro e he hu hh
  have := (no_cross_node P evs e he).1
  rw [hu, spec_append_some hdb hkb hpb hlt, hh] at this
  simp only [List.mem_append] at this
  rcases this with (h1 | h1) | h1
  · exact hnotInherited h1
  · exact hnotB h1
  · exact hnotGlobal h1

/-- **fire_once_paired.** A unit whose program is `[s, e]` (one start timing, one of
    end / stream end / error) and that has run to completion delivered, to every handler `h`:
    `s` exactly as many times as `h` occurs in the unit's list (once for a handler passed
    once) if `h` needs `s`, likewise `e`, and no other timing at all. -/
theorem fire_once_paired (P : Prog) (evs : List Ev) (i : Nat) (s e : Timing)
    (hprog : unitProg P i = [s, e]) (hse : s ≠ e)
    (hfin : (run genFacts P evs).pc i = 2) (h : Hd) :
    let log := (run genFacts P evs).log
    let occ := (spec P i ++ P.globals).count h
    countEv log i h s = (if h.needed s then occ else 0) ∧
    countEv log i h e = (if h.needed e then occ else 0) ∧
    ∀ t, t ≠ s → t ≠ e → countEv log i h t = 0 := by
  intro log occ
  have key : ∀ t, countEv log i h t = [s, e].count t * (if h.needed t then occ else 0) := by
    intro t
    rw [countEv_proj, unit_trace, hprog, hfin]
    exact countEv_render _ _ _ _ _ _ _
  refine ⟨?_, ?_, ?_⟩
  · rw [key]
    have : (e == s) = false := by simpa using fun h => hse h.symm
    simp [List.count_cons, this]
  · rw [key]
    have : (s == e) = false := by simpa using hse
    simp [List.count_cons, this]
  · intro t hts hte
    rw [key]
    have h1 : (s == t) = false := by simpa using fun h => hts h.symm
    have h2 : (e == t) = false := by simpa using fun h => hte h.symm
    simp [List.count_cons, h1, h2]

/-- exactly one start and exactly one end for a handler that was passed once and filters nothing -/
theorem fire_once_paired_single (P : Prog) (evs : List Ev) (i : Nat) (s e : Timing)
    (hprog : unitProg P i = [s, e]) (hse : s ≠ e)
    (hfin : (run genFacts P evs).pc i = 2) (h : Hd)
    (honce : (spec P i ++ P.globals).count h = 1) (hall : h.mask = none) :
    countEv (run genFacts P evs).log i h s = 1 ∧ countEv (run genFacts P evs).log i h e = 1 := by
  obtain ⟨a, b, _⟩ := fire_once_paired P evs i s e hprog hse hfin h
  have hn : ∀ t, h.needed t = true := by intro t; simp [Hd.needed, hall]
  simp only [hn, if_true, honce] at a b
  exact ⟨a, b⟩

/-- start callbacks precede the end callback of the same unit: the unit's trace is the start
    block followed by the end block. -/
theorem start_before_end (P : Prog) (evs : List Ev) (i : Nat) (s e : Timing)
    (hprog : unitProg P i = [s, e]) (hfin : (run genFacts P evs).pc i = 2) :
    projLog (run genFacts P evs).log i =
      (dispatch genFacts.startReversed s (spec P i ++ P.globals)).map (fun h => ⟨i, unitInfo P i, h, s⟩) ++
      (dispatch genFacts.startReversed e (spec P i ++ P.globals)).map (fun h => ⟨i, unitInfo P i, h, e⟩) := by
  rw [unit_trace, hprog, hfin]
  simp [render]

/-! ## where the `[start, end-kind]` programs come from -/

/-- **graph level.** On every return path of `runner.run` — including the error returns
    taken before `onGraphStart` was reached — the graph's callbacks are: start exactly once,
    then exactly one of end / stream end / error, matching the outcome. -/
theorem graph_callbacks_once (isStream : Bool) (p : RunPath) :
    runCalls FactsC10.runHasDeferredBlock FactsC10.deferStartsIfMissing isStream p =
      [startT isStream,
       match p with
       | .ok => (if isStream then Timing.endStream else Timing.end_)
       | _ => Timing.error] := by
  have h1 : FactsC10.runHasDeferredBlock = true := by decide
  have h2 : FactsC10.deferStartsIfMissing = true := by decide
  rw [h1, h2]
  cases p <;> cases isStream <;> rfl

/-- **node / tool level.** A component wrapped by `runWithCallbacks` fires start once and
    then exactly one of end / stream end / error; a component that fires its own callbacks is
    not wrapped (the framework adds nothing to what the component does). -/
theorem wrapper_callbacks_once (startStream : Bool) (k : EndKind) (own : List Timing) :
    FactsC10.wrapperStartThenEndOrError = true ∧ FactsC10.injectionGuarded = true ∧
    kindProg genCF (.wrapped startStream k) = [startT startStream, endT k] ∧
    kindProg genCF (.self own) = own := by
  have h : FactsC10.wrapperOnErrorAlways = true := by decide
  refine ⟨by decide, by decide, ?_, rfl⟩
  cases k <;> simp [kindProg, wrapperCalls, genCF, h, endT]

/-- every framework-issued program is one start timing followed by one distinct end timing -/
theorem framework_prog_shape (u : UKind) (hnotSelf : ∀ own, u ≠ .self own) :
    ∃ s e, kindProg genCF u = [s, e] ∧ s.isStart = true ∧ e.isStart = false := by
  cases u with
  | graph isStream p =>
    refine ⟨_, _, graph_callbacks_once isStream p, ?_, ?_⟩
    · cases isStream <;> rfl
    · cases p <;> cases isStream <;> rfl
  | wrapped s k =>
    exact ⟨_, _, (wrapper_callbacks_once s k []).2.2.1, by cases s <;> rfl, by cases k <;> rfl⟩
  | self own => exact absurd rfl (hnotSelf own)

/-! ## the error / interrupt path: a unit that started is finished exactly once -/

/-- `runWithCallbacks` reaches `onError` on every `err != nil` path (source fact: nothing
    returns between the wrapped call and `onError`) -/
theorem fact_wrapper_on_error_always : genCF.wrapperOnErrorAlways = true := by decide
/-- the tool call's context is made with the tool's own RunInfo unconditionally (source fact) -/
theorem fact_tool_run_info_unconditional : genCF.toolOwnInfoAlways = true := by decide

/-- **wrapper_finishes_on_every_path.** Whatever the wrapped function returns — a value, a
    stream, a failure, or an *interrupt* (`InterruptAndRerun`, an error wrapping it, a sub-graph
    interrupt) — a returned `runWithCallbacks` call fired the start callback and then exactly
    the finishing callback of that outcome; for an interrupt that is `OnError`. -/
theorem wrapper_finishes_on_every_path (startStream : Bool) (k : EndKind) :
    wrapperCalls FactsC10.wrapperOnErrorAlways startStream k = [startT startStream, endT k] ∧
    endT .intr = Timing.error := by
  have h : FactsC10.wrapperOnErrorAlways = true := by decide
  rw [h]
  cases k <;> simp [wrapperCalls, endT]

/-- **started_implies_finished_once.** For every unit the framework issues callbacks for (the
    graph on every return path, a wrapped node execution or tool call with every outcome,
    *including the interrupt outcome*), in every interleaving with the other units: once the
    unit has returned, every handler of its list that filters nothing received exactly as many
    start-kind callbacks as it occurs in the list (one, for a handler passed once) and exactly
    as many finishing callbacks (end / stream end / error, all kinds counted together) — never
    a start without a finish, never two finishes. -/
theorem started_implies_finished_once (P : Prog) (evs : List Ev) (i : Nat) (u : UKind)
    (hnotSelf : ∀ own, u ≠ .self own) (hprog : unitProg P i = kindProg genCF u)
    (hfin : (run genFacts P evs).pc i = 2) (h : Hd) (hall : h.mask = none) :
    countStart (run genFacts P evs).log i h = (spec P i ++ P.globals).count h ∧
    countFinish (run genFacts P evs).log i h = (spec P i ++ P.globals).count h := by
  obtain ⟨s, e, hk, hs, he⟩ := framework_prog_shape u hnotSelf
  rw [hk] at hprog
  have hse : s ≠ e := by intro heq; rw [heq, he] at hs; cases hs
  obtain ⟨a, b, c⟩ := fire_once_paired P evs i s e hprog hse hfin h
  have hn : ∀ t, h.needed t = true := by intro t; simp [Hd.needed, hall]
  simp only [hn, if_true] at a b
  unfold countStart countFinish
  cases s <;> simp [Timing.isStart] at hs <;> cases e <;> simp [Timing.isStart] at he <;>
    simp [a, b, c]

/-- the interrupt outcome specifically: the finishing callback is `OnError`, exactly once -/
theorem interrupted_unit_gets_error_once (P : Prog) (evs : List Ev) (i : Nat) (startStream : Bool)
    (hprog : unitProg P i = kindProg genCF (.wrapped startStream .intr))
    (hfin : (run genFacts P evs).pc i = 2) (h : Hd) (hall : h.mask = none)
    (honce : (spec P i ++ P.globals).count h = 1) :
    countEv (run genFacts P evs).log i h (startT startStream) = 1 ∧
    countEv (run genFacts P evs).log i h .error = 1 ∧
    countEv (run genFacts P evs).log i h .end_ = 0 ∧
    countEv (run genFacts P evs).log i h .endStream = 0 := by
  rw [(wrapper_callbacks_once startStream .intr []).2.2.1] at hprog
  have hse : startT startStream ≠ endT .intr := by cases startStream <;> simp [startT, endT]
  obtain ⟨a, b, c⟩ := fire_once_paired P evs i _ _ hprog hse hfin h
  have hn : ∀ t, h.needed t = true := by intro t; simp [Hd.needed, hall]
  simp only [hn, if_true, honce] at a b
  refine ⟨a, b, c _ ?_ ?_, c _ ?_ ?_⟩ <;> cases startStream <;> simp [startT, endT]

/-- **run_units_paired.** In the interrupted run *and* in the run resumed from the checkpoint,
    every execution unit — the called graph, nested graphs, node executions, ToolsNodes, tool
    calls, whether it completes, interrupts, or contains something that interrupts, whether the
    framework or the component itself fires the callbacks — has the program "one start, then
    one finishing callback"; and in the resumed run nothing ends with the interrupt outcome. -/
theorem run_units_paired (sh : Shape) (first : Bool) (u : UnitSpec) (hu : u ∈ runUnits sh first) :
    (∃ s e, kindProg genCF u.kind = [s, e] ∧ s.isStart = true ∧ e.isStart = false) ∧
    (first = false → u.kind.isInterrupt = false) := by
  refine ⟨paired_runUnits (cf := genCF) (by decide) (by decide) (by decide) sh first u hu, ?_⟩
  intro hf
  subst hf
  exact resumed_runUnits sh u hu

/-! ## a resume whose restore is refused -/

/-- **restore_failure_reports_start_once.** A graph execution that fails while a checkpoint is
    being restored — wherever the failing step lies relative to the place where the body calls
    `onGraphStart` — reports exactly: start once, then error.  (Source facts: the deferred block, its
    `if !haveOnStart { onGraphStart }`, and every `onGraphStart` of the body being followed at once
    by `haveOnStart = true`.) -/
theorem restore_failure_reports_start_once (isStream startedBefore : Bool) :
    restoreFailCalls FactsC10.startSetsFlag FactsC10.runHasDeferredBlock FactsC10.deferStartsIfMissing
      isStream startedBefore = [startT isStream, Timing.error] := by
  have h1 : FactsC10.startSetsFlag = true := by decide
  have h2 : FactsC10.runHasDeferredBlock = true := by decide
  have h3 : FactsC10.deferStartsIfMissing = true := by decide
  rw [h1, h2, h3]
  cases startedBefore <;> rfl

/-- **refused_resume_units_paired.** In a resumed call whose restore is refused — by the
    caller's state modifier for the called graph or for a nested graph that interrupted — every
    unit that executes (the refused graph: one start, one error; for a nested refusal also the
    called graph and the other re-run nodes, tools nodes and tool calls) has the program "one
    start, then one finishing callback"; the refused graph's is `[start, error]`. -/
theorem refused_resume_units_paired (sh : Shape) (w : ResumeFail) (u : UnitSpec) (hu : u ∈ failedResumeUnits sh w) :
    (∃ s e, kindProg genCF u.kind = [s, e] ∧ s.isStart = true ∧ e.isStart = false) ∧
    kindProg genCF (.graph sh.stream .earlyErr) = [startT sh.stream, Timing.error] :=
  ⟨paired_failedResumeUnits (cf := genCF) (by decide) (by decide) (by decide) sh w u hu,
   graph_callbacks_once sh.stream .earlyErr⟩

/-! ## run info of a tool call -/

/-- **tool_call_run_info_own.** Every callback delivered by a unit of a compose run — in
    particular by a tool call of a ToolsNode, and in particular by a tool that implements
    `IsCallbacksEnabled` and fires `callbacks.OnStart / OnEnd / OnEndWithStreamOutput / OnError`
    itself — carries that unit's own RunInfo (for a tool: its name, type and component), never
    the ToolsNode's. -/
theorem tool_call_run_info_own (c : Case) (evs : List Ev) (k : Nat) (u : UnitSpec)
    (hu : c.units[k]? = some u) (e : LogEv)
    (he : e ∈ (run genFacts (progOf genCF c) evs).log) (hunit : e.unit = k + shiftOf c) :
    e.info = u.info := by
  rw [(no_cross_node _ evs e he).2.1, hunit]
  exact unitInfo_progOf fact_tool_run_info_unconditional c k u hu

/-! ## run info of a Lambda node whose Lambda value is used under several node keys -/

/-- `toLambdaNode` gives every graph node a runnable of its own (source fact) -/
theorem fact_lambda_node_owns_runnable : FactsC10.lambdaNodeOwnsRunnable = true := by decide

/-- **lambda_node_run_info_own.** One `*compose.Lambda` value may be added under any number of
    node keys, to any number of graphs / chains / workflows, with or without input / output
    keys (`ns`: all declarations, `d.lam < ls.length`: each names a Lambda of the pool), and the
    graphs may be compiled in any order, any number of times, their nodes in any (map
    iteration) order (`order`: any list of node indices).  The RunInfo a compiled node's
    callbacks carry at run time is the one of the node's OWN declaration: its `WithNodeName`,
    and the type and component of the Lambda it names — "with that unit's run info". -/
theorem lambda_node_run_info_own (ls : List LamD) (ns : List NodeD) (hwf : ∀ d ∈ ns, d.lam < ls.length)
    (order : List Nat) (i : Nat) (d : NodeD) (hd : ns[i]? = some d) (hi : i ∈ order) :
    runInfo ls (compileAll FactsC10.lambdaNodeOwnsRunnable ls.length ns order) i = some (declInfo ls d) := by
  rw [fact_lambda_node_owns_runnable]
  obtain ⟨hn, hl⟩ := own_name_of_owns hwf order i d hd hi
  simp [runInfo, hn, hl, declInfo]

/-- **lambda_node_run_info_independent.** The run info of a node is a function of its own
    declaration only: it is the same in any two cases in which the node is declared alike,
    whatever other nodes share its Lambda value, whatever was compiled before or after. -/
theorem lambda_node_run_info_independent (ls : List LamD) (ns ns' : List NodeD)
    (hwf : ∀ d ∈ ns, d.lam < ls.length) (hwf' : ∀ d ∈ ns', d.lam < ls.length)
    (order order' : List Nat) (i i' : Nat) (d : NodeD)
    (hd : ns[i]? = some d) (hd' : ns'[i']? = some d) (hi : i ∈ order) (hi' : i' ∈ order') :
    runInfo ls (compileAll FactsC10.lambdaNodeOwnsRunnable ls.length ns order) i =
    runInfo ls (compileAll FactsC10.lambdaNodeOwnsRunnable ls.length ns' order') i' := by
  rw [lambda_node_run_info_own ls ns hwf order i d hd hi, lambda_node_run_info_own ls ns' hwf' order' i' d hd' hi']

/-- **lambda_node_callbacks_carry_declared_info.** In a run of a graph whose `k`-th unit is
    the execution of Lambda node `i`, every callback that unit delivers — in every
    interleaving — carries the run info of node `i`'s own declaration. -/
theorem lambda_node_callbacks_carry_declared_info (ls : List LamD) (ns : List NodeD)
    (hwf : ∀ d ∈ ns, d.lam < ls.length) (order : List Nat) (i : Nat) (d : NodeD)
    (hd : ns[i]? = some d) (hi : i ∈ order)
    (c : Case) (evs : List Ev) (k : Nat) (su : ShareUnit) (hsu : su.node = some i)
    (hu : c.units[k]? = some (shareUnit ls ns (compileAll FactsC10.lambdaNodeOwnsRunnable ls.length ns order) su))
    (e : LogEv) (he : e ∈ (run genFacts (progOf genCF c) evs).log) (hunit : e.unit = k + shiftOf c) :
    e.info = declInfo ls d := by
  rw [tool_call_run_info_own c evs k _ hu e he hunit]
  simp [shareUnit, hsu, lambda_node_run_info_own ls ns hwf order i d hd hi]

/-! ## built-in components that fire their own callbacks, faulting at each point -/

/-- every error / panic path of `DefaultChatTemplate.Format`, `ConcurrentRetrieveWithCallback`,
    the router retriever's Router and FusionFunc stages and the multi-query retriever's FusionFunc
    stage reports the unit's end, and the router retriever runs the router it computed
    (source facts) -/
theorem fact_builtin_report_every_path : genBF = BFacts.good := by decide

/-- **paired_unit_finished_once.** Any unit — whoever issues its callbacks — whose program is
    one start-kind timing followed by one finishing timing: once it has fired both, in every
    interleaving with the other units, every handler of its list that filters nothing received
    exactly as many start-kind callbacks as it occurs in the list and exactly as many finishing
    callbacks (end / stream end / error counted together). -/
theorem paired_unit_finished_once (P : Prog) (evs : List Ev) (i : Nat) (s e : Timing)
    (hprog : unitProg P i = [s, e]) (hs : s.isStart = true) (he : e.isStart = false)
    (hfin : (run genFacts P evs).pc i = 2) (h : Hd) (hall : h.mask = none) :
    countStart (run genFacts P evs).log i h = (spec P i ++ P.globals).count h ∧
    countFinish (run genFacts P evs).log i h = (spec P i ++ P.globals).count h := by
  have hse : s ≠ e := by intro heq; rw [heq, he] at hs; cases hs
  obtain ⟨a, b, c⟩ := fire_once_paired P evs i s e hprog hse hfin h
  have hn : ∀ t, h.needed t = true := by intro t; simp [Hd.needed, hall]
  simp only [hn, if_true] at a b
  unfold countStart countFinish
  cases s <;> simp [Timing.isStart] at hs <;> cases e <;> simp [Timing.isStart] at he <;>
    simp [a, b, c]

/-- **template_callbacks_once.** `DefaultChatTemplate.Format` with the regenerated fact: for
    EVERY list of message templates and whichever of them fail to format (a missing variable, a
    missing or ill-typed placeholder value, a template that does not parse, a failing custom
    `MessagesTemplate` — at the first, a middle or the last position), the component fires the
    start callback and then exactly one finishing callback: `OnError` iff some message template
    fails, `OnEnd` otherwise.  Nobody else reports this unit (`wrapper_callbacks_once`: the
    framework adds nothing to a component that fires its own callbacks). -/
theorem template_callbacks_once (fails : List Bool) :
    tplCalls FactsC10.tplErrDeferred fails =
      [Timing.start, if fails.any id then Timing.error else Timing.end_] ∧
    FactsC10.tplStartEndUnconditional = true := by
  have h : FactsC10.tplErrDeferred = true := by decide
  rw [h]
  exact ⟨tplCalls_good fails, by decide⟩

/-- **retrieve_task_callbacks_once.** One task of `ConcurrentRetrieveWithCallback` — the
    retriever returns documents, returns an error, or panics — fires start and then exactly one
    of end / error; likewise each stage (Router, FusionFunc) of the router and multi-query
    retrievers, whether its function fails or not. -/
theorem retrieve_task_callbacks_once (o : TaskOut) (fails : Bool) :
    taskCalls genBF o = [Timing.start, if o.failed then Timing.error else Timing.end_] ∧
    stageCalls FactsC10.routeErrReported fails = [Timing.start, if fails then Timing.error else Timing.end_] ∧
    stageCalls FactsC10.routerFusionErrReported fails = [Timing.start, if fails then Timing.error else Timing.end_] ∧
    stageCalls FactsC10.mqFusionErrReported fails = [Timing.start, if fails then Timing.error else Timing.end_] := by
  rw [fact_builtin_report_every_path]
  have h1 : FactsC10.routeErrReported = true := by decide
  have h2 : FactsC10.routerFusionErrReported = true := by decide
  have h3 : FactsC10.mqFusionErrReported = true := by decide
  rw [h1, h2, h3]
  exact ⟨taskCalls_good o, stageCalls_good fails, stageCalls_good fails, stageCalls_good fails⟩

/-- **builtin_units_paired.** For every shape of the family (chat-template nodes with any
    message templates, router retrievers with any route outcome / selected retrievers / fusion,
    multi-query retrievers with a rewriting handler or the LLM chain containing a chat template
    of its own, plain lambdas, nested graphs), with a fault at ANY point — any message template,
    the router function, any retriever failing or panicking, the fusion function, the rewriting
    chain's model or parser — every execution unit of the run (the called graph, nested graphs,
    the nodes, the stages and tasks inside a retriever, the rewriting chain and its nodes) has
    the program "one start, then one finishing callback". -/
theorem builtin_units_paired (sh : BShape) (u : UnitSpec) (hu : u ∈ bUnits genBF sh) :
    ∃ s e, kindProg genCF u.kind = [s, e] ∧ s.isStart = true ∧ e.isStart = false := by
  rw [fact_builtin_report_every_path] at hu
  exact paired_bUnits (cf := genCF) (by decide) (by decide) (by decide) sh u hu

/-- a chat-template node of the called graph is a unit of the run, reported by the component
    itself with the node's run info: start, then error iff one of its message templates fails -/
theorem template_node_unit (sh : BShape) (key : String) (fails : List Bool)
    (hn : BTop.node (.tpl key fails) ∈ sh.nodes) :
    (⟨[key], false, tplInfo (nodeName [key]),
      .self [Timing.start, if fails.any id then Timing.error else Timing.end_], true⟩ : UnitSpec) ∈ bUnits genBF sh := by
  rw [fact_builtin_report_every_path]
  simp only [bUnits, List.mem_cons, List.mem_append, List.mem_flatMap]
  refine Or.inr (Or.inl ⟨_, hn, ?_⟩)
  simp [bTopUnits, bNodeUnits, BFacts.good, tplCalls_good]

/-- **builtin_started_implies_finished_once.** In a run over any shape of the family, with
    handlers supplied in any way (`c`: global, caller context, options, designated), in every
    interleaving of the units' steps: once a unit has fired its program, every handler of its
    list that filters nothing got exactly as many start callbacks as it occurs in the list and
    exactly as many finishing callbacks — also when the unit is a self-firing component whose
    formatting / routing / retrieving / fusing failed. -/
theorem builtin_started_implies_finished_once (sh : BShape) (c : Case) (hc : c.units = bUnits genBF sh)
    (evs : List Ev) (k : Nat) (u : UnitSpec) (hu : c.units[k]? = some u)
    (hfin : (run genFacts (progOf genCF c) evs).pc (k + shiftOf c) = 2) (h : Hd) (hall : h.mask = none) :
    countStart (run genFacts (progOf genCF c) evs).log (k + shiftOf c) h =
      (spec (progOf genCF c) (k + shiftOf c) ++ (progOf genCF c).globals).count h ∧
    countFinish (run genFacts (progOf genCF c) evs).log (k + shiftOf c) h =
      (spec (progOf genCF c) (k + shiftOf c) ++ (progOf genCF c).globals).count h := by
  have hmem : u ∈ bUnits genBF sh := by rw [← hc]; exact List.mem_of_getElem? hu
  obtain ⟨s, e, hk, hs, he⟩ := builtin_units_paired sh u hmem
  have hprog := unitProg_progOf genCF c k u hu
  rw [hk] at hprog
  exact paired_unit_finished_once _ evs _ s e hprog hs he hfin h hall

/-! ## work that user code inside a node detaches from the run's callback context -/

/-- **detached_context_overwrites.** A context made with `callbacks.InitCallbacks(ctx, info, s...)`
    — whatever `ctx` is: a fresh context or the context of a unit of the run (`d.parent`), whatever
    handlers and run info that context carries, in every interleaving — has exactly the handlers
    `s` (none, if none were passed) and every event fired under it carries `info`. -/
theorem detached_context_overwrites (P : Prog) (evs : List Ev) (i : Nat) (d : UnitDecl) (s : Slice)
    (hd : P.units[i]? = some d) (hk : d.kind = .init s) :
    (∀ hs, handlersFor (run genFacts P evs) i = some hs → hs = P.arrays.read s) ∧
    (∀ e ∈ (run genFacts P evs).log, e.unit = i → e.info = d.info ∧ (e.h ∈ P.arrays.read s ∨ e.h ∈ P.globals)) := by
  refine ⟨fun hs hc => handlers_exact_init P evs i d s hd hk hs hc, ?_⟩
  intro e he hu
  obtain ⟨h1, h2, _, _⟩ := no_cross_node P evs e he
  rw [hu] at h1 h2
  rw [spec_init hd hk, List.mem_append] at h1
  exact ⟨by rw [h2]; exact unitInfo_of hd, h1⟩

/-- **no_leak_below_detached.** "A handler attached to one node is never invoked for [work
    detached from it]": let `i` be a context made with `InitCallbacks` (zero handlers or its own
    handlers `s`) on top of ANY context of the run, and `j` any unit below it — `i` itself, a
    `ReuseHandlers` context, an inner graph invoked under it, that graph's nodes and tool calls, to
    any depth.  A handler `h` that is not among `s`, not global, and not attached at one of the
    steps below `i` (e.g. a handler designated to the surrounding node, or passed to the outer
    call) is never invoked for `j`, in any interleaving of all units of the run. -/
theorem no_leak_below_detached (P : Prog) (evs : List Ev) (i : Nat) (d : UnitDecl) (s : Slice)
    (hd : P.units[i]? = some d) (hk : d.kind = .init s) (j : Nat) (hb : Below P i j) (h : Hd)
    (hnotOwn : h ∉ P.arrays.read s) (hnotGlobal : h ∉ P.globals)
    (hnotInside : ∀ k dk, Below P i k → P.units[k]? = some dk → dk.kind = .append → h ∉ dk.desig) :
    ∀ e ∈ (run genFacts P evs).log, e.unit = j → e.h ≠ h := by
  intro e he hu hh
  have h1 := (no_cross_node P evs e he).1
  rw [hu, hh, List.mem_append] at h1
  rcases h1 with h1 | h1
  · rcases spec_below_init hd hk hb h h1 with h2 | ⟨k, dk, hbk, _, hdk, hkk, hin⟩
    · exact hnotOwn h2
    · exact hnotInside k dk hbk hdk hkk hin
  · exact hnotGlobal h1

/-- a context made with `InitCallbacks(ctx, info)` — no handlers — in a process without global
    handlers is silent: no handler at all is invoked for what is fired under it -/
theorem detached_without_handlers_is_silent (P : Prog) (evs : List Ev) (i : Nat) (d : UnitDecl) (s : Slice)
    (hd : P.units[i]? = some d) (hk : d.kind = .init s) (hempty : P.arrays.read s = []) (hg : P.globals = []) :
    projLog (run genFacts P evs).log i = [] := by
  rw [unit_trace, spec_init hd hk, hempty, hg, List.append_nil]
  generalize (unitProg P i).take ((run genFacts P evs).pc i) = ts
  induction ts with
  | nil => rfl
  | cons t ts ih => simp [render, dispatch, ih]

/-- **run_units_once_whatever_nodes_detach.** In a run whose nodes derive contexts with
    `InitCallbacks` (without / with handlers of their own) and `ReuseHandlers` in any chain and fire
    callbacks, run self-firing components or invoke inner graphs under them (`sh`: any number of
    nodes, work items and derivations), every unit of the run itself — the called graph, each node,
    `join` — delivers to every handler of its own list that filters nothing exactly as many start
    callbacks as the handler occurs in the list (one, if passed once) and exactly as many
    finishing callbacks, in every interleaving with everything else, detached work included:
    nothing fired under a derived context is reported as the node's. -/
theorem run_units_once_whatever_nodes_detach (globals : List Hd) (userInit : Option (List Hd × Nat))
    (opts : List Opt) (sh : DShape) (evs : List Ev) (k : Nat) (u : UnitSpec) (hu : (dBaseUnits sh)[k]? = some u)
    (h : Hd) (hall : h.mask = none) :
    let P := detProg genCF globals userInit opts sh
    let i := k + (if userInit.isSome then 1 else 0)
    (run genFacts P evs).pc i = 2 →
    countStart (run genFacts P evs).log i h = (spec P i ++ P.globals).count h ∧
    countFinish (run genFacts P evs).log i h = (spec P i ++ P.globals).count h := by
  intro P i hfin
  have hprog := unitProg_detProg genCF globals userInit opts sh k u hu
  have hnotSelf : ∀ own, u.kind ≠ .self own := by
    have hm := List.mem_of_getElem? hu
    simp only [dBaseUnits, List.mem_cons, List.mem_append, List.mem_map] at hm
    rcases hm with rfl | ⟨n, _, rfl⟩ | hj
    · intro own hc; cases hc
    · intro own hc; cases hc
    · split at hj
      · simp at hj
      · simp only [List.mem_singleton] at hj
        subst hj
        intro own hc; cases hc
  obtain ⟨s, e, hk, hs, he⟩ := framework_prog_shape u.kind hnotSelf
  rw [hk] at hprog
  exact paired_unit_finished_once P evs i s e hprog hs he hfin h hall

/-! ## stream payload copies -/

/-- each handler gets its own copy and the flow continues with yet another one -/
theorem stream_copies_distinct (n : Nat) (hn : 0 < n) :
    let a := assignCopies FactsC10.streamCopyExtra n
    a.1 = List.range n ∧ a.2.1 = some n ∧ a.2.2 = n + 1 ∧ n ∉ a.1 := by
  have h1 : FactsC10.streamCopyExtra = 1 := by decide
  have h2 : FactsC10.flowGetsLastCopy = true := by decide
  rw [h1]
  have : n ≠ 0 := by omega
  simp [assignCopies, this]

/-- **payload_independent.** Whatever the handlers do with their copies (read fully, read
    partially, close at once, in any interleaving with each other), the copy the flow keeps
    delivers exactly the original item sequence. -/
theorem payload_independent (items : List Nat) (n flow : Nat) (hflow : flow < n) (ops : List ROp)
    (hothers : ∀ op ∈ ops, op.reader ≠ flow) :
    (ops.foldl Copies.apply (Copies.mk' items n)).drain flow items.length = items :=
  drain_after_others items n flow hflow ops hothers

/-! ## non-vacuity -/

def h (n : Nat) : Hd := ⟨n, none⟩

/-- three graph-level handlers in three options (slice len 3 cap 4), one global handler, two
    parallel nodes with one designated handler each, a tool call below node B -/
def exCase : Case :=
  { globals := [h 9], userInit := none,
    opts := [⟨[h 1], []⟩, ⟨[h 2], []⟩, ⟨[h 3], []⟩, ⟨[h 4], [["A"]]⟩, ⟨[⟨5, some 3⟩], [["B"]]⟩],
    units := [⟨[], false, "g", .graph false .ok, true⟩, ⟨["A"], false, "A", .wrapped false .ok, false⟩,
              ⟨["B"], false, "B", .wrapped false .err, false⟩, ⟨["B", "t"], true, "t", .wrapped false .ok, false⟩] }

def exProg : Prog := progOf ⟨true, true, true, true⟩ exCase

example : (buildCbs exCase.opts).2 = ⟨2, 0, 3, 4⟩ := by decide
example : (exProg.units.map (·.parent)) = [none, some 0, some 0, some 2] := by decide
example : spec exProg 1 = [h 1, h 2, h 3, h 4] := by
  rw [spec_append_some (d := ⟨some 0, .append, [h 4], "A", [.start, .end_]⟩) (p := 0) (by rfl) rfl rfl (by decide),
      spec_init (d := ⟨none, .init ⟨2, 0, 3, 4⟩, [], "g", [.start, .end_]⟩) (s := ⟨2, 0, 3, 4⟩) (by rfl) rfl]
  decide
/-- the interleaving A.init, B.init, A.start, B.start, A.end, B.error completes both nodes -/
example : let st := run ⟨true, true, true, true⟩ exProg [.mk 0, .step 0, .mk 1, .mk 2, .step 1, .step 2, .step 1, .step 2]
    st.pc 1 = 2 ∧ st.pc 2 = 2 ∧
    handlersFor st 1 = some [h 1, h 2, h 3, h 4] ∧ handlersFor st 2 = some [h 1, h 2, h 3, ⟨5, some 3⟩] ∧
    (projLog st.log 2).map (fun e => (e.h.id, e.t)) =
      [(9, .start), (5, .start), (3, .start), (2, .start), (1, .start),
       (1, .error), (2, .error), (3, .error), (9, .error)] := by decide

/-! ## negations: what goes wrong with the other value of each fact -/

/-- **The defect of the unfixed tree** (`appendHandlersCopies = false`): with three
    graph-level handlers passed in three options (len 3, cap 4) and two parallel nodes with
    one designated handler each, in *either* order of the two nodes' init steps one node ends
    up with the other node's handler in its list … -/
theorem cross_node_with_inplace_append :
    ∀ evs ∈ [[Ev.mk 0, .mk 1, .mk 2], [Ev.mk 0, .mk 2, .mk 1]],
      handlersFor (run ⟨false, false, true, true⟩ exProg evs) 1 ≠ some [h 1, h 2, h 3, h 4] ∨
      handlersFor (run ⟨false, false, true, true⟩ exProg evs) 2 ≠ some [h 1, h 2, h 3, ⟨5, some 3⟩] := by
  decide

/-- … and the handler designated to node A only is delivered with node B's run info. -/
theorem cross_node_event_with_inplace_append :
    (⟨2, "B", h 4, .start⟩ : LogEv) ∈
      (run ⟨false, false, true, true⟩ exProg [.mk 0, .step 0, .mk 2, .mk 1, .step 1, .step 2]).log := by
  decide

/-- `On` appending the global handlers to `mgr.handlers` in place (`onCopies = false`), even
    with a copying `AppendHandlers`: two contexts the caller built over one backing array
    (`hs[:3]` and `hs[:4]`); firing a callback on the first overwrites `hs[3]` with the global
    handler, so the second unit delivers to the global handler twice and never to `hs[3]`. -/
theorem caller_slice_scribbled_with_inplace_on :
    let P : Prog := ⟨[[h 1, h 2, h 3, h 4]], [h 9],
      [⟨none, .init ⟨0, 0, 3, 4⟩, [], "u0", [.start]⟩, ⟨none, .init ⟨0, 0, 4, 4⟩, [], "u1", [.start]⟩]⟩
    let st := run ⟨true, false, true, true⟩ P [.mk 0, .mk 1, .step 0, .step 1]
    handlersFor st 1 = some [h 1, h 2, h 3, h 9] ∧
    (projLog st.log 1).map (fun e => e.h.id) = [9, 9, 3, 2, 1] := by
  decide

/-- **The early return before `onError`** (`wrapperOnErrorAlways = false`): a node execution or
    tool call that interrupts gets its start callback and nothing else … -/
theorem interrupt_unpaired_with_early_return (startStream : Bool) :
    wrapperCalls false startStream .intr = [startT startStream] := rfl

/-- a ToolsNode `T` with one tool `t` that fires its own callbacks, one graph-level handler -/
def toolCase : Case :=
  { globals := [], userInit := none, opts := [⟨[h 1], []⟩],
    units := [⟨[], false, "g", .graph false .ok, true⟩, ⟨["T"], false, "T", .wrapped false .ok, false⟩,
              ⟨["T", "t"], true, "t", .self [.start, .end_], true⟩] }

/-- … and on the unit machine: the node that interrupts in `exCase`-like runs delivers one
    start and no finishing callback to the graph-level handler. -/
theorem interrupt_unpaired_on_machine :
    let c : Case := { toolCase with units := [⟨[], false, "g", .graph false .lateErr, true⟩,
                                              ⟨["A"], false, "A", .wrapped false .intr, false⟩] }
    let P := progOf ⟨true, true, false, true⟩ c
    (projLog (run ⟨true, true, true, true⟩ P (seqSchedule P)).log 1).map (fun e => (e.h.id, e.t)) = [(1, .start)] := by
  decide

/-- **Tool calls made in the ToolsNode's own context** (`toolRunInfoUnconditional = false`): the
    callbacks a callback-enabled tool fires are delivered with the ToolsNode's RunInfo. -/
theorem tool_fires_under_toolsnode_info_when_conditional :
    let P := progOf ⟨true, true, true, false⟩ toolCase
    (⟨2, "T", h 1, .start⟩ : LogEv) ∈ (run ⟨true, true, true, true⟩ P (seqSchedule P)).log ∧
    ∀ e ∈ (run ⟨true, true, true, true⟩ P (seqSchedule P)).log, e.info ≠ "t" := by
  decide

/-- with the facts of the source the same tool's callbacks carry its own RunInfo -/
example : let P := progOf ⟨true, true, true, true⟩ toolCase
    (projLog (run ⟨true, true, true, true⟩ P (seqSchedule P)).log 2).map (fun e => (e.info, e.t)) =
      [("t", .start), ("t", .end_)] := by decide

/-- non-vacuity of `run_units_paired`: a lambda that interrupts next to a ToolsNode one of whose
    two tools (callback-enabled) interrupts; first run: 5 units + no join; resumed run: the same
    units run again, then `join` -/
def exShape : Shape :=
  ⟨false, [.inner (.lam "A" .i false true),
           .inner (.tools "T" [⟨"t1", true, false, true, true⟩, ⟨"t2", false, true, false, false⟩])]⟩

example : (runUnits exShape true).map (fun u => (u.info, kindProg ⟨true, true, true, true⟩ u.kind)) =
    [("G||Graph", [.start, .error]), ("n:A|Li|Lambda", [.start, .error]), ("n:T||ToolsNode", [.start, .error]),
     ("t1|Tt1|Tool", [.start, .error]), ("t2|Tt2|Tool", [.start, .endStream])] := by decide
example : (runUnits exShape false).map (fun u => (u.info, kindProg ⟨true, true, true, true⟩ u.kind)) =
    [("G||Graph", [.start, .end_]), ("n:A|Li|Lambda", [.start, .end_]), ("n:T||ToolsNode", [.start, .end_]),
     ("t1|Tt1|Tool", [.start, .end_]), ("t2|Tt2|Tool", [.start, .endStream]), ("n:join|Li|Lambda", [.start, .end_])] := by decide

/-- **One runnable shared by all nodes of a Lambda value** (`lambdaNodeOwnsRunnable = false`,
    the code before the fix): the same Lambda under the keys `a` (name "A") and `b` (name "B"),
    no input / output keys.  Whichever node is compiled last wins: both nodes report its name. -/
def shareLs : List LamD := [⟨.i, false, "T"⟩]
def shareNs : List NodeD := [⟨0, "A", false⟩, ⟨0, "B", false⟩]

theorem lambda_node_reports_foreign_name_when_shared :
    runInfo shareLs (compileAll false 1 shareNs [0, 1]) 0 = some "B|T|Lambda" ∧
    runInfo shareLs (compileAll false 1 shareNs [1, 0]) 1 = some "A|T|Lambda" ∧
    declInfo shareLs ⟨0, "A", false⟩ = "A|T|Lambda" := by
  decide

/-- with the facts of the source both orders give every node its own name; a node with an
    input / output key reports its own name even over a shared runnable (the wrapper is a copy
    taken at the node's own compile step) -/
example : (runInfo shareLs (compileAll true 1 shareNs [0, 1]) 0, runInfo shareLs (compileAll true 1 shareNs [0, 1]) 1,
           runInfo shareLs (compileAll true 1 shareNs [1, 0]) 0, runInfo shareLs (compileAll true 1 shareNs [1, 0]) 1) =
    (some "A|T|Lambda", some "B|T|Lambda", some "A|T|Lambda", some "B|T|Lambda") := by decide
example : let ns : List NodeD := [⟨0, "A", true⟩, ⟨0, "B", true⟩, ⟨0, "C", false⟩]
    (runInfo shareLs (compileAll false 1 ns [0, 1, 2]) 0, runInfo shareLs (compileAll false 1 ns [0, 1, 2]) 1,
     runInfo shareLs (compileAll false 1 ns [2, 1, 0]) 0, runInfo shareLs (compileAll false 1 ns [2, 1, 0]) 2) =
    (some "A|T|Lambda", some "B|T|Lambda", some "A|T|Lambda", some "A|T|Lambda") := by decide

/-- **The deferred error report that never sees the error** (`tplErrDeferred = false`: e.g. the
    named results of `Format` replaced by a local `err` that the loop's `msgs, err :=` shadows):
    a chat template one of whose message templates fails fires the start callback only … -/
theorem template_error_unreported_when_shadowed (fails : List Bool) (hf : fails.any id = true) :
    tplCalls false fails = [Timing.start] := tplCalls_blind fails hf

/-- a chat-template node `A` whose second message template fails, a router retriever `R` one of
    whose two selected retrievers panics, one graph-level handler -/
def builtinShape : BShape :=
  ⟨false, [.node (.tpl "A" [false, true, false]),
           .node (.router "R" ⟨.ok, [("RA", .ok), ("RB", .panic)], false⟩)]⟩

/-- … and on the unit machine the graph-level handler gets `A`'s start and nothing else. -/
theorem template_error_unreported_on_machine :
    let c : Case := { globals := [], userInit := none, opts := [⟨[h 1], []⟩],
                      units := bUnits { BFacts.good with tplErrDeferred := false } builtinShape }
    let P := progOf ⟨true, true, true, true⟩ c
    (projLog (run ⟨true, true, true, true⟩ P (seqSchedule P)).log 1).map (fun e => (e.info, e.h.id, e.t)) =
      [("n:A|Default|ChatTemplate", 1, .start)] := by
  decide

/-- non-vacuity of `builtin_units_paired`: the units of `builtinShape` with the facts of the
    source — the failing template reports an error, the panicking retriever too, the fusion
    stage is not reached, `join` does not run -/
example : (bUnits BFacts.good builtinShape).map (fun u => (u.info, kindProg ⟨true, true, true, true⟩ u.kind)) =
    [("G||Graph", [.start, .error]), ("n:A|Default|ChatTemplate", [.start, .error]),
     ("n:R|Router|Retriever", [.start, .error]), ("RouterLambda|Router|Lambda", [.start, .end_]),
     ("RARetriever|RA|Retriever", [.start, .end_]), ("RBRetriever|RB|Retriever", [.start, .error])] := by decide

/-- a multi-query retriever whose rewriting chain contains a chat template that fails -/
example : (bUnits BFacts.good ⟨true, [.node (.mq "M" ⟨.llm [true] false false, "RO", [.ok], false⟩)]⟩).map
      (fun u => (u.info, kindProg ⟨true, true, true, true⟩ u.kind)) =
    [("G||Graph", [.startStream, .error]), ("n:M|MultiQuery|Retriever", [.start, .error]),
     ("QueryRewrite||Chain", [.start, .error]), ("Converter||Lambda", [.start, .end_]),
     ("|Default|ChatTemplate", [.start, .error])] := by decide

/-- **The default router that is computed and then dropped** (`routerDefaultInstalled = false`,
    `routerRetriever{router: config.Router}`): a router retriever configured without `Router`
    calls a nil function after the Router stage's `OnStart` — the stage and the node are started
    and never finished. -/
theorem router_default_lost_when_not_installed :
    (bUnits { BFacts.good with routerDefaultInstalled := false }
        ⟨false, [.node (.router "R" ⟨.dflt, [("RA", .ok)], false⟩)]⟩).map
      (fun u => (u.info, kindProg ⟨true, true, true, true⟩ u.kind)) =
    [("G||Graph", [.start, .error]), ("n:R|Router|Retriever", [.start]),
     ("RouterLambda|Router|Lambda", [.start])] := by decide

/-- with the default installed the same retriever routes to every registered retriever -/
example : (bUnits BFacts.good ⟨false, [.node (.router "R" ⟨.dflt, [("RA", .ok)], false⟩)]⟩).map
      (fun u => (u.info, kindProg ⟨true, true, true, true⟩ u.kind)) =
    [("G||Graph", [.start, .end_]), ("n:R|Router|Retriever", [.start, .end_]),
     ("RouterLambda|Router|Lambda", [.start, .end_]), ("RARetriever|RA|Retriever", [.start, .end_]),
     ("FusionFuncLambda|FusionFunc|Lambda", [.start, .end_]), ("n:join|Li|Lambda", [.start, .end_])] := by decide

/-- a node `A` that detaches a piece of work with `callbacks.InitCallbacks(ctx, info)` and fires
    start / end under the detached context, and then invokes a compiled inner graph under a second
    detached context; a handler `h 1` passed to the outer call and `h 2` designated to `A` -/
def detShape : DShape :=
  ⟨false, [⟨"A", false, [⟨[.init0], .fire false⟩, ⟨[.init0], .graph [] false⟩]⟩]⟩

def detProgDemo : Prog := detProg ⟨true, true, true, true⟩ [] none [⟨[h 1], []⟩, ⟨[h 2], [["A"]]⟩] detShape

/-- with the facts of the source: the node is reported once (start, end) to both handlers, and
    nothing of the detached work reaches them -/
example : let P := detProgDemo
    (run ⟨true, true, true, true⟩ P (seqSchedule P)).log.map (fun e => (e.info, e.h.id, e.t)) =
      [("G||Graph", 1, .start), ("G||Graph", 1, .end_),
       ("n:A|Li|Lambda", 2, .start), ("n:A|Li|Lambda", 1, .start), ("n:A|Li|Lambda", 1, .end_), ("n:A|Li|Lambda", 2, .end_),
       ("n:join|Li|Lambda", 1, .start), ("n:join|Li|Lambda", 1, .end_)] := by decide

/-- **`InitCallbacks` that returns the context untouched when there is nothing to install**
    (`initInstalls = false`): the detached work of node `A` is delivered to the run's handlers — also
    to the handler designated to `A` — under `A`'s own run info (a second start and a second end of
    the node), and the handler designated to `A` is invoked for the inner graph and its node. -/
theorem node_handlers_hear_detached_work_when_init_keeps_ctx :
    let P := detProgDemo
    let log := (run ⟨true, true, true, false⟩ P (seqSchedule P)).log
    (projLog log 3).map (fun e => (e.info, e.h.id, e.t)) =
      [("n:A|Li|Lambda", 2, .start), ("n:A|Li|Lambda", 1, .start), ("n:A|Li|Lambda", 1, .end_), ("n:A|Li|Lambda", 2, .end_)] ∧
    (⟨5, "ig:A.1||Graph", h 2, .start⟩ : LogEv) ∈ log ∧ (⟨6, "is:A.1|Li|Lambda", h 2, .start⟩ : LogEv) ∈ log := by
  decide

/-- **A start callback fired in the body before the restore, with the flag set only after it**
    (`startSetsFlag = false`): a refused restore makes the deferred block fire the start again —
    one execution reports start, start, error. -/
theorem restore_failure_starts_twice_when_flag_set_late (isStream : Bool) :
    restoreFailCalls false true true isStream true = [startT isStream, startT isStream, Timing.error] := rfl

/-- non-vacuity: a lambda and a nested graph interrupt; the resume is refused for the nested graph -/
example : (failedResumeUnits ⟨false, [.inner (.lam "A" .i false true), .sub "S" [.lam "X" .i false true]]⟩ (.sub "S")).map
      (fun u => (u.info, kindProg ⟨true, true, true, true⟩ u.kind)) =
    [("G||Graph", [.start, .error]), ("n:A|Li|Lambda", [.start, .end_]), ("n:S||Graph", [.start, .error])] := by decide

/-- without the deferred block a failing run never reports its end;
    with a deferred block that does not check `haveOnStart` an early error return has no start -/
theorem graph_end_lost_without_defer :
    runCalls false true false .lateErr = [.start] ∧ runCalls true false false .earlyErr = [.error] := by
  decide

/-- with `cpy(len(handlers))` the flow would share the last handler's copy -/
theorem flow_shares_copy_without_extra : (assignCopies 0 2).2.1 = some 1 ∧ 1 ∈ (assignCopies 0 2).1 := by
  decide

end EinoV.C10
