/-
  C10 — Callback handlers fire exactly once per execution, paired, for the right node.
  Property theorems.  Model: EinoV/Model/C10.lean.  Source facts: EinoV/Gen/FactsC10.lean
  (regenerated from /repo on every run).

  The unit machine is run with the facts extracted from the source (`genFacts`); every
  theorem about it holds for every program (unit tree, caller slices with any spare
  capacity, any designated handlers, any timing checkers, any global handlers) and for
  EVERY event list, i.e. every interleaving of the units' context-creation and callback
  steps (events that are not enabled are no-ops).
-/
import EinoV.Model.C10
import EinoV.Proofs.C10
import EinoV.Gen.FactsC10
import EinoV.Expected.C10

namespace EinoV.C10
open EinoV.Gen

/-- the unit machine's parameters, as extracted from internal/callbacks/inject.go -/
def genFacts : Facts := ⟨FactsC10.appendHandlersCopies, FactsC10.onCopies, FactsC10.startReversed⟩

/-- Source fact tie: every regenerated fact has the value the theorems (and the oracle) use. -/
theorem facts_match :
    genFacts = Expected.C10.facts ∧
    FactsC10.startStreamReversed = FactsC10.startReversed ∧
    FactsC10.endForward = Expected.C10.endForward ∧
    FactsC10.streamCopyExtra = Expected.C10.streamCopyExtra ∧
    FactsC10.flowGetsLastCopy = Expected.C10.flowGetsLastCopy ∧
    FactsC10.runHasDeferredBlock = Expected.C10.runHasDeferredBlock ∧
    FactsC10.deferStartsIfMissing = Expected.C10.deferStartsIfMissing ∧
    FactsC10.startSetsFlag = Expected.C10.startSetsFlag ∧
    FactsC10.wrapperStartThenEndOrError = Expected.C10.wrapperStartThenEndOrError ∧
    FactsC10.injectionGuarded = Expected.C10.injectionGuarded ∧
    FactsC10.toolCallOwnRunInfo = Expected.C10.toolCallOwnRunInfo := by
  decide

/-- `AppendHandlers` copies the inherited slice before appending (source fact) -/
theorem fact_append_copies : genFacts.appendCopies = true := by decide
/-- `On` does not append the global handlers to `mgr.handlers` in place (source fact) -/
theorem fact_on_copies : genFacts.onCopies = true := by decide

/-! ## handler lists -/

/-- **handlers_exact.** At every moment of every interleaving, the handler list of a unit
    whose context was made with `AppendHandlers` is exactly the parent's list followed by
    the handlers designated to the unit — whatever the siblings did in between, whatever
    the spare capacity of any slice. -/
theorem handlers_exact (P : Prog) (evs : List Ev) (i p : Nat) (d : UnitDecl)
    (hd : P.units[i]? = some d) (hk : d.kind = .append) (hp : d.parent = some p)
    (hs : List Hd) (hcreated : handlersFor (run genFacts P evs) i = some hs) :
    ∃ inherited, handlersFor (run genFacts P evs) p = some inherited ∧ hs = inherited ++ d.desig := by
  have inv := inv_run (P := P) fact_append_copies fact_on_copies evs
  unfold handlersFor at hcreated ⊢
  cases hc : (run genFacts P evs).ctxs i with
  | none => simp [hc] at hcreated
  | some c =>
    simp only [hc, Option.map_some, Option.some.injEq] at hcreated
    obtain ⟨hlt, cp, hcp⟩ := inv.par i c d p hc hd (by intro s; rw [hk]; simp) hp
    refine ⟨(run genFacts P evs).heap.read cp.slice, by simp [hcp], ?_⟩
    rw [← hcreated, (inv.ctx i c hc).2.1, (inv.ctx p cp hcp).2.1, spec_append_some hd hk hp hlt]

/-- the root forms: no manager in the incoming context → exactly the designated handlers;
    `ReuseHandlers` (tool calls) → exactly the parent's list;
    `InitCallbacks` → exactly the caller's slice. -/
theorem handlers_exact_root (P : Prog) (evs : List Ev) (i : Nat) (d : UnitDecl)
    (hd : P.units[i]? = some d) (hk : d.kind = .append) (hp : d.parent = none)
    (hs : List Hd) (hcreated : handlersFor (run genFacts P evs) i = some hs) : hs = d.desig := by
  have inv := inv_run (P := P) fact_append_copies fact_on_copies evs
  unfold handlersFor at hcreated
  cases hc : (run genFacts P evs).ctxs i with
  | none => simp [hc] at hcreated
  | some c =>
    simp only [hc, Option.map_some, Option.some.injEq] at hcreated
    rw [← hcreated, (inv.ctx i c hc).2.1, spec_append_none hd hk hp]

theorem handlers_exact_reuse (P : Prog) (evs : List Ev) (i p : Nat) (d : UnitDecl)
    (hd : P.units[i]? = some d) (hk : d.kind = .reuse) (hp : d.parent = some p)
    (hs : List Hd) (hcreated : handlersFor (run genFacts P evs) i = some hs) :
    handlersFor (run genFacts P evs) p = some hs := by
  have inv := inv_run (P := P) fact_append_copies fact_on_copies evs
  unfold handlersFor at hcreated ⊢
  cases hc : (run genFacts P evs).ctxs i with
  | none => simp [hc] at hcreated
  | some c =>
    simp only [hc, Option.map_some, Option.some.injEq] at hcreated
    obtain ⟨hlt, cp, hcp⟩ := inv.par i c d p hc hd (by intro s; rw [hk]; simp) hp
    simp only [hcp, Option.map_some, Option.some.injEq]
    rw [← hcreated, (inv.ctx i c hc).2.1, (inv.ctx p cp hcp).2.1, spec_reuse_some hd hk hp hlt]

theorem handlers_exact_init (P : Prog) (evs : List Ev) (i : Nat) (d : UnitDecl) (s : Slice)
    (hd : P.units[i]? = some d) (hk : d.kind = .init s)
    (hs : List Hd) (hcreated : handlersFor (run genFacts P evs) i = some hs) : hs = P.arrays.read s := by
  have inv := inv_run (P := P) fact_append_copies fact_on_copies evs
  unfold handlersFor at hcreated
  cases hc : (run genFacts P evs).ctxs i with
  | none => simp [hc] at hcreated
  | some c =>
    simp only [hc, Option.map_some, Option.some.injEq] at hcreated
    rw [← hcreated, (inv.ctx i c hc).2.1, spec_init hd hk]

/-- **schedule independence.** The list depends on the program only (`spec` is computed
    from the unit tree without any heap). -/
theorem handlers_static (P : Prog) (evs : List Ev) (i : Nat) (hs : List Hd)
    (hcreated : handlersFor (run genFacts P evs) i = some hs) : hs = spec P i := by
  have inv := inv_run (P := P) fact_append_copies fact_on_copies evs
  unfold handlersFor at hcreated
  cases hc : (run genFacts P evs).ctxs i with
  | none => simp [hc] at hcreated
  | some c =>
    simp only [hc, Option.map_some, Option.some.injEq] at hcreated
    rw [← hcreated, (inv.ctx i c hc).2.1]

/-- the caller's arrays are never written by the callback machinery -/
theorem caller_slices_untouched (P : Prog) (evs : List Ev) (s : Slice) (hs : s.arr < P.arrays.length) :
    (run genFacts P evs).heap.read s = P.arrays.read s := by
  obtain ⟨ext, hext⟩ := (inv_run (P := P) fact_append_copies fact_on_copies evs).heapPre
  rw [hext, read_prefix _ _ _ hs]

/-! ## dispatch -/

/-- **unit_trace.** In every interleaving the events recorded for unit `i` are exactly: for
    each timing the unit has fired so far, in program order, the handlers of
    `inherited ++ designated ++ global` that need that timing (start timings last to first),
    each with the unit's own run info. -/
theorem unit_trace (P : Prog) (evs : List Ev) (i : Nat) :
    projLog (run genFacts P evs).log i =
      render genFacts.startReversed i (unitInfo P i) (spec P i ++ P.globals)
        ((unitProg P i).take ((run genFacts P evs).pc i)) :=
  (inv_run (P := P) fact_append_copies fact_on_copies evs).log i

/-- **no_cross_node.** Every callback that is ever delivered goes to a handler of the
    delivering unit's own list (or a global one), with that unit's run info and a timing the
    handler asked for. -/
theorem no_cross_node (P : Prog) (evs : List Ev) (e : LogEv) (he : e ∈ (run genFacts P evs).log) :
    e.h ∈ spec P e.unit ++ P.globals ∧ e.info = unitInfo P e.unit ∧ e.h.needed e.t = true ∧
    e.t ∈ unitProg P e.unit := by
  have h1 := mem_projLog he
  rw [unit_trace] at h1
  obtain ⟨_, a2, a3, a4, a5⟩ := mem_render h1
  exact ⟨a3, a2, a4, List.mem_of_mem_take a5⟩

/-- A handler designated to node `a` only is never invoked for a sibling `b`, however the
    two nodes' steps interleave. -/
theorem no_cross_node_siblings (P : Prog) (evs : List Ev) (b g : Nat) (db : UnitDecl) (h : Hd)
    (hdb : P.units[b]? = some db) (hkb : db.kind = .append) (hpb : db.parent = some g) (hlt : g < b)
    (hnotInherited : h ∉ spec P g) (hnotB : h ∉ db.desig) (hnotGlobal : h ∉ P.globals) :
    ∀ e ∈ (run genFacts P evs).log, e.unit = b → e.h ≠ h := by
  intro e he hu hh
  have := (no_cross_node P evs e he).1
  rw [hu, spec_append_some hdb hkb hpb hlt, hh] at this
  simp only [List.mem_append] at this
  rcases this with (h1 | h1) | h1
  · exact hnotInherited h1
  · exact hnotB h1
  · exact hnotGlobal h1

/-- **fire_once_paired.** A unit whose program is `[s, e]` (one start timing, one of
    end / stream end / error) and that has run to completion delivered, to every handler `h`:
    `s` exactly as many times as `h` occurs in the unit's list (once for a handler passed
    once) if `h` needs `s`, likewise `e`, and no other timing at all. -/
theorem fire_once_paired (P : Prog) (evs : List Ev) (i : Nat) (s e : Timing)
    (hprog : unitProg P i = [s, e]) (hse : s ≠ e)
    (hfin : (run genFacts P evs).pc i = 2) (h : Hd) :
    let log := (run genFacts P evs).log
    let occ := (spec P i ++ P.globals).count h
    countEv log i h s = (if h.needed s then occ else 0) ∧
    countEv log i h e = (if h.needed e then occ else 0) ∧
    ∀ t, t ≠ s → t ≠ e → countEv log i h t = 0 := by
  intro log occ
  have key : ∀ t, countEv log i h t = [s, e].count t * (if h.needed t then occ else 0) := by
    intro t
    rw [countEv_proj, unit_trace, hprog, hfin]
    exact countEv_render _ _ _ _ _ _ _
  refine ⟨?_, ?_, ?_⟩
  · rw [key]
    have : (e == s) = false := by simpa using fun h => hse h.symm
    simp [List.count_cons, this]
  · rw [key]
    have : (s == e) = false := by simpa using hse
    simp [List.count_cons, this]
  · intro t hts hte
    rw [key]
    have h1 : (s == t) = false := by simpa using fun h => hts h.symm
    have h2 : (e == t) = false := by simpa using fun h => hte h.symm
    simp [List.count_cons, h1, h2]

/-- exactly one start and exactly one end for a handler that was passed once and filters nothing -/
theorem fire_once_paired_single (P : Prog) (evs : List Ev) (i : Nat) (s e : Timing)
    (hprog : unitProg P i = [s, e]) (hse : s ≠ e)
    (hfin : (run genFacts P evs).pc i = 2) (h : Hd)
    (honce : (spec P i ++ P.globals).count h = 1) (hall : h.mask = none) :
    countEv (run genFacts P evs).log i h s = 1 ∧ countEv (run genFacts P evs).log i h e = 1 := by
  obtain ⟨a, b, _⟩ := fire_once_paired P evs i s e hprog hse hfin h
  have hn : ∀ t, h.needed t = true := by intro t; simp [Hd.needed, hall]
  simp only [hn, if_true, honce] at a b
  exact ⟨a, b⟩

/-- start callbacks precede the end callback of the same unit: the unit's trace is the start
    block followed by the end block. -/
theorem start_before_end (P : Prog) (evs : List Ev) (i : Nat) (s e : Timing)
    (hprog : unitProg P i = [s, e]) (hfin : (run genFacts P evs).pc i = 2) :
    projLog (run genFacts P evs).log i =
      (dispatch genFacts.startReversed s (spec P i ++ P.globals)).map (fun h => ⟨i, unitInfo P i, h, s⟩) ++
      (dispatch genFacts.startReversed e (spec P i ++ P.globals)).map (fun h => ⟨i, unitInfo P i, h, e⟩) := by
  rw [unit_trace, hprog, hfin]
  simp [render]

/-! ## where the `[start, end-kind]` programs come from -/

/-- **graph level.** On every return path of `runner.run` — including the error returns
    taken before `onGraphStart` was reached — the graph's callbacks are: start exactly once,
    then exactly one of end / stream end / error, matching the outcome. -/
theorem graph_callbacks_once (isStream : Bool) (p : RunPath) :
    runCalls FactsC10.runHasDeferredBlock FactsC10.deferStartsIfMissing isStream p =
      [startT isStream,
       match p with
       | .ok => (if isStream then Timing.endStream else Timing.end_)
       | _ => Timing.error] := by
  have h1 : FactsC10.runHasDeferredBlock = true := by decide
  have h2 : FactsC10.deferStartsIfMissing = true := by decide
  rw [h1, h2]
  cases p <;> cases isStream <;> rfl

/-- **node / tool level.** A component wrapped by `runWithCallbacks` fires start once and
    then exactly one of end / stream end / error; a component that fires its own callbacks is
    not wrapped (the framework adds nothing to what the component does). -/
theorem wrapper_callbacks_once (startStream : Bool) (k : EndKind) (own : List Timing) :
    FactsC10.wrapperStartThenEndOrError = true ∧ FactsC10.injectionGuarded = true ∧
    kindProg FactsC10.runHasDeferredBlock FactsC10.deferStartsIfMissing (.wrapped startStream k)
      = [startT startStream, endT k] ∧
    kindProg FactsC10.runHasDeferredBlock FactsC10.deferStartsIfMissing (.self own) = own :=
  ⟨by decide, by decide, rfl, rfl⟩

/-- every framework-issued program is one start timing followed by one distinct end timing -/
theorem framework_prog_shape (u : UKind) (hnotSelf : ∀ own, u ≠ .self own) :
    ∃ s e, kindProg FactsC10.runHasDeferredBlock FactsC10.deferStartsIfMissing u = [s, e] ∧
      s.isStart = true ∧ e.isStart = false := by
  cases u with
  | graph isStream p =>
    refine ⟨_, _, graph_callbacks_once isStream p, ?_, ?_⟩
    · cases isStream <;> rfl
    · cases p <;> cases isStream <;> rfl
  | wrapped s k => exact ⟨_, _, rfl, by cases s <;> rfl, by cases k <;> rfl⟩
  | self own => exact absurd rfl (hnotSelf own)

/-! ## stream payload copies -/

/-- each handler gets its own copy and the flow continues with yet another one -/
theorem stream_copies_distinct (n : Nat) (hn : 0 < n) :
    let a := assignCopies FactsC10.streamCopyExtra n
    a.1 = List.range n ∧ a.2.1 = some n ∧ a.2.2 = n + 1 ∧ n ∉ a.1 := by
  have h1 : FactsC10.streamCopyExtra = 1 := by decide
  have h2 : FactsC10.flowGetsLastCopy = true := by decide
  rw [h1]
  have : n ≠ 0 := by omega
  simp [assignCopies, this]

/-- **payload_independent.** Whatever the handlers do with their copies (read fully, read
    partially, close at once, in any interleaving with each other), the copy the flow keeps
    delivers exactly the original item sequence. -/
theorem payload_independent (items : List Nat) (n flow : Nat) (hflow : flow < n) (ops : List ROp)
    (hothers : ∀ op ∈ ops, op.reader ≠ flow) :
    (ops.foldl Copies.apply (Copies.mk' items n)).drain flow items.length = items :=
  drain_after_others items n flow hflow ops hothers

/-! ## non-vacuity -/

def h (n : Nat) : Hd := ⟨n, none⟩

/-- three graph-level handlers in three options (slice len 3 cap 4), one global handler, two
    parallel nodes with one designated handler each, a tool call below node B -/
def exCase : Case :=
  { globals := [h 9], userInit := none,
    opts := [⟨[h 1], []⟩, ⟨[h 2], []⟩, ⟨[h 3], []⟩, ⟨[h 4], [["A"]]⟩, ⟨[⟨5, some 3⟩], [["B"]]⟩],
    units := [⟨[], false, "g", .graph false .ok⟩, ⟨["A"], false, "A", .wrapped false .ok⟩,
              ⟨["B"], false, "B", .wrapped false .err⟩, ⟨["B", "t"], true, "t", .wrapped false .ok⟩] }

def exProg : Prog := progOf true true exCase

example : (buildCbs exCase.opts).2 = ⟨2, 0, 3, 4⟩ := by decide
example : (exProg.units.map (·.parent)) = [none, some 0, some 0, some 2] := by decide
example : spec exProg 1 = [h 1, h 2, h 3, h 4] := by
  rw [spec_append_some (d := ⟨some 0, .append, [h 4], "A", [.start, .end_]⟩) (p := 0) (by rfl) rfl rfl (by decide),
      spec_init (d := ⟨none, .init ⟨2, 0, 3, 4⟩, [], "g", [.start, .end_]⟩) (s := ⟨2, 0, 3, 4⟩) (by rfl) rfl]
  decide
/-- the interleaving A.init, B.init, A.start, B.start, A.end, B.error completes both nodes -/
example : let st := run ⟨true, true, true⟩ exProg [.mk 0, .step 0, .mk 1, .mk 2, .step 1, .step 2, .step 1, .step 2]
    st.pc 1 = 2 ∧ st.pc 2 = 2 ∧
    handlersFor st 1 = some [h 1, h 2, h 3, h 4] ∧ handlersFor st 2 = some [h 1, h 2, h 3, ⟨5, some 3⟩] ∧
    (projLog st.log 2).map (fun e => (e.h.id, e.t)) =
      [(9, .start), (5, .start), (3, .start), (2, .start), (1, .start),
       (1, .error), (2, .error), (3, .error), (9, .error)] := by decide

/-! ## negations: what goes wrong with the other value of each fact -/

/-- **The defect of the unfixed tree** (`appendHandlersCopies = false`): with three
    graph-level handlers passed in three options (len 3, cap 4) and two parallel nodes with
    one designated handler each, in *either* order of the two nodes' init steps one node ends
    up with the other node's handler in its list … -/
theorem cross_node_with_inplace_append :
    ∀ evs ∈ [[Ev.mk 0, .mk 1, .mk 2], [Ev.mk 0, .mk 2, .mk 1]],
      handlersFor (run ⟨false, false, true⟩ exProg evs) 1 ≠ some [h 1, h 2, h 3, h 4] ∨
      handlersFor (run ⟨false, false, true⟩ exProg evs) 2 ≠ some [h 1, h 2, h 3, ⟨5, some 3⟩] := by
  decide

/-- … and the handler designated to node A only is delivered with node B's run info. -/
theorem cross_node_event_with_inplace_append :
    (⟨2, "B", h 4, .start⟩ : LogEv) ∈
      (run ⟨false, false, true⟩ exProg [.mk 0, .step 0, .mk 2, .mk 1, .step 1, .step 2]).log := by
  decide

/-- `On` appending the global handlers to `mgr.handlers` in place (`onCopies = false`), even
    with a copying `AppendHandlers`: two contexts the caller built over one backing array
    (`hs[:3]` and `hs[:4]`); firing a callback on the first overwrites `hs[3]` with the global
    handler, so the second unit delivers to the global handler twice and never to `hs[3]`. -/
theorem caller_slice_scribbled_with_inplace_on :
    let P : Prog := ⟨[[h 1, h 2, h 3, h 4]], [h 9],
      [⟨none, .init ⟨0, 0, 3, 4⟩, [], "u0", [.start]⟩, ⟨none, .init ⟨0, 0, 4, 4⟩, [], "u1", [.start]⟩]⟩
    let st := run ⟨true, false, true⟩ P [.mk 0, .mk 1, .step 0, .step 1]
    handlersFor st 1 = some [h 1, h 2, h 3, h 9] ∧
    (projLog st.log 1).map (fun e => e.h.id) = [9, 9, 3, 2, 1] := by
  decide

/-- without the deferred block a failing run never reports its end;
    with a deferred block that does not check `haveOnStart` an early error return has no start -/
theorem graph_end_lost_without_defer :
    runCalls false true false .lateErr = [.start] ∧ runCalls true false false .earlyErr = [.error] := by
  decide

/-- with `cpy(len(handlers))` the flow would share the last handler's copy -/
theorem flow_shares_copy_without_extra : (assignCopies 0 2).2.1 = some 1 ∧ 1 ∈ (assignCopies 0 2).1 := by
  decide

end EinoV.C10
