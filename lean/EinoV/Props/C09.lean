/-
  C09 — A compiled runnable is safe for concurrent use; runs are isolated.
  Property theorems.  Model: EinoV/Model/C09.lean.  Source facts: EinoV/Gen/FactsC09.lean
  (regenerated from /repo on every run by tools/factgen/c09.go).

  FULL STATEMENT (properties.jsonl): for every compiled object, any number of concurrent
  callers mixing the four paradigms and every interleaving: runs do not share channels,
  state, options or callback context, each run returns what it would return alone, and no
  data race occurs in framework code.

  What is proved here (`…_partial`): the LOGIC part – over a heap model in which every step
  of a run is atomic, for every number of runs, every step function and every schedule, a
  run's view of the heap equals the run executed alone, *because* each of the objects a run
  works on is allocated per run (facts `runAllocs…`, `runBuildsOptMap`,
  `runCreatesStateViaRunCtx`) and run-time code writes nothing else that is shared (fact
  `sharedWrites = []`).  What is NOT proved: atomicity of the steps, i.e. data-race freedom
  in the Go memory model – that clause is observed only (harness built with -race, child
  process, any race report is a violation).  The write-set is a syntactic
  over-approximation over a fixed package list, trusted as such.
-/
import EinoV.Model.C09
import EinoV.Proofs.C09
import EinoV.Gen.FactsC09
import EinoV.Expected.C09

namespace EinoV.C09
open EinoV.Gen

/-- the allocation table of the code as it is now -/
def repoAlloc : Alloc :=
  allocOf FactsC09.runAllocsChannelManager FactsC09.channelsBuiltPerRun
    FactsC09.channelManagerFieldsFresh FactsC09.runAllocsTaskManager FactsC09.taskManagerQueueFresh
    FactsC09.runBuildsOptMap FactsC09.runCreatesStateViaRunCtx
    FactsC09.sharedWrites FactsC09.nonFreshPerRunFields

/-! ## the tie to the source -/

/-- **no_shared_writes.** Run-time code (everything reachable from `runner.run`, and every
    closure that the compose / react / host constructors leave inside the compiled object)
    contains no assignment to a captured constructor variable, to a field reached through
    a shared receiver, or to a package-level variable. -/
theorem no_shared_writes : FactsC09.sharedWrites = [] := by decide

/-- The allow-list of tools/factgen/c09.go carries no dead entries (each reasoned exception
    still matches a write in the tree). -/
theorem allow_list_exact : FactsC09.staleAllowEntries = [] := by decide

/-- **per_run_allocation.** `runner.run` itself allocates the channel manager (fresh channel
    map, fresh channels), the task manager (fresh list, fresh done channel, fresh mutex –
    nothing taken from a pool, cache or package variable), the option map, and obtains the
    state from the generator through `runCtx`. -/
theorem per_run_allocation :
    FactsC09.runAllocsChannelManager = true ∧ FactsC09.channelsBuiltPerRun = true ∧
    FactsC09.channelManagerFieldsFresh = true ∧
    FactsC09.runAllocsTaskManager = true ∧ FactsC09.taskManagerQueueFresh = true ∧
    FactsC09.nonFreshPerRunFields = [] ∧
    FactsC09.runBuildsOptMap = true ∧ FactsC09.runCreatesStateViaRunCtx = true := by decide

theorem facts_match : repoAlloc = Expected.C09.alloc := by decide

theorem repo_all_per_run : repoAlloc = Alloc.allPerRun := by decide

/-! ## non-interference -/

/-- **noninterference (partial: atomic steps assumed).** For the allocation table extracted
    from /repo, every number of runs, every per-run step function, every initial heap and
    EVERY schedule: what run `i` sees after the interleaved execution is exactly run `i`
    executed alone for as many steps as the schedule gave it, and the compiled object is
    unchanged.  (Every prefix of a schedule is a schedule, so this also holds at every
    intermediate point: the projection of the interleaved trace on run `i` is the trace of
    run `i` alone.) -/
theorem noninterference_partial (step : Nat → Slots → Slots) (sched : List Nat) (h : Heap) (i : Nat) :
    load repoAlloc (exec repoAlloc step sched h) i
      = alone step i (sched.count i) (load repoAlloc h i)
    ∧ (exec repoAlloc step sched h).shared = h.shared := by
  rw [repo_all_per_run, load_allPerRun, load_allPerRun]
  exact ⟨(exec_allPerRun step sched h).2 i, (exec_allPerRun step sched h).1⟩

/-- trace form: at every cut of the schedule -/
theorem noninterference_every_prefix_partial (step : Nat → Slots → Slots) (p q : List Nat) (h : Heap) (i : Nat) :
    load repoAlloc (exec repoAlloc step p h) i = alone step i (p.count i) (load repoAlloc h i)
    ∧ load repoAlloc (exec repoAlloc step (p ++ q) h) i
        = alone step i (q.count i) (load repoAlloc (exec repoAlloc step p h) i) := by
  refine ⟨(noninterference_partial step p h i).1, ?_⟩
  rw [(noninterference_partial step (p ++ q) h i).1, (noninterference_partial step p h i).1,
    List.count_append, alone_add]

/-- **each run returns what it would return alone** (layered graphs of the correspondence
    check): whatever the schedule, as soon as it gives call `i` enough steps to finish, the
    result of call `i` is the result of the same call run alone. -/
theorem result_as_alone_partial (prog : List Layer) (calls : List (String × String)) (sched : List Nat)
    (i : Nat) (hi : i < calls.length) (hfin : prog.length ≤ sched.count i) :
    (runInterleaved repoAlloc prog calls sched)[i]?
      = some (runAlone prog calls[i].1 calls[i].2) := by
  unfold runInterleaved runAlone
  simp only [List.getElem?_map, List.getElem?_range hi, Option.map_some]
  rw [(noninterference_partial (fun _ => layeredStep prog) sched (initHeap calls) i).1]
  rw [repo_all_per_run, load_allPerRun]
  have hinit : (initHeap calls).priv i = ⟨calls[i].1, 0, calls[i].2, 0, ""⟩ := by
    simp [initHeap, hi]
  rw [hinit]
  obtain ⟨k, hk⟩ : ∃ k, sched.count i = prog.length + k := ⟨sched.count i - prog.length, by omega⟩
  rw [hk, alone_add]
  have htm := alone_layered_tm prog i prog.length ⟨calls[i].1, 0, calls[i].2, 0, ""⟩ (by simp)
  rw [alone_idle prog i k _ (by rw [htm]; simp)]
  -- the step function does not depend on the run index
  have hidx : ∀ n s, alone (fun _ => layeredStep prog) i n s = alone (fun _ => layeredStep prog) 0 n s := by
    intro n; induction n with
    | zero => intro s; rfl
    | succ n ih => intro s; simp only [alone]; exact ih _
  rw [hidx]

/-! ## non-vacuity -/

/-- two calls of a fan-out/fan-in graph with state and a per-call option, interleaved -/
example :
    runInterleaved repoAlloc
      [⟨false, [⟨"a", true, false⟩]⟩, ⟨false, [⟨"b", false, true⟩, ⟨"c", true, false⟩]⟩]
      [("x", "o"), ("y", "p")] [0, 1, 1, 0]
    = ["{b=xabo,c=xac}#2", "{b=yabp,c=yac}#2"] := by decide

example : runAlone [⟨true, [⟨"a", false, false⟩, ⟨"b", true, false⟩]⟩] "x" "" = "xb#1" := by decide

/-! ## negation witnesses: what breaks when a fact flips -/

/-- the allocation table the tree had with the react `directReturn` closure assigning the
    constructor's named result (the write factgen lists for react.go) -/
def allocWithCapturedWrite : Alloc :=
  allocOf true true true true true true true ["flow/agent/react/react.go:buildReturnDirectly:captured:err"] []

/-- **Captured constructor variable ⇒ interference.** Two concurrent `Generate` calls through
    the `directReturn` closure: call 0's ProcessState yields `nil`, call 1's yields `E`;
    under the schedule write₀ write₁ read₀ read₁ call 0 returns call 1's outcome, although
    alone it returns its own. -/
theorem captured_write_interferes :
    (load allocWithCapturedWrite
        (exec allocWithCapturedWrite (directReturnStep fun i => if i = 0 then "nil" else "E")
          [0, 1, 0, 1] (initHeap [("a", ""), ("b", "")])) 0).cm = "E"
    ∧ (alone (directReturnStep fun i => if i = 0 then "nil" else "E") 0 2 ⟨"a", 0, "", 0, ""⟩).cm
        = "nil" := by decide

/-- **State hoisted into the compiled object ⇒ interference.** If `runCtx` did not create
    the state per run, two runs that each increment it once would see 2. -/
theorem shared_state_interferes :
    (load (allocOf true true true true true true false [] []) 
        (exec (allocOf true true true true true true false [] []) (fun _ s => { s with st := s.st + 1 })
          [0, 1] (initHeap [("a", ""), ("b", "")])) 0).st = 2
    ∧ (alone (fun _ s => { s with st := s.st + 1 }) 0 1 ⟨"a", 0, "", 0, ""⟩).st = 1 := by decide

/-- **Channels hoisted ⇒ interference.** With a shared channel manager the value in flight of
    one call is overwritten by the other. -/
theorem shared_channels_interfere :
    runInterleaved (allocOf false true true true true true true [] []) [⟨false, [⟨"a", false, false⟩]⟩]
      [("x", ""), ("y", "")] [0, 1] ≠ ["xa#0", "ya#0"] := by decide

/-- **Completion queue recycled through the compiled object ⇒ interference.** (The
    `sync.Pool` change of /tmp/mut/out/C09-2: `taskManagerQueueFresh = false`.)  Run 0 has
    returned early; its straggling node (index 0) parks its finished task in the queue it was
    given; run 1, which was handed the same queue, takes it as its own.  With a per-run queue
    run 1 finds nothing foreign. -/
theorem recycled_queue_interferes :
    (load (allocOf true true true true false true true [] [])
        (exec (allocOf true true true true false true true [] []) (queueStep fun i => i == 0)
          [0, 1] (initHeap [("bad", ""), ("good", "")])) 1).cm = "good1"
    ∧ (load Alloc.allPerRun
        (exec Alloc.allPerRun (queueStep fun i => i == 0)
          [0, 1] (initHeap [("bad", ""), ("good", "")])) 1).cm = "good0" := by decide

end EinoV.C09
