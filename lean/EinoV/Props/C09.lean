/-
  C09 — A compiled runnable is safe for concurrent use; runs are isolated.
  Property theorems.  Model: EinoV/Model/C09.lean.  Source facts: EinoV/Gen/FactsC09.lean
  (regenerated from /repo on every run by tools/factgen/c09.go).

  FULL STATEMENT (properties.jsonl): for every compiled object, any number of concurrent
  callers mixing the four paradigms and every interleaving: runs do not share channels,
  state, options or callback context, each run returns what it would return alone, and no
  data race occurs in framework code.

  What is proved here (`…_partial`): the LOGIC part – over a heap model in which every step
  of a run is atomic, for every number of runs, every step function and every schedule, a
  run's view of the heap equals the run executed alone, *because* each of the objects a run
  works on is allocated per run (facts `runAllocs…`, `runBuildsOptMap`,
  `runCreatesStateViaRunCtx`) and run-time code writes nothing else that is shared (fact
  `sharedWrites = []`).  For the CALL OPTIONS the slot abstraction is refined down to Go slice
  semantics (section "call options" below, model EinoV/Model/C09Opt.lean on the slice heap of
  the C10 model): the option map of a run is fresh, and – fact `extractOptionCopies` – so is the
  storage of its values, hence for every interleaving of the option extractions and node
  executions of any number of runs, every node reads exactly the option groups of its own
  call, and the caller's `Option.options` arrays are never written.  For RUN ERRORS (section
  "run errors" below, model EinoV/Model/C09Err.lean): compose/error.go records the node path of a
  failure by writing into the `*internalError` IN PLACE while it travels up through the enclosing
  graphs; because – fact `storedRunErrors = []` – no such object is kept in a package-level
  variable or struct field, every failing run allocates its own, hence for any number of failing
  runs of any compiled objects of the process and every interleaving, the error a run returned
  reads exactly what the run reports alone (its own nesting path), for ever.  For the CALLBACK
  HANDLERS (section "callback handlers" below, model EinoV/Model/C09Cb.lean on the same slice heap):
  a `WithCallbacks(hs...)` option keeps the caller's slice, the handler list of a run is collected
  from the options of the call and – when the context has no manager yet – installed as it is;
  because the collection starts from nil and only appends (facts `graphHandlersCollectCopies`,
  `nodeHandlersCollectCopies`) and `AppendHandlers` copies what it inherits (fact
  `appendHandlersCopies`), for any number of concurrent calls sharing Option values and parent
  contexts with any spare capacity and every interleaving, every unit of a run fires its callbacks
  on exactly the handler list in force for ITS call.  For MANY RUNS IN FLIGHT AT ONCE (section
  "many runs in flight" below, model EinoV/Model/C09Flight.lean): the tool calls of a message are
  started side by side, a tool may itself run a compiled object with a tools node, and – fact
  `runPathSharedSync = []` – no package-level channel / lock / semaphore is used on the run path,
  so for ANY number of concurrent runs with any numbers of tool calls and inner tool calls, held
  together at a barrier, no reachable state is stuck and every reachable state completes.
  What is NOT proved: atomicity of the steps, i.e. data-race freedom
  in the Go memory model – that clause is observed only (harness built with -race, child
  process, any race report is a violation).  The write-set is a syntactic
  over-approximation over a fixed package list, trusted as such.
-/
import EinoV.Model.C09
import EinoV.Model.C09Opt
import EinoV.Proofs.C09
import EinoV.Proofs.C09Opt
import EinoV.Model.C09Err
import EinoV.Proofs.C09Err
import EinoV.Model.C09Cb
import EinoV.Proofs.C09Cb
import EinoV.Model.C09Flight
import EinoV.Proofs.C09Flight
import EinoV.Gen.FactsC09
import EinoV.Expected.C09

namespace EinoV.C09
open EinoV.Gen

/-- the allocation table of the code as it is now -/
def repoAlloc : Alloc :=
  allocOf FactsC09.runAllocsChannelManager FactsC09.channelsBuiltPerRun
    FactsC09.channelManagerFieldsFresh FactsC09.runAllocsTaskManager FactsC09.taskManagerQueueFresh
    FactsC09.runBuildsOptMap FactsC09.runCreatesStateViaRunCtx
    FactsC09.sharedWrites FactsC09.nonFreshPerRunFields FactsC09.extractOptionCopies

/-! ## the tie to the source -/

/-- **no_shared_writes.** Run-time code (everything reachable from `runner.run`, and every
    closure that the compose / react / host constructors leave inside the compiled object)
    contains no assignment to a captured constructor variable, to a field reached through
    a shared receiver, or to a package-level variable. -/
theorem no_shared_writes : FactsC09.sharedWrites = [] := by decide

/-- The allow-list of tools/factgen/c09.go carries no dead entries (each reasoned exception
    still matches a write in the tree). -/
theorem allow_list_exact : FactsC09.staleAllowEntries = [] := by decide

/-- **per_run_allocation.** `runner.run` itself allocates the channel manager (fresh channel
    map, fresh channels), the task manager (fresh list, fresh done channel, fresh mutex –
    nothing taken from a pool, cache or package variable), the option map, and obtains the
    state from the generator through `runCtx`. -/
theorem per_run_allocation :
    FactsC09.runAllocsChannelManager = true ∧ FactsC09.channelsBuiltPerRun = true ∧
    FactsC09.channelManagerFieldsFresh = true ∧
    FactsC09.runAllocsTaskManager = true ∧ FactsC09.taskManagerQueueFresh = true ∧
    FactsC09.nonFreshPerRunFields = [] ∧
    FactsC09.runBuildsOptMap = true ∧ FactsC09.runCreatesStateViaRunCtx = true ∧
    FactsC09.extractOptionCopies = true := by decide

theorem facts_match : repoAlloc = Expected.C09.alloc := by decide

theorem repo_all_per_run : repoAlloc = Alloc.allPerRun := by decide

/-! ## non-interference -/

/-- **noninterference (partial: atomic steps assumed).** For the allocation table extracted
    from /repo, every number of runs, every per-run step function, every initial heap and
    EVERY schedule: what run `i` sees after the interleaved execution is exactly run `i`
    executed alone for as many steps as the schedule gave it, and the compiled object is
    unchanged.  (Every prefix of a schedule is a schedule, so this also holds at every
    intermediate point: the projection of the interleaved trace on run `i` is the trace of
    run `i` alone.) -/
theorem noninterference_partial (step : Nat → Slots → Slots) (sched : List Nat) (h : Heap) (i : Nat) :
    load repoAlloc (exec repoAlloc step sched h) i
      = alone step i (sched.count i) (load repoAlloc h i)
    ∧ (exec repoAlloc step sched h).shared = h.shared := by
  rw [repo_all_per_run, load_allPerRun, load_allPerRun]
  exact ⟨(exec_allPerRun step sched h).2 i, (exec_allPerRun step sched h).1⟩

/-- trace form: at every cut of the schedule -/
theorem noninterference_every_prefix_partial (step : Nat → Slots → Slots) (p q : List Nat) (h : Heap) (i : Nat) :
    load repoAlloc (exec repoAlloc step p h) i = alone step i (p.count i) (load repoAlloc h i)
    ∧ load repoAlloc (exec repoAlloc step (p ++ q) h) i
        = alone step i (q.count i) (load repoAlloc (exec repoAlloc step p h) i) := by
  refine ⟨(noninterference_partial step p h i).1, ?_⟩
  rw [(noninterference_partial step (p ++ q) h i).1, (noninterference_partial step p h i).1,
    List.count_append, alone_add]

/-- **each run returns what it would return alone** (layered graphs of the correspondence
    check): whatever the schedule, as soon as it gives call `i` enough steps to finish, the
    result of call `i` is the result of the same call run alone. -/
theorem result_as_alone_partial (prog : List Layer) (calls : List (String × String)) (sched : List Nat)
    (i : Nat) (hi : i < calls.length) (hfin : prog.length ≤ sched.count i) :
    (runInterleaved repoAlloc prog calls sched)[i]?
      = some (runAlone prog calls[i].1 calls[i].2) := by
  unfold runInterleaved runAlone
  simp only [List.getElem?_map, List.getElem?_range hi, Option.map_some]
  rw [(noninterference_partial (fun _ => layeredStep prog) sched (initHeap calls) i).1]
  rw [repo_all_per_run, load_allPerRun]
  have hinit : (initHeap calls).priv i = ⟨calls[i].1, 0, calls[i].2, 0, ""⟩ := by
    simp [initHeap, hi]
  rw [hinit]
  obtain ⟨k, hk⟩ : ∃ k, sched.count i = prog.length + k := ⟨sched.count i - prog.length, by omega⟩
  rw [hk, alone_add]
  have htm := alone_layered_tm prog i prog.length ⟨calls[i].1, 0, calls[i].2, 0, ""⟩ (by simp)
  rw [alone_idle prog i k _ (by rw [htm]; simp)]
  -- the step function does not depend on the run index
  have hidx : ∀ n s, alone (fun _ => layeredStep prog) i n s = alone (fun _ => layeredStep prog) 0 n s := by
    intro n; induction n with
    | zero => intro s; rfl
    | succ n ih => intro s; simp only [alone]; exact ih _
  rw [hidx]

/-! ## call options (Go slice semantics)

`runBuildsOptMap` says the option MAP of a run is a fresh object.  Its values are slices: the
theorems below are about what they are windows into. -/

section CallOptions

/-- **extract_option_copies.** Every store into the option map of `extractOption` is
    `optMap[k] = append(optMap[k], …)`: the first group of a node is copied into storage of the
    run (append to the nil slice of a fresh map), later groups are appended to that storage. -/
theorem extract_option_copies : FactsC09.extractOptionCopies = true := by decide

/-- **tools_node_read_only.** No method on the run path of a ToolsNode assigns through the
    receiver: the conversion of a `WithToolList` call option lives in locals of the call. -/
theorem tools_node_read_only : FactsC09.toolsNodeRunPathWrites = [] := by decide

theorem facts_match_options :
    FactsC09.extractOptionCopies = Expected.C09.extractOptionCopies ∧
    FactsC09.toolsNodeRunPathWrites = Expected.C09.toolsNodeRunPathWrites := by decide

/-- **A node sees exactly the options of its own call** – for the code as it is
    (`extractOptionCopies` from /repo), any number of concurrent calls with any option groups
    (shared `Option` values included: several calls may hold windows into the same caller
    array, with any spare capacity), any set of (call, node) extraction threads and EVERY
    interleaving of their steps: whatever node `p` of call `i` reads when it is executed is
    `visible h0 gs p` – the concatenation, in call order, of the groups of call `i` that reach
    `p`, as the caller handed them over.  It is a function of the call's own options only. -/
theorem node_sees_exactly_own_options (h0 : C10.Heap) (calls : List (List Opt.Group))
    (threads : List (Nat × Opt.Path)) (sched : List Nat) (wf : Opt.CallsWF h0 calls)
    (t i : Nat) (p : Opt.Path) (gs : List Opt.Group) (r : List C10.Hd)
    (ht : threads[t]? = some (i, p)) (hc : calls[i]? = some gs)
    (hs : ((Opt.exec FactsC09.extractOptionCopies (Opt.progOf calls threads) sched
              (Opt.St.init h0)).th t).seen = some r) :
    r = Opt.visible h0 gs p := by
  rw [extract_option_copies] at hs
  have inv := Opt.inv_exec (Opt.wf_progOf wf threads) sched _ (Opt.inv_init h0 _)
  have hp : (Opt.progOf calls threads)[t]? = some (Opt.reaching gs p) := by
    simp [Opt.progOf, ht, List.getD_eq_getElem?_getD, hc]
  exact inv.sn t _ r hp hs

/-- **The caller's option arrays are never written** by any run (spare capacity included). -/
theorem caller_option_arrays_untouched (h0 : C10.Heap) (calls : List (List Opt.Group))
    (threads : List (Nat × Opt.Path)) (sched : List Nat) (wf : Opt.CallsWF h0 calls)
    (a : Nat) (ha : a < h0.length) :
    (Opt.exec FactsC09.extractOptionCopies (Opt.progOf calls threads) sched (Opt.St.init h0)).heap[a]?
      = h0[a]? := by
  rw [extract_option_copies]
  exact (Opt.inv_exec (Opt.wf_progOf wf threads) sched _ (Opt.inv_init h0 _)).pre a ha

/-- **Runs do not share options**: the same call (same groups) observed in two different
    worlds – other concurrent calls, other threads, another schedule – reads the same options. -/
theorem options_independent_of_other_runs (h0 : C10.Heap)
    (calls calls' : List (List Opt.Group)) (threads threads' : List (Nat × Opt.Path))
    (sched sched' : List Nat) (wf : Opt.CallsWF h0 calls) (wf' : Opt.CallsWF h0 calls')
    (t t' i i' : Nat) (p : Opt.Path) (gs : List Opt.Group) (r r' : List C10.Hd)
    (ht : threads[t]? = some (i, p)) (ht' : threads'[t']? = some (i', p))
    (hc : calls[i]? = some gs) (hc' : calls'[i']? = some gs)
    (hs : ((Opt.exec FactsC09.extractOptionCopies (Opt.progOf calls threads) sched
              (Opt.St.init h0)).th t).seen = some r)
    (hs' : ((Opt.exec FactsC09.extractOptionCopies (Opt.progOf calls' threads') sched'
              (Opt.St.init h0)).th t').seen = some r') :
    r = r' := by
  rw [node_sees_exactly_own_options h0 calls threads sched wf t i p gs r ht hc hs,
    node_sees_exactly_own_options h0 calls' threads' sched' wf' t' i' p gs r' ht' hc' hs']

/-- non-vacuity of the two theorems above: a thread that is scheduled once per group and once
    more has read (whatever `copies` is) -/
theorem node_reads_when_scheduled (copies : Bool) (prog : List (List C10.Slice)) (t : Nat)
    (gs : List C10.Slice) (hp : prog[t]? = some gs) (sched : List Nat) :
    ∀ st : Opt.St, (st.th t).pc ≤ gs.length → gs.length + 1 ≤ (st.th t).pc + sched.count t →
      ((Opt.exec copies prog sched st).th t).seen.isSome = true := by
  have mono_step : ∀ (st : Opt.St) (j : Nat), (st.th t).seen.isSome = true →
      ((Opt.step copies prog st j).th t).seen.isSome = true := by
    intro st j h
    unfold Opt.step
    split
    · exact h
    · dsimp only
      split
      · by_cases e : t = j
        · subst e; simpa [Opt.upd] using h
        · simpa [Opt.upd, e] using h
      · split
        · exact h
        · by_cases e : t = j
          · subst e; simp [Opt.upd]
          · simpa [Opt.upd, e] using h
  have mono : ∀ (s : List Nat) (st : Opt.St), (st.th t).seen.isSome = true →
      ((Opt.exec copies prog s st).th t).seen.isSome = true := by
    intro s
    induction s with
    | nil => intro st h; exact h
    | cons j rest ih => intro st h; exact ih _ (mono_step st j h)
  induction sched with
  | nil => intro st h1 h2; simp at h2; omega
  | cons j rest ih =>
    intro st h1 h2
    simp only [Opt.exec]
    by_cases e : j = t
    · subst e
      have hcnt : (j :: rest).count j = rest.count j + 1 := by simp
      rw [hcnt] at h2
      by_cases hlt : (st.th j).pc < gs.length
      · -- one more group collected
        have hg : gs[(st.th j).pc]? = some gs[(st.th j).pc] := by simp [hlt]
        apply ih
        · simp [Opt.step, hp, hg, Opt.upd]; omega
        · simp [Opt.step, hp, hg, Opt.upd]; omega
      · have hg : gs[(st.th j).pc]? = none := by simp; omega
        apply mono
        by_cases hsn : (st.th j).seen.isSome = true
        · simp [Opt.step, hp, hg, hsn]
        · simp [Opt.step, hp, hg, hsn, Opt.upd]
    · have hcnt : (j :: rest).count t = rest.count t := by
        simp [e]
      rw [hcnt] at h2
      have hsame : (Opt.step copies prog st j).th t = st.th t := by
        unfold Opt.step
        split
        · rfl
        · dsimp only
          split
          · simp [Opt.upd, Ne.symm e]
          · split
            · rfl
            · simp [Opt.upd, Ne.symm e]
      apply ih
      · rw [hsame]; exact h1
      · rw [hsame]; exact h2

/-- a shared Option value `WithLambdaOption(common...)` whose slice has spare capacity
    (3 options in an array of 5), and two calls that each add one option of their own -/
def hazardHeap : C10.Heap :=
  [[⟨1, none⟩, ⟨2, none⟩, ⟨3, none⟩, default, default], [⟨10, none⟩], [⟨20, none⟩]]
def hazardProg : List (List C10.Slice) :=
  [[⟨0, 0, 3, 5⟩, ⟨1, 0, 1, 1⟩], [⟨0, 0, 3, 5⟩, ⟨2, 0, 1, 1⟩]]

/-- the code as it is, on this input, under the overlapping schedule: every node reads
    common ++ its own option -/
example :
    Opt.seenAll FactsC09.extractOptionCopies hazardHeap hazardProg [0, 0, 1, 1, 0, 1]
      = [some [⟨1, none⟩, ⟨2, none⟩, ⟨3, none⟩, ⟨10, none⟩],
         some [⟨1, none⟩, ⟨2, none⟩, ⟨3, none⟩, ⟨20, none⟩]] := by decide

/-- **C10.Slice-aliasing hazard (negation witness).**  If the first group of a node were taken as
    it is (`copies = false`: `optMap[k]` IS the caller's `Option.options` slice), `append` of the
    second group writes into the spare capacity of the caller's array, which both calls see:
    under the schedule  extract₀ extract₀ extract₁ extract₁ read₀ read₁  call 0 executes its node
    with call 1's option (20 instead of 10) and the caller's array has been written; run alone
    (or with the copying extraction) call 0 reads its own option. -/
theorem aliased_first_group_interferes :
    Opt.seenAll false hazardHeap hazardProg [0, 0, 1, 1, 0, 1]
      = [some [⟨1, none⟩, ⟨2, none⟩, ⟨3, none⟩, ⟨20, none⟩],
         some [⟨1, none⟩, ⟨2, none⟩, ⟨3, none⟩, ⟨20, none⟩]]
    ∧ Opt.seenAll false hazardHeap hazardProg [0, 0, 0]
      = [some [⟨1, none⟩, ⟨2, none⟩, ⟨3, none⟩, ⟨10, none⟩], none]
    ∧ Opt.seenAll true hazardHeap hazardProg [0, 0, 1, 1, 0, 1]
      = [some [⟨1, none⟩, ⟨2, none⟩, ⟨3, none⟩, ⟨10, none⟩],
         some [⟨1, none⟩, ⟨2, none⟩, ⟨3, none⟩, ⟨20, none⟩]]
    ∧ (Opt.exec false hazardProg [0, 0, 1, 1, 0, 1] (Opt.St.init hazardHeap)).heap[0]? ≠ hazardHeap[0]? := by
  decide

/-- without spare capacity (`len = cap`) the aliased slice is harmless: `append` reallocates -/
example :
    Opt.seenAll false [[⟨1, none⟩, ⟨2, none⟩, ⟨3, none⟩], [⟨10, none⟩], [⟨20, none⟩]]
      [[⟨0, 0, 3, 3⟩, ⟨1, 0, 1, 1⟩], [⟨0, 0, 3, 3⟩, ⟨2, 0, 1, 1⟩]] [0, 0, 1, 1, 0, 1]
      = [some [⟨1, none⟩, ⟨2, none⟩, ⟨3, none⟩, ⟨10, none⟩],
         some [⟨1, none⟩, ⟨2, none⟩, ⟨3, none⟩, ⟨20, none⟩]] := by decide

/-! ### per-run tool lists -/

/-- **Each run's tool calls are executed by the tools of ITS list** – for the code as it is
    (`toolsNodeRunPathWrites = []`), any number of runs carrying any lists, every interleaving:
    the shared node is never written, a run that has not reached the node holds nothing, a run
    that has holds the conversion of its own `WithToolList` option. -/
theorem tool_list_is_own (lists : Nat → Nat) (sched : List Nat) (i : Nat) :
    let st := Tools.exec (!FactsC09.toolsNodeRunPathWrites.isEmpty) lists sched Tools.St.init
    st.node = ⟨none, none⟩
    ∧ ((st.rs i).tuple = none ∨ (st.rs i).tuple = some (lists i))
    ∧ (i ∈ sched → (st.rs i).tuple = some (lists i)) := by
  have hm : (!FactsC09.toolsNodeRunPathWrites.isEmpty) = false := by decide
  rw [hm]
  have g := Tools.good_exec (lists := lists) sched _ (Tools.good_init lists)
  refine ⟨g.1, ?_, ?_⟩
  · rcases g.2 i with h | h <;> simp [h]
  · intro hi
    rw [Tools.mem_exec sched i hi _ (Tools.good_init lists)]

/-- **Memoised conversion on the shared node ⇒ interference (negation witness).**  The last
    list and its conversion kept in two fields of the ToolsNode, written one after the other
    (the conversion – the user's `Info` calls – in between).  Runs 0 (list 7), 1 and 2 (list 9):
    run 0 starts converting, run 1 runs to completion, run 0 completes (the memo is now
    list 9 ↦ conversion of 7), run 2 finds "its" list memoised and executes list 7's tools. -/
theorem memoised_tool_list_interferes :
    let lists : Nat → Nat := fun i => if i = 0 then 7 else 9
    ((Tools.exec true lists [0, 1, 1, 1, 0, 0, 2] Tools.St.init).rs 2).tuple = some 7
    ∧ ((Tools.exec true lists [2] Tools.St.init).rs 2).tuple = none
    ∧ ((Tools.exec true lists [2, 2, 2] Tools.St.init).rs 2).tuple = some 9
    ∧ ((Tools.exec false lists [0, 1, 1, 1, 0, 0, 2] Tools.St.init).rs 2).tuple = some 9 := by
  decide

/-! ### the successor list of a branching node

`runner.calculateBranch` collects the nodes the branches of a completed node select, and
`resolveCompletedTasks` adds the direct successors (`chanCall.writeTo`, a slice of the COMPILED
runner that aliases `g.dataEdges[name]` and was built by `append`: 3 or 5–7 direct edges leave spare
capacity).  It is the same collection discipline as for the option lists, on node keys. -/

/-- **branch_successors_fresh.** The slice `calculateBranch` returns is made in the call and only
    grown by `x = append(x, …)`; neither it nor `resolveCompletedTasks` appends onto a slice read
    from a field of the compiled runner. -/
theorem branch_successors_fresh : FactsC09.branchSuccessorsFresh = true := by decide

theorem facts_match_branch : FactsC09.branchSuccessorsFresh = Expected.C09.branchSuccessorsFresh := by decide

/-- **The successors a run delivers to are the ones ITS branch conditions selected (plus the direct
    ones)** – for the code as it is (`branchSuccessorsFresh` from /repo), any tables of the compiled
    runner (`h0`; any spare capacity), any number of runs evaluating the node at the same time, each
    with any list of groups (what its conditions returned, the runner's `writeTo`), and EVERY
    interleaving of the appends: what a run reads is the concatenation of its own groups, and the
    runner's arrays are never written. -/
theorem run_delivers_to_own_branch_targets (h0 : C10.Heap) (prog : List (List C10.Slice))
    (wf : Opt.WF h0 prog) (sched : List Nat) (t : Nat) (gs : List C10.Slice) (r : List C10.Hd)
    (hp : prog[t]? = some gs)
    (hs : ((Opt.exec FactsC09.branchSuccessorsFresh prog sched (Opt.St.init h0)).th t).seen = some r) :
    r = (gs.map h0.read).flatten
    ∧ ∀ a, a < h0.length →
        (Opt.exec FactsC09.branchSuccessorsFresh prog sched (Opt.St.init h0)).heap[a]? = h0[a]? := by
  rw [branch_successors_fresh] at hs ⊢
  have inv := Opt.inv_exec wf sched _ (Opt.inv_init h0 prog)
  exact ⟨inv.sn t gs r hp hs, inv.pre⟩

/-- **Appending the selections onto the runner's `writeTo` (negation witness).**  Three direct
    successors (ids 1,2,3: len 3, cap 4) and two branches; run 0 selects 10 then 11, run 1 selects 20
    then 21.  Interleaved as run 0's branch 0, run 1's branch 0, run 0's branch 1, run 0 delivers to
    run 1's target 20 instead of its own 10; alone, or with a list made by the run, it does not. -/
theorem shared_write_to_misroutes_a_run :
    let h : C10.Heap := [[⟨1, none⟩, ⟨2, none⟩, ⟨3, none⟩, default], [⟨10, none⟩], [⟨11, none⟩], [⟨20, none⟩], [⟨21, none⟩]]
    let bad : List (List C10.Slice) :=
      [[⟨0, 0, 3, 4⟩, ⟨1, 0, 1, 1⟩, ⟨2, 0, 1, 1⟩], [⟨0, 0, 3, 4⟩, ⟨3, 0, 1, 1⟩, ⟨4, 0, 1, 1⟩]]
    Opt.seenAll false h bad [0, 0, 1, 1, 0, 0] = [some [⟨1, none⟩, ⟨2, none⟩, ⟨3, none⟩, ⟨20, none⟩, ⟨11, none⟩], none]
    ∧ Opt.seenAll false h bad [0, 0, 0, 0] = [some [⟨1, none⟩, ⟨2, none⟩, ⟨3, none⟩, ⟨10, none⟩, ⟨11, none⟩], none]
    ∧ Opt.seenAll true h bad [0, 0, 1, 1, 0, 0] = [some [⟨1, none⟩, ⟨2, none⟩, ⟨3, none⟩, ⟨10, none⟩, ⟨11, none⟩], none] := by
  decide

end CallOptions

/-! ## callback handlers (Go slice semantics)

"Runs do not share … callback context."  The handler list of a run is a slice; a
`compose.WithCallbacks(hs...)` option keeps the caller's slice `hs`, and a parent context keeps the
slice given to `callbacks.InitCallbacks`.  Concurrent runs that pass the same Option value / derive
their context from the same parent hold windows into the same arrays.  The theorems say what the
list a unit of a run reads is a window into. -/

section CallbackHandlers

/-- the three facts of the code as it is now -/
def repoCbFacts : Cb.Facts :=
  ⟨FactsC09.graphHandlersCollectCopies, FactsC09.nodeHandlersCollectCopies, FactsC09.appendHandlersCopies⟩

/-- **handler_lists_built_by_copy.** In `initGraphCallbacks` and in `initNodeCallbacks` the list
    handed to `AppendHandlers` starts nil and every assignment to it is `cbs = append(cbs, …)` (its
    array is allocated by the run, it is never an option's own slice); `AppendHandlers` appends to a
    copy of the inherited list, never to the inherited slice. -/
theorem handler_lists_built_by_copy :
    FactsC09.graphHandlersCollectCopies = true ∧ FactsC09.nodeHandlersCollectCopies = true ∧
    FactsC09.appendHandlersCopies = true := by decide

theorem facts_match_callbacks : repoCbFacts = Expected.C09.cbFacts := by decide

theorem repo_cb_facts : repoCbFacts = ⟨true, true, true⟩ := by decide

/-- **Every unit of a run fires its callbacks on the handler list of its own call** – for the code
    as it is (the three facts from /repo), any caller memory `h0`, any number of concurrent calls
    (each: the handler list of its context and its `WithCallbacks` options, graph-wide or designated
    to any node path; several calls may hold windows into the same caller arrays – a shared Option
    value, a shared parent context – with any spare capacity), any set of (call, unit) threads and
    EVERY interleaving of their collect / install / read steps: whatever unit `p` of call `i` reads
    when it fires a callback is `Cb.inForce h0 inh gs p` – the context's list, then, level by level
    along the node path of the unit, the handlers of the options of call `i` collected there, in
    call order, as the caller handed them over.  It is a function of the call's own context and
    options only. -/
theorem run_handlers_are_own (h0 : C10.Heap) (calls : List Cb.Call)
    (threads : List (Nat × Opt.Path)) (sched : List Nat) (wf : Cb.CallsWF h0 calls)
    (t i : Nat) (p : Opt.Path) (c : Cb.Call) (r : List C10.Hd)
    (ht : threads[t]? = some (i, p)) (hc : calls[i]? = some c)
    (hs : ((Cb.exec repoCbFacts (Cb.progOf calls threads) sched
              (Cb.St.init h0 (Cb.progOf calls threads))).th t).seen = some r) :
    r = Cb.inForce h0 c.inh c.gs p := by
  rw [repo_cb_facts] at hs
  have wfp := Cb.wf_progOf wf threads
  have inv := Cb.inv_exec wfp sched _ (Cb.inv_init wfp)
  have hp : (Cb.progOf calls threads)[t]? = some (Cb.threadOf c p) := by
    simp [Cb.progOf, ht, List.getD_eq_getElem?_getD, hc]
  rw [Cb.inForce_eq]
  exact inv.sn t _ r hp hs

/-- **The caller's handler arrays are never written** by any run: neither the slice of a
    `WithCallbacks` option nor the slice of a parent context, spare capacity included. -/
theorem caller_handler_arrays_untouched (h0 : C10.Heap) (calls : List Cb.Call)
    (threads : List (Nat × Opt.Path)) (sched : List Nat) (wf : Cb.CallsWF h0 calls)
    (a : Nat) (ha : a < h0.length) :
    (Cb.exec repoCbFacts (Cb.progOf calls threads) sched
        (Cb.St.init h0 (Cb.progOf calls threads))).heap[a]? = h0[a]? := by
  rw [repo_cb_facts]
  have wfp := Cb.wf_progOf wf threads
  exact (Cb.inv_exec wfp sched _ (Cb.inv_init wfp)).pre a ha

/-- **Runs do not share callback context**: the same call (same context list, same options)
    observed in two different worlds – other concurrent calls, other threads, another schedule –
    fires the callbacks of unit `p` on the same handlers. -/
theorem handlers_independent_of_other_runs (h0 : C10.Heap)
    (calls calls' : List Cb.Call) (threads threads' : List (Nat × Opt.Path))
    (sched sched' : List Nat) (wf : Cb.CallsWF h0 calls) (wf' : Cb.CallsWF h0 calls')
    (t t' i i' : Nat) (p : Opt.Path) (c : Cb.Call) (r r' : List C10.Hd)
    (ht : threads[t]? = some (i, p)) (ht' : threads'[t']? = some (i', p))
    (hc : calls[i]? = some c) (hc' : calls'[i']? = some c)
    (hs : ((Cb.exec repoCbFacts (Cb.progOf calls threads) sched
              (Cb.St.init h0 (Cb.progOf calls threads))).th t).seen = some r)
    (hs' : ((Cb.exec repoCbFacts (Cb.progOf calls' threads') sched'
              (Cb.St.init h0 (Cb.progOf calls' threads'))).th t').seen = some r') :
    r = r' := by
  rw [run_handlers_are_own h0 calls threads sched wf t i p c r ht hc hs,
    run_handlers_are_own h0 calls' threads' sched' wf' t' i' p c r' ht' hc' hs']

/-- non-vacuity of the three theorems above: a thread that is scheduled once per instruction and
    once more has read (whatever the facts are) -/
theorem handlers_read_when_scheduled (F : Cb.Facts) (prog : List Cb.Thread) (t : Nat)
    (th : Cb.Thread) (hp : prog[t]? = some th) (sched : List Nat) :
    ∀ st : Cb.St, (st.th t).pc ≤ th.code.length → th.code.length + 1 ≤ (st.th t).pc + sched.count t →
      ((Cb.exec F prog sched st).th t).seen.isSome = true := by
  have mono_step : ∀ (st : Cb.St) (j : Nat), (st.th t).seen.isSome = true →
      ((Cb.step F prog st j).th t).seen.isSome = true := by
    intro st j h
    unfold Cb.step
    split
    · exact h
    · dsimp only
      split
      · by_cases e : t = j
        · subst e; simpa [Cb.upd] using h
        · simpa [Cb.upd, e] using h
      · by_cases e : t = j
        · subst e; simpa [Cb.upd] using h
        · simpa [Cb.upd, e] using h
      · split
        · exact h
        · by_cases e : t = j
          · subst e; simp [Cb.upd]
          · simpa [Cb.upd, e] using h
  have mono : ∀ (s : List Nat) (st : Cb.St), (st.th t).seen.isSome = true →
      ((Cb.exec F prog s st).th t).seen.isSome = true := by
    intro s
    induction s with
    | nil => intro st h; exact h
    | cons j rest ih => intro st h; exact ih _ (mono_step st j h)
  induction sched with
  | nil => intro st h1 h2; simp at h2; omega
  | cons j rest ih =>
    intro st h1 h2
    simp only [Cb.exec]
    by_cases e : j = t
    · subst e
      have hcnt : (j :: rest).count j = rest.count j + 1 := by simp
      rw [hcnt] at h2
      by_cases hlt : (st.th j).pc < th.code.length
      · have hg : th.code[(st.th j).pc]? = some th.code[(st.th j).pc] := by simp [hlt]
        cases hi : th.code[(st.th j).pc] with
        | collect top g =>
          rw [hi] at hg
          apply ih
          · simp [Cb.step, hp, hg, Cb.upd]; omega
          · simp [Cb.step, hp, hg, Cb.upd]; omega
        | install =>
          rw [hi] at hg
          apply ih
          · simp [Cb.step, hp, hg, Cb.upd]; omega
          · simp [Cb.step, hp, hg, Cb.upd]; omega
      · have hg : th.code[(st.th j).pc]? = none := by simp; omega
        apply mono
        by_cases hsn : (st.th j).seen.isSome = true
        · simp [Cb.step, hp, hg, hsn]
        · simp [Cb.step, hp, hg, hsn, Cb.upd]
    · have hcnt : (j :: rest).count t = rest.count t := by
        simp [e]
      rw [hcnt] at h2
      have hsame : (Cb.step F prog st j).th t = st.th t := by
        unfold Cb.step
        split
        · rfl
        · dsimp only
          split
          · simp [Cb.upd, Ne.symm e]
          · simp [Cb.upd, Ne.symm e]
          · split
            · rfl
            · simp [Cb.upd, Ne.symm e]
      apply ih
      · rw [hsame]; exact h1
      · rw [hsame]; exact h2

/-- a shared `WithCallbacks(common...)` Option value whose handler slice has spare capacity (2
    handlers in an array of 4), and two calls that each add one graph-wide handler of their own;
    the context of the calls carries no callback manager -/
def cbHazardHeap : C10.Heap :=
  [[⟨1, none⟩, ⟨2, none⟩, default, default], [⟨10, none⟩], [⟨20, none⟩]]
def cbHazardCalls : List Cb.Call :=
  [⟨C10.Slice.nil, [⟨false, [], ⟨0, 0, 2, 4⟩⟩, ⟨false, [], ⟨1, 0, 1, 1⟩⟩]⟩,
   ⟨C10.Slice.nil, [⟨false, [], ⟨0, 0, 2, 4⟩⟩, ⟨false, [], ⟨2, 0, 1, 1⟩⟩]⟩]
/-- one thread per call, building the handler list of the called graph itself -/
def cbHazardProg : List Cb.Thread := Cb.progOf cbHazardCalls [(0, []), (1, [])]

/-- the threads' code: collect the shared list, collect the own list, install -/
example : cbHazardProg =
    [⟨C10.Slice.nil, [.collect true ⟨0, 0, 2, 4⟩, .collect true ⟨1, 0, 1, 1⟩, .install]⟩,
     ⟨C10.Slice.nil, [.collect true ⟨0, 0, 2, 4⟩, .collect true ⟨2, 0, 1, 1⟩, .install]⟩] := by decide

/-- the code as it is, on this input, under the overlapping schedule (run 0 builds its list, run 1
    builds its list, then both fire a callback): each run's callbacks go to common ++ its own handler -/
example :
    Cb.seenAll repoCbFacts cbHazardHeap cbHazardProg [0, 0, 0, 1, 1, 1, 0, 1]
      = [some [⟨1, none⟩, ⟨2, none⟩, ⟨10, none⟩], some [⟨1, none⟩, ⟨2, none⟩, ⟨20, none⟩]] := by decide

/-- **Handler list aliased with the first option's slice (negation witness).**  If
    `initGraphCallbacks` took the first option's handler slice as it is
    (`graphCollectCopies = false`) the second option's handlers are appended into the spare
    capacity of the caller's array, and – no manager in the context – that window IS the run's
    handler list: after run 1 has built its list, run 0's later callbacks go to run 1's own
    handler (20 instead of 10) and the caller's array has been written; alone (or with the
    copying collection) run 0's callbacks go to its own handler. -/
theorem aliased_first_handler_list_interferes :
    Cb.seenAll ⟨false, true, true⟩ cbHazardHeap cbHazardProg [0, 0, 0, 1, 1, 1, 0, 1]
      = [some [⟨1, none⟩, ⟨2, none⟩, ⟨20, none⟩], some [⟨1, none⟩, ⟨2, none⟩, ⟨20, none⟩]]
    ∧ Cb.seenAll ⟨false, true, true⟩ cbHazardHeap cbHazardProg [0, 0, 0, 0]
      = [some [⟨1, none⟩, ⟨2, none⟩, ⟨10, none⟩], none]
    ∧ Cb.seenAll ⟨true, true, true⟩ cbHazardHeap cbHazardProg [0, 0, 0, 1, 1, 1, 0, 1]
      = [some [⟨1, none⟩, ⟨2, none⟩, ⟨10, none⟩], some [⟨1, none⟩, ⟨2, none⟩, ⟨20, none⟩]]
    ∧ (Cb.exec ⟨false, true, true⟩ cbHazardProg [0, 0, 0, 1, 1, 1, 0, 1]
        (Cb.St.init cbHazardHeap cbHazardProg)).heap[0]? ≠ cbHazardHeap[0]? := by
  decide

/-- the same two calls with both options designated to node `w` of a graph called without any
    graph-wide handler: the list is collected by `initNodeCallbacks` of `w` -/
def cbNodeHazardProg : List Cb.Thread :=
  Cb.progOf
    [⟨C10.Slice.nil, [⟨true, ["w"], ⟨0, 0, 2, 4⟩⟩, ⟨true, ["w"], ⟨1, 0, 1, 1⟩⟩]⟩,
     ⟨C10.Slice.nil, [⟨true, ["w"], ⟨0, 0, 2, 4⟩⟩, ⟨true, ["w"], ⟨2, 0, 1, 1⟩⟩]⟩]
    [(0, ["w"]), (1, ["w"])]

/-- **The same hazard one level down (negation witness, `nodeCollectCopies = false`).** -/
theorem aliased_node_handler_list_interferes :
    Cb.seenAll ⟨true, false, true⟩ cbHazardHeap cbNodeHazardProg [0, 0, 0, 0, 1, 1, 1, 1, 0, 1]
      = [some [⟨1, none⟩, ⟨2, none⟩, ⟨20, none⟩], some [⟨1, none⟩, ⟨2, none⟩, ⟨20, none⟩]]
    ∧ Cb.seenAll ⟨true, true, true⟩ cbHazardHeap cbNodeHazardProg [0, 0, 0, 0, 1, 1, 1, 1, 0, 1]
      = [some [⟨1, none⟩, ⟨2, none⟩, ⟨10, none⟩], some [⟨1, none⟩, ⟨2, none⟩, ⟨20, none⟩]] := by
  decide

/-- two calls whose contexts derive from ONE parent context whose handler slice has spare capacity
    (3 handlers in an array of 4), each with one graph-wide handler of its own -/
def cbParentHeap : C10.Heap :=
  [[⟨7, none⟩, ⟨8, none⟩, ⟨9, none⟩, default], [⟨10, none⟩], [⟨20, none⟩]]
def cbParentProg : List Cb.Thread :=
  Cb.progOf
    [⟨⟨0, 0, 3, 4⟩, [⟨false, [], ⟨1, 0, 1, 1⟩⟩]⟩, ⟨⟨0, 0, 3, 4⟩, [⟨false, [], ⟨2, 0, 1, 1⟩⟩]⟩]
    [(0, []), (1, [])]

/-- **In-place append to the inherited list (negation witness, `installCopies = false`; the
    defect repaired by commit dcdede6).** -/
theorem inplace_append_to_parent_handlers_interferes :
    Cb.seenAll ⟨true, true, false⟩ cbParentHeap cbParentProg [0, 0, 1, 1, 0, 1]
      = [some [⟨7, none⟩, ⟨8, none⟩, ⟨9, none⟩, ⟨20, none⟩], some [⟨7, none⟩, ⟨8, none⟩, ⟨9, none⟩, ⟨20, none⟩]]
    ∧ Cb.seenAll ⟨true, true, true⟩ cbParentHeap cbParentProg [0, 0, 1, 1, 0, 1]
      = [some [⟨7, none⟩, ⟨8, none⟩, ⟨9, none⟩, ⟨10, none⟩], some [⟨7, none⟩, ⟨8, none⟩, ⟨9, none⟩, ⟨20, none⟩]]
    ∧ (Cb.exec ⟨true, true, false⟩ cbParentProg [0, 0, 1, 1, 0, 1]
        (Cb.St.init cbParentHeap cbParentProg)).heap[0]? ≠ cbParentHeap[0]? := by
  decide

/-- without spare capacity (`len = cap`) the aliased list is harmless: `append` reallocates -/
example :
    Cb.seenAll ⟨false, true, true⟩ [[⟨1, none⟩, ⟨2, none⟩], [⟨10, none⟩], [⟨20, none⟩]]
      [⟨C10.Slice.nil, [.collect true ⟨0, 0, 2, 2⟩, .collect true ⟨1, 0, 1, 1⟩, .install]⟩,
       ⟨C10.Slice.nil, [.collect true ⟨0, 0, 2, 2⟩, .collect true ⟨2, 0, 1, 1⟩, .install]⟩]
      [0, 0, 0, 1, 1, 1, 0, 1]
      = [some [⟨1, none⟩, ⟨2, none⟩, ⟨10, none⟩], some [⟨1, none⟩, ⟨2, none⟩, ⟨20, none⟩]] := by decide

end CallbackHandlers

/-! ## many runs in flight at once

"May be invoked from any number of goroutines at once … runs do not share channels."  What a run
needs in order to make progress must not be something the runs of the process compete for. -/

section InFlight

/-- **no_shared_sync_on_run_path.** No package-level variable of compose / flow/agent/… that is a
    channel, a lock, a condition, a wait group or a semaphore is referenced by a function of its
    package: nothing a run waits on is shared with the other runs of the process. -/
theorem no_shared_sync_on_run_path : FactsC09.runPathSharedSync = [] := by decide

theorem facts_match_inflight : FactsC09.runPathSharedSync = Expected.C09.runPathSharedSync := by decide

/-- is there a process-wide synchronisation object on the run path of the code as it is now -/
def repoSharedSync : Bool := !FactsC09.runPathSharedSync.isEmpty

theorem repo_shared_sync : repoSharedSync = false := by decide

/-- **No number of concurrent runs is ever stuck** – for the code as it is (`runPathSharedSync`
    from /repo), ANY array of calls (any number of runs, any number of tool calls per message,
    tools that delegate to an inner tools node with any number of calls), whatever capacity a
    resource would have, and EVERY interleaving of starts and returns, with every outer tool call
    held at a barrier until every outer call of every run is in flight: the state reached is not
    stuck – either every call has returned or some call can move. -/
theorem no_run_is_ever_stuck (cap : Nat) (cs : Array Flight.Call) (wf : Flight.WF cs) (sched : List Nat) :
    Flight.stuck repoSharedSync cap cs
      (Flight.exec repoSharedSync cap cs sched (Flight.St.init cs.size)) = false := by
  rw [repo_shared_sync]
  have inv := Flight.inv_exec wf false cap sched _ (Flight.inv_init cs)
  unfold Flight.stuck
  rcases Flight.progress wf cap inv with h | ⟨c, hc, he⟩
  · simp [h]
  · have : ((List.range cs.size).all fun c =>
        !Flight.enabled false cap cs (Flight.exec false cap cs sched (Flight.St.init cs.size)) c) = false := by
      rw [Bool.eq_false_iff]
      intro hall
      rw [Flight.all_range] at hall
      have := hall c hc
      rw [he] at this
      cases this
    rw [this]; simp

/-- **Every effective step is progress and there is only so much to do**: an enabled step moves one
    call one phase forward (`work` + 1), and `work ≤ 2·n`; so every execution that keeps choosing
    calls that can move is at most `2·n` steps long (whatever is shared). -/
theorem every_effective_step_is_progress (shared : Bool) (cap : Nat) (cs : Array Flight.Call)
    (st : Flight.St) (hsz : st.ph.size = cs.size) (c : Nat)
    (he : Flight.enabled shared cap cs st c = true) :
    Flight.work cs (Flight.step shared cap cs st c) = Flight.work cs st + 1
    ∧ Flight.work cs (Flight.step shared cap cs st c) ≤ 2 * cs.size :=
  ⟨Flight.work_step shared cap hsz c he, Flight.work_le cs _⟩

/-- **All runs return, however many they are and wherever the interleaving has taken them**: from
    the state reached by ANY schedule, letting the calls that can move, move (`drain`: the first
    enabled call, `2·n` times) brings every call of every run back.  With
    `no_run_is_ever_stuck`: no reachable state is doomed. -/
theorem every_reachable_state_completes (cap : Nat) (cs : Array Flight.Call) (wf : Flight.WF cs)
    (sched : List Nat) :
    Flight.allDone cs
      (Flight.drain repoSharedSync cap cs (2 * cs.size)
        (Flight.exec repoSharedSync cap cs sched (Flight.St.init cs.size))) = true := by
  rw [repo_shared_sync]
  exact Flight.drain_completes wf cap _ _ (Flight.inv_exec wf false cap sched _ (Flight.inv_init cs)) (by omega)

/-- three runs, each a message with two plain tool calls -/
def flightPlain : Array Flight.Call := Flight.build [⟨"a", 2, 0⟩, ⟨"b", 2, 0⟩, ⟨"c", 2, 0⟩]
/-- two runs, each a message with two calls of a tool that delegates to an inner tools node with
    two leaf calls (agent-as-tool) -/
def flightNested : Array Flight.Call := Flight.build [⟨"a", 2, 2⟩, ⟨"b", 2, 2⟩]

/-- the hypotheses of the theorems above are satisfiable by the arrays the harness generates -/
example : Flight.WF flightPlain ∧ Flight.WF flightNested :=
  ⟨Flight.wf_of_wfb (by decide), Flight.wf_of_wfb (by decide)⟩

example : flightNested.size = 12 ∧ flightNested[3]? = some ⟨none, true⟩ ∧ flightNested[5]? = some ⟨some 3, true⟩ := by
  decide

set_option maxRecDepth 8000 in
/-- **A process-wide pool of slots couples the liveness of unrelated runs (negation witness).**
    `shared = true`, 2 slots for the extra tool calls of the whole process.  Three runs with two
    plain calls each: the extra calls of runs `a` and `b` take both slots, the extra call of run `c`
    cannot start, so the barrier "all six calls in flight" never opens – stuck, although each run
    alone completes and, with nothing shared, the same schedule is not stuck and completes.
    Nested: two runs whose outer extra calls hold both slots while they wait for their inner
    activations, whose extra calls need a slot – a deadlock of runs that do not depend on each
    other at all. -/
theorem process_wide_slots_couple_runs :
    Flight.stuck true 2 flightPlain
      (Flight.exec true 2 flightPlain [1, 3, 5, 0, 2, 4] (Flight.St.init flightPlain.size)) = true
    ∧ Flight.stuck false 2 flightPlain
      (Flight.exec false 2 flightPlain [1, 3, 5, 0, 2, 4] (Flight.St.init flightPlain.size)) = false
    ∧ Flight.allDone (Flight.build [⟨"a", 2, 0⟩])
      (Flight.exec true 2 (Flight.build [⟨"a", 2, 0⟩]) [1, 0, 1, 0] (Flight.St.init 2)) = true
    ∧ Flight.stuck true 2 flightNested
      (Flight.exec true 2 flightNested [0, 3, 6, 9, 1, 4, 7, 10, 1, 4, 7, 10, 2, 5, 8, 11]
        (Flight.St.init flightNested.size)) = true
    ∧ Flight.allDone flightNested
      (Flight.drain false 2 flightNested 24
        (Flight.exec false 2 flightNested [0, 3, 6, 9, 1, 4, 7, 10, 1, 4, 7, 10, 2, 5, 8, 11]
          (Flight.St.init flightNested.size))) = true := by
  decide

/-- **no_sync_on_compiled_object.** No struct type that outlives a run has a channel / Mutex /
    RWMutex / Cond / WaitGroup field, and no function keeps such an object in a local that a closure
    escaping the function captures (e.g. a closure `compile()` stores in the runner): nothing a run
    locks or waits on belongs to the compiled object. -/
theorem no_sync_on_compiled_object : FactsC09.compiledObjectSync = [] := by decide

theorem facts_match_hold : FactsC09.compiledObjectSync = Expected.C09.compiledObjectSync := by decide

/-- is user code of a run entered under a lock of the compiled object, for the code as it is now -/
def repoObjectLock : Bool := !FactsC09.compiledObjectSync.isEmpty

/-- **No run waits for a run parked in its own user code** – for the code as it is
    (`compiledObjectSync` from /repo), any number `n` of runs of one compiled object, any run
    `parked` inside its state generator / state handler / node body / callback (it stays there until
    every other run has returned) and EVERY interleaving so far: scheduling each of the OTHER runs
    twice – the parked run does not move – brings every one of them back. -/
theorem no_run_waits_for_a_parked_run (n parked : Nat) (sched : List Nat) (j : Nat)
    (hj : j < n) (hne : j ≠ parked) :
    2 ≤ (Hold.exec repoObjectLock n parked (Hold.othersTwice n parked)
          (Hold.exec repoObjectLock n parked sched Hold.St.init)).pc j := by
  have hl : repoObjectLock = false := by decide
  rw [hl]
  have h := Hold.exec_advance n parked j hj hne (Hold.othersTwice n parked)
    (Hold.exec false n parked sched Hold.St.init)
  rw [Hold.count_othersTwice n parked j hj hne] at h
  have hm := Hold.exec_mono n parked sched Hold.St.init j
  omega

/-- **A lock on the compiled object couples the runs (negation witness).**  Run 0 parks inside the
    locked section; runs 1 and 2, scheduled as often as one likes, never get past their first step
    (and the parked run waits for them: a deadlock); without the lock the same schedule brings both
    back while run 0 is still parked. -/
theorem lock_on_compiled_object_couples_runs :
    let st := Hold.exec true 3 0 [0, 1, 2, 1, 2, 1, 2, 0] Hold.St.init
    (st.pc 0 = 1 ∧ st.pc 1 = 0 ∧ st.pc 2 = 0)
    ∧ (let st' := Hold.exec false 3 0 [0, 1, 2, 1, 2] Hold.St.init
       st'.pc 0 = 1 ∧ st'.pc 1 = 2 ∧ st'.pc 2 = 2) := by
  decide

end InFlight

/-! ## run errors (per-run values)

"Each run returns what it would return if it ran alone" includes a run that FAILS.  The error
of a graph run is an object (`*internalError`) that every enclosing graph writes to in place
(fact `errorPathMutators`), so the clause holds only if no two runs can reach the same object. -/

section RunErrors

/-- **run_errors_not_stored.** No value of the error type that is mutated in place is kept in a
    package-level variable, a struct field, a map/slice element or a literal field: the only
    references to a run error are on the return path of the run that failed. -/
theorem run_errors_not_stored : FactsC09.storedRunErrors = [] := by decide

theorem facts_match_errors :
    FactsC09.storedRunErrors = Expected.C09.storedRunErrors ∧
    FactsC09.errorPathMutators = Expected.C09.errorPathMutators := by decide

/-- **The error a failing run reports names the run's own nesting path** (specification level).
    The error is built the way compose/error.go builds it – made by the failing graph, the key of
    the node it came out of prepended by every enclosing graph (`Err.descend`, `Err.wrapNode`) –
    and it is what the object and the directive alone determine (`Err.progOf`): a node failure in
    level `l` is `NodeRunError` with path = the keys of the graphs the run is nested in at level
    `l`, then the node; a failure of the innermost graph run (step limit, branch, fan-in) is
    `GraphRunError` with path = the keys of all enclosing graph nodes.  A run told to succeed
    succeeds. -/
theorem error_path_is_own_nesting_path (o : Err.Obj) (tok : String) :
    (∀ l, l < o.levels.length →
      Err.runSpec o tok (.fail l)
        = .err ⟨"NodeRunError", "boom", Err.nesting o.levels l ++ ["f" ++ toString l]⟩)
    ∧ (o.site ≠ .none → o.levels ≠ [] →
      Err.runSpec o tok .site
        = .err ⟨"GraphRunError", Err.siteCause o.site, Err.nesting o.levels (o.levels.length - 1)⟩)
    ∧ (∃ v, Err.runSpec o tok .ok = .ok v) := by
  refine ⟨?_, ?_, ?_⟩
  · intro l hl
    have h := Err.descend_fail o.site o.levels 0 l (tok ++ "~" ++ ("f" ++ toString l)) hl
    simp only [Nat.zero_add] at h
    simpa [Err.runSpec, Err.nesting_eq] using h
  · intro hs hne
    have h := Err.descend_site o.site hs o.levels 0 (tok ++ "~" ++ "site") hne
    simpa [Err.runSpec, Err.nesting_eq] using h
  · exact Err.descend_ok o.site o.levels 0 _

/-- the program the error-object machine runs for a failing call is the specification's error,
    split into the object's initial path and the keys the enclosing graphs prepend -/
theorem prog_matches_spec (o : Err.Obj) (tok : String) (d : Err.Dir) (p : Err.Prog)
    (h : Err.progOf o d = some p) :
    Err.runSpec o tok d = .err ⟨p.tag, p.cause, p.ups ++ p.init⟩ := by
  obtain ⟨hf, hs, _⟩ := error_path_is_own_nesting_path o tok
  cases d with
  | ok => simp [Err.progOf] at h
  | fail l =>
    simp only [Err.progOf] at h
    split at h
    · rename_i hl
      cases h
      exact hf l hl
    · cases h
  | site =>
    simp only [Err.progOf] at h
    split at h
    · cases h
    · rename_i hn
      have hne : o.levels ≠ [] := by
        intro e; rw [e] at hn; exact hn rfl
      cases hsite : o.site <;> rw [hsite] at h <;> simp only [] at h
      · cases h
      all_goals
        cases h
        have := hs (by rw [hsite]; simp) hne
        rw [hsite] at this
        simpa [Err.siteCause] using this

/-- **A failing run's error is its own** – for the code as it is (`storedRunErrors` from /repo),
    any objects that exist before the runs (`h0`), any number of failing runs (of one compiled
    object or of several: a run is just its program), and EVERY interleaving of the steps
    "obtain the error object" / "an enclosing graph prepends its node key": once the schedule
    has let run `i` return (`ups.length + 1` steps), the error it returned reads exactly
    ⟨its class, its cause, its own node path⟩ – and since every longer schedule is a schedule,
    it keeps reading so whatever other runs do afterwards; the objects that existed before are
    never written. -/
theorem run_error_is_own (h0 : List Err.Cell) (progs : List (Option Err.Prog)) (sched : List Nat)
    (i : Nat) (p : Err.Prog) (hp : progs[i]? = some (some p))
    (hfin : p.ups.length + 1 ≤ sched.count i) :
    let st := Err.exec (Err.freshOf FactsC09.storedRunErrors) progs sched (Err.St.init h0)
    Err.read st i = some ⟨p.tag, p.cause, p.ups ++ p.init⟩
    ∧ ∀ a, a < h0.length → st.heap[a]? = h0[a]? := by
  have hf : Err.freshOf FactsC09.storedRunErrors = true := by decide
  rw [hf]
  have g := Err.good_exec (h0 := h0) (progs := progs) sched _ (Err.good_init h0 progs)
  refine ⟨?_, g.pre⟩
  have hpc : ((Err.exec true progs sched (Err.St.init h0)).rs i).pc = p.ups.length + 1 := by
    rcases Err.pc_exec i p hp sched _ (Err.good_init h0 progs) with h | h
    · rw [h]; simp only [Err.St.init, Nat.zero_add]; omega
    · simp [Err.St.init] at h
  obtain ⟨q, a, h1, h2, _, _, h5⟩ := g.own i (by rw [hpc]; omega)
  rw [hp] at h1
  cases h1
  rw [hpc] at h5
  simp only [Err.read, h2, Option.bind_some, h5]
  simp [Err.want]

/-- **Each failing run returns what it returns alone**: the calls of the correspondence check
    (any objects, any directives), interleaved in any way – the error a call returned is the one
    the specification gives for that call alone. -/
theorem failing_run_returns_what_it_returns_alone (h0 : List Err.Cell)
    (calls : List (Err.Obj × String × Err.Dir)) (sched : List Nat) (i : Nat)
    (o : Err.Obj) (tok : String) (d : Err.Dir) (p : Err.Prog)
    (hc : calls[i]? = some (o, tok, d)) (hp : Err.progOf o d = some p)
    (hfin : p.ups.length + 1 ≤ sched.count i) :
    ∃ e, Err.runSpec o tok d = .err e ∧
      Err.read (Err.exec (Err.freshOf FactsC09.storedRunErrors)
        (calls.map fun c => Err.progOf c.1 c.2.2) sched (Err.St.init h0)) i
        = some ⟨e.tag, e.cause, e.path⟩ := by
  refine ⟨⟨p.tag, p.cause, p.ups ++ p.init⟩, prog_matches_spec o tok d p hp, ?_⟩
  have hpi : (calls.map fun c => Err.progOf c.1 c.2.2)[i]? = some (some p) := by
    simp [hc, hp]
  exact (run_error_is_own h0 _ sched i p hpi hfin).1

/-- the runs of the negation witness: a step-limit overrun in a graph nested as node `agent`
    (twice: two runs of one compiled object), and in graphs nested as `alpha` / `beta` (two
    different compiled objects) -/
def overrun (key : String) : Option Err.Prog := some ⟨"GraphRunError", "maxsteps", true, [], [key]⟩

/-- **The "exceeds max steps" error built once ⇒ interference (negation witness).**
    (`storedRunErrors = ["compose/error.go:var:errRunExceedMaxSteps"]`, i.e. `fresh = false`:
    the seeded change C09-22.)  Two SUCCESSIVE runs of one compiled object: the second reports
    `[agent, agent]`, and the error the first run returned earlier now reads the same; alone a
    run reports `[agent]`; runs of two DIFFERENT compiled objects report each other's node; the
    package-level object has been written; with per-run allocation the same schedules give every
    run its own path. -/
theorem shared_max_steps_error_interferes :
    (Err.read (Err.exec false [overrun "agent", overrun "agent"] [0, 0, 1, 1]
        (Err.St.init Err.sharedHeap)) 1).map (·.path) = some ["agent", "agent"]
    ∧ (Err.read (Err.exec false [overrun "agent", overrun "agent"] [0, 0, 1, 1]
        (Err.St.init Err.sharedHeap)) 0).map (·.path) = some ["agent", "agent"]
    ∧ (Err.read (Err.exec false [overrun "agent", overrun "agent"] [0, 0]
        (Err.St.init Err.sharedHeap)) 0).map (·.path) = some ["agent"]
    ∧ (Err.read (Err.exec false [overrun "alpha", overrun "beta"] [0, 1, 0, 1]
        (Err.St.init Err.sharedHeap)) 0).map (·.path) = some ["beta", "alpha"]
    ∧ (Err.exec false [overrun "alpha", overrun "beta"] [0, 1, 0, 1]
        (Err.St.init Err.sharedHeap)).heap[0]? ≠ Err.sharedHeap[0]?
    ∧ (Err.read (Err.exec true [overrun "agent", overrun "agent"] [0, 0, 1, 1]
        (Err.St.init Err.sharedHeap)) 1).map (·.path) = some ["agent"]
    ∧ (Err.read (Err.exec true [overrun "alpha", overrun "beta"] [0, 1, 0, 1]
        (Err.St.init Err.sharedHeap)) 0).map (·.path) = some ["alpha"] := by
  decide

/-- non-vacuity: a node failure two graphs deep and a step-limit overrun, through the
    specification -/
example :
    Err.render (Err.runSpec ⟨[⟨"", 1, 0⟩, ⟨"agent", 0, 1⟩, ⟨"inner", 0, 0⟩], .loop⟩ "c0" (.fail 2))
      = "err|NodeRunError|boom|agent,inner,f2"
    ∧ Err.render (Err.runSpec ⟨[⟨"", 1, 0⟩, ⟨"agent", 0, 1⟩, ⟨"inner", 0, 0⟩], .loop⟩ "c0" .site)
      = "err|GraphRunError|maxsteps|agent,inner"
    ∧ Err.render (Err.runSpec ⟨[⟨"", 1, 0⟩, ⟨"agent", 0, 1⟩], .loop⟩ "c0" .ok)
      = "ok|c0~ok.p0_0.f0.f1.ping.pong.q1_0" := by decide

end RunErrors

/-! ## non-vacuity -/

/-- two calls of a fan-out/fan-in graph with state and a per-call option, interleaved -/
example :
    runInterleaved repoAlloc
      [⟨false, [⟨"a", true, false⟩]⟩, ⟨false, [⟨"b", false, true⟩, ⟨"c", true, false⟩]⟩]
      [("x", "o"), ("y", "p")] [0, 1, 1, 0]
    = ["{b=xabo,c=xac}#2", "{b=yabp,c=yac}#2"] := by decide

example : runAlone [⟨true, [⟨"a", false, false⟩, ⟨"b", true, false⟩]⟩] "x" "" = "xb#1" := by decide

/-! ## negation witnesses: what breaks when a fact flips -/

/-- the allocation table the tree had with the react `directReturn` closure assigning the
    constructor's named result (the write factgen lists for react.go) -/
def allocWithCapturedWrite : Alloc :=
  allocOf true true true true true true true ["flow/agent/react/react.go:buildReturnDirectly:captured:err"] []

/-- **Captured constructor variable ⇒ interference.** Two concurrent `Generate` calls through
    the `directReturn` closure: call 0's ProcessState yields `nil`, call 1's yields `E`;
    under the schedule write₀ write₁ read₀ read₁ call 0 returns call 1's outcome, although
    alone it returns its own. -/
theorem captured_write_interferes :
    (load allocWithCapturedWrite
        (exec allocWithCapturedWrite (directReturnStep fun i => if i = 0 then "nil" else "E")
          [0, 1, 0, 1] (initHeap [("a", ""), ("b", "")])) 0).cm = "E"
    ∧ (alone (directReturnStep fun i => if i = 0 then "nil" else "E") 0 2 ⟨"a", 0, "", 0, ""⟩).cm
        = "nil" := by decide

/-- **State hoisted into the compiled object ⇒ interference.** If `runCtx` did not create
    the state per run, two runs that each increment it once would see 2. -/
theorem shared_state_interferes :
    (load (allocOf true true true true true true false [] []) 
        (exec (allocOf true true true true true true false [] []) (fun _ s => { s with st := s.st + 1 })
          [0, 1] (initHeap [("a", ""), ("b", "")])) 0).st = 2
    ∧ (alone (fun _ s => { s with st := s.st + 1 }) 0 1 ⟨"a", 0, "", 0, ""⟩).st = 1 := by decide

/-- **Channels hoisted ⇒ interference.** With a shared channel manager the value in flight of
    one call is overwritten by the other. -/
theorem shared_channels_interfere :
    runInterleaved (allocOf false true true true true true true [] []) [⟨false, [⟨"a", false, false⟩]⟩]
      [("x", ""), ("y", "")] [0, 1] ≠ ["xa#0", "ya#0"] := by decide

/-- **Completion queue recycled through the compiled object ⇒ interference.** (The
    `sync.Pool` change of /tmp/mut/out/C09-2: `taskManagerQueueFresh = false`.)  Run 0 has
    returned early; its straggling node (index 0) parks its finished task in the queue it was
    given; run 1, which was handed the same queue, takes it as its own.  With a per-run queue
    run 1 finds nothing foreign. -/
theorem recycled_queue_interferes :
    (load (allocOf true true true true false true true [] [])
        (exec (allocOf true true true true false true true [] []) (queueStep fun i => i == 0)
          [0, 1] (initHeap [("bad", ""), ("good", "")])) 1).cm = "good1"
    ∧ (load Alloc.allPerRun
        (exec Alloc.allPerRun (queueStep fun i => i == 0)
          [0, 1] (initHeap [("bad", ""), ("good", "")])) 1).cm = "good0" := by decide

end EinoV.C09
