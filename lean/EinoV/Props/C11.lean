/-
  C11 — Graph state is per run and accessed under mutual exclusion.
  Property theorems.  Model: EinoV/Model/C11.lean.  Source facts: EinoV/Gen/FactsC11.lean
  (regenerated from /repo on every run).

  Reading guide.  A *thread* is one task pipeline (pre-handler, body with its
  `ProcessState` calls, post-handler) — `Task.prog`; `run locks guard sched sys` executes
  the micro-steps lock / load / store / unlock of the picked threads; `sched : List Nat`
  is an arbitrary interleaving and `guard` an arbitrary additional scheduling restriction
  (so the theorems cover the engine's real schedules — the run loop executing pre- and
  post-handlers sequentially, `submit` batches, the inline first task, eager and lock-step
  modes — and every other one).  `arun order` executes whole operations atomically.
-/
import EinoV.Model.C11
import EinoV.Proofs.C11
import EinoV.Model.C11Paths
import EinoV.Proofs.C11Paths
import EinoV.Model.C11Late
import EinoV.Proofs.C11Late
import EinoV.Model.C11Loop
import EinoV.Proofs.C11Loop
import EinoV.Gen.FactsC11
import EinoV.Expected.C11

namespace EinoV.C11
open EinoV.Gen

/-- the lock table as extracted from compose/state.go on this run -/
def srcLocks : LockFacts :=
  { pre := FactsC11.lockPre, post := FactsC11.lockPost, streamPre := FactsC11.lockStreamPre,
    streamPost := FactsC11.lockStreamPost, process := FactsC11.lockProcess,
    getState := FactsC11.getStateCallerLocked }

/-- Source fact tie: the regenerated facts are the ones the model is run with. -/
theorem facts_match :
    srcLocks = Expected.C11.locks ∧
    FactsC11.mutexPerState = Expected.C11.mutexPerState ∧
    FactsC11.genPerRun = Expected.C11.genPerRun ∧
    FactsC11.cpSavesState = Expected.C11.cpSavesState ∧
    FactsC11.cpRestoredBeforeTasks = Expected.C11.cpRestoredBeforeTasks ∧
    FactsC11.preBeforeSpawn = Expected.C11.preBeforeSpawn ∧
    FactsC11.postAfterDone = Expected.C11.postAfterDone ∧
    FactsC11.cpSavesOwnStateOnly = Expected.C11.cpSavesOwnStateOnly ∧
    FactsC11.nodePathFresh = Expected.C11.nodePathFresh := by decide

/-- Every one of the five wrappers of state.go holds the mutex of the state object
    (`mutexPerState`: the mutex that lives in the same `internalState`) around the user
    call. -/
theorem wrappers_lock :
    FactsC11.mutexPerState = true ∧ ∀ w, w ≠ Wrapper.getState → srcLocks.of w = true := by
  refine ⟨by decide, ?_⟩
  intro w hw
  cases w <;> first | rfl | exact absurd rfl hw

variable {S V : Type}

/-- **mutual_exclusion.** In every reachable configuration at most one pre-handler,
    post-handler or `ProcessState` callback is inside its user function, it holds the
    mutex, and what it has read of the state is still current. -/
theorem mutual_exclusion (guard : Sys S V → Nat → Bool) (sched : List Nat) (s0 : S)
    (ths : List (List (Op S V) × V)) (h : NoGetState ths) :
    let fin := run srcLocks.of guard sched (init s0 ths)
    (∀ i j, fin.phase i ≠ .idle → fin.phase j ≠ .idle → i = j) ∧
    (∀ i, fin.phase i ≠ .idle → fin.holder = some i) ∧
    (∀ i snap, fin.phase i = .loaded snap → snap = fin.core.shared) := by
  intro fin
  have hl := allLocked_of_noGetState wrappers_lock.2 h s0 []
  obtain ⟨hinv, _⟩ := run_refines guard sched (init s0 ths) hl (inv_init s0 ths)
  refine ⟨?_, hinv.holds, hinv.fresh⟩
  intro i j hi hj
  have h1 := hinv.holds i hi
  have h2 := hinv.holds j hj
  rw [h1] at h2; cases h2; rfl

/-- **no_lost_update.** For every interleaving of the micro-steps of any number of
    concurrently running pipelines: the configuration reached is one the atomic machine
    reaches for some serial order of whole operations (`order`); the state is the fold of
    the committed operations in log order; every operation returned what its function
    returns at its place in that serial order; and the committed operations together with
    the ones still to run are exactly the operations of the program (none lost, none
    executed twice). -/
theorem no_lost_update (guard : Sys S V → Nat → Bool) (sched : List Nat) (s0 : S)
    (ths : List (List (Op S V) × V)) (h : NoGetState ths) :
    let fin := run srcLocks.of guard sched (init s0 ths)
    (∃ order, fin.core = arun order ⟨s0, ths, []⟩) ∧
    fin.core.shared = replay s0 fin.core.log ∧
    Returns s0 fin.core.log ∧
    (fin.core.log.map (·.op) ++ remaining fin.core).Perm (ths.map (·.1)).flatten := by
  intro fin
  have hl := allLocked_of_noGetState wrappers_lock.2 h s0 []
  obtain ⟨_, order, ho⟩ := run_refines guard sched (init s0 ths) hl (inv_init s0 ths)
  obtain ⟨new, hf⟩ := arun_facts order (⟨s0, ths, []⟩ : Core S V)
  have hlog : fin.core.log = new := by
    show (run srcLocks.of guard sched (init s0 ths)).core.log = new
    rw [ho]; simpa [init] using hf.log_eq
  have hc : fin.core = arun order ⟨s0, ths, []⟩ := ho
  refine ⟨⟨order, hc⟩, ?_, ?_, ?_⟩
  · rw [hlog, hc]; exact hf.shared_eq
  · rw [hlog]; exact hf.returns
  · rw [hlog, hc]; exact hf.conserve

/-- **no_lost_update, commutative updates: the exact value.** If the effect of every
    operation on the state is a function `g o` of the state alone and these effects
    commute pairwise (counters incremented, set insertions …), then once all pipelines
    have finished the state is exactly the fold of *all* operations in program order —
    whatever the interleaving was. -/
theorem no_lost_update_commutative (guard : Sys S V → Nat → Bool) (sched : List Nat) (s0 : S)
    (ths : List (List (Op S V) × V)) (h : NoGetState ths) (g : Op S V → S → S)
    (hg : ∀ o ∈ (ths.map (·.1)).flatten, ∀ s v,
        (match o with | .st _ f => (f s v).1 | .loc _ => s) = g o s)
    (hcomm : ∀ o₁ ∈ (ths.map (·.1)).flatten, ∀ o₂ ∈ (ths.map (·.1)).flatten, ∀ s,
        g o₂ (g o₁ s) = g o₁ (g o₂ s))
    (hdone : allDone (run srcLocks.of guard sched (init s0 ths)).core = true) :
    (run srcLocks.of guard sched (init s0 ths)).core.shared
      = ((ths.map (·.1)).flatten).foldl (fun s o => g o s) s0 := by
  obtain ⟨_, hsh, _, hperm⟩ := no_lost_update guard sched s0 ths h
  rw [allDone_remaining hdone, List.append_nil] at hperm
  rw [hsh, replay_eq_foldl g]
  · refine hperm.foldl_eq' ?_ s0
    intro x hx y hy z
    exact hcomm x (hperm.subset hx) y (hperm.subset hy) z
  · intro e he s
    have hm : e.op ∈ (ths.map (·.1)).flatten :=
      hperm.subset (List.mem_map.mpr ⟨e, he, rfl⟩)
    have := hg e.op hm s e.vin
    unfold applyEv
    cases ho : e.op with
    | st w f => rw [ho] at this; exact this
    | loc g' => rw [ho] at this; exact this

/-- **pre_before_post.** In every trace, for every task: the operations it has committed,
    in commit order, followed by the ones it has not yet executed, are its pipeline
    `pre :: body ++ [post]` — the pre-handler is committed before any operation of the
    body, the post-handler after all of them.  (`preBeforeSpawn`/`postAfterDone`: `submit`
    runs the pre-processor and stores its result before the body is started, `waitOne`
    runs the post-processor after receiving the finished task.) -/
theorem pre_before_post (guard : Sys S V → Nat → Bool) (sched : List Nat) (s0 : S)
    (tasks : List (Task S V)) (h : NoGetState (tasks.map Task.thread)) :
    FactsC11.preBeforeSpawn = true ∧ FactsC11.postAfterDone = true ∧
    let fin := run srcLocks.of guard sched (init s0 (tasks.map Task.thread))
    ∀ t k, tasks[t]? = some k →
      (evsOf t fin.core.log).map (·.op) ++ pending fin.core t = k.prog := by
  refine ⟨by decide, by decide, ?_⟩
  intro fin t k hk
  have hl := allLocked_of_noGetState wrappers_lock.2 h s0 []
  obtain ⟨_, order, ho⟩ := run_refines guard sched (init s0 (tasks.map Task.thread)) hl (inv_init s0 _)
  obtain ⟨new, hf⟩ := arun_facts order (⟨s0, tasks.map Task.thread, []⟩ : Core S V)
  have hc : fin.core = arun order ⟨s0, tasks.map Task.thread, []⟩ := ho
  have hlog : fin.core.log = new := by rw [hc]; simpa using hf.log_eq
  rw [hlog, hc, hf.order t]
  simp [pending, hk, Task.thread]

/-- **handler_values_flow.** In every trace, for every task: its first operation (the
    pre-handler if there is one) received the task's input, every later operation received
    exactly what the previous one returned — the body what the pre-handler returned, the
    post-handler what the body returned — and the task's current value (`task.output`, what
    `resolveCompletedTasks` hands to the successors once the pipeline is finished) is what
    the last committed operation returned.  `Returns` (in `no_lost_update`) pins each
    returned value to the handler's function and the state at its place in the serial
    order. -/
theorem handler_values_flow (guard : Sys S V → Nat → Bool) (sched : List Nat) (s0 : S)
    (tasks : List (Task S V)) (h : NoGetState (tasks.map Task.thread)) :
    let fin := run srcLocks.of guard sched (init s0 (tasks.map Task.thread))
    ∀ t k, tasks[t]? = some k →
      ∃ p' v', fin.core.threads[t]? = some (p', v') ∧ Chained k.input (evsOf t fin.core.log) v' := by
  intro fin t k hk
  have hl := allLocked_of_noGetState wrappers_lock.2 h s0 []
  obtain ⟨_, order, ho⟩ := run_refines guard sched (init s0 (tasks.map Task.thread)) hl (inv_init s0 _)
  obtain ⟨new, hf⟩ := arun_facts order (⟨s0, tasks.map Task.thread, []⟩ : Core S V)
  have hc : fin.core = arun order ⟨s0, tasks.map Task.thread, []⟩ := ho
  have hlog : fin.core.log = new := by rw [hc]; simpa using hf.log_eq
  rw [hlog, hc]
  exact hf.flow t k.prog k.input (by simp [hk, Task.thread])

/-- **state_fresh_per_run (top-level runs).** Any number of runs of one compiled graph,
    whatever its nesting of stateful and stateless sub-graphs: no state object seen by a
    graph of one run is seen by a graph of another run. -/
theorem state_fresh_per_run (g : GTree) (k next : Nat) :
    (runMany FactsC11.genPerRun g k next).Pairwise
      (fun run₁ run₂ => ∀ a, some a ∈ run₁ → some a ∉ run₂) := by
  have hf : FactsC11.genPerRun = true := by decide
  rw [hf]; exact runMany_pairwise g k next

/-- **state_fresh_per_run (nested).** A nested graph that declares state gets an object
    that is not the one its parent's nodes see, nobody in its subtree sees the parent's,
    and the objects allocated by one run are pairwise distinct.  (`c < next`: the
    parent's object was allocated earlier.) -/
theorem state_fresh_nested (static : Nat) (subs : GTrees) (c next : Nat) (hc : c < next) :
    (∀ x ∈ (runTree FactsC11.genPerRun (.mk (some static) subs) (some c) next).1, x ≠ some c) ∧
    (allocated (.mk (some static) subs) next).1.Nodup := by
  have hf : FactsC11.genPerRun = true := by decide
  rw [hf]
  refine ⟨?_, allocated_nodup _ _⟩
  intro x hx
  simp only [runTree, if_true, List.mem_cons] at hx
  rcases hx with rfl | hx
  · intro h; cases h; omega
  · rcases (runTrees_spec subs (some next) (next + 1)).2 x hx with rfl | ⟨a, rfl, ha⟩
    · intro h; cases h; omega
    · have := (allocateds_bounds subs (next + 1)).2 a ha
      intro h; cases h; omega

/-- a stateless nested graph works on the state of the enclosing graph -/
theorem stateless_nested_inherits (ctx : Option Nat) (next : Nat) :
    (runTree FactsC11.genPerRun (.mk none .nil) ctx next).1 = [ctx] := by
  simp [runTree, runTrees]

/-- **state_across_resume.** The state the restored tasks work on after a resume is the
    caller's modifier applied to the state at the interrupt (the state itself when no
    modifier is given); it is the initial state of the resumed run, whose final state is
    the serial fold of the resumed operations from there (nothing of the first run's
    updates is lost, nothing else is changed).  The first run is any run of any pipelines
    under any interleaving.  (Serialisation of the checkpoint — C12 — is assumed to
    round-trip the state.) -/
theorem state_across_resume (guard₁ guard₂ : Sys S V → Nat → Bool) (sched₁ sched₂ : List Nat)
    (s0 : S) (ths₁ ths₂ : List (List (Op S V) × V)) (m : Option (S → S))
    (h₂ : NoGetState ths₂) :
    let atInt := (run srcLocks.of guard₁ sched₁ (init s0 ths₁)).core.shared
    let s' := match m with | some f => f atInt | none => atInt
    resumeCtx FactsC11.cpRestoredBeforeTasks m (interruptCP FactsC11.cpSavesState (some atInt))
      = some s' ∧
    resumeCore FactsC11.cpRestoredBeforeTasks m (interruptCP FactsC11.cpSavesState (some atInt)) ths₂
      = some ⟨s', ths₂, []⟩ ∧
    let fin := run srcLocks.of guard₂ sched₂ (init s' ths₂)
    fin.core.shared = replay s' fin.core.log ∧
    (fin.core.log.map (·.op) ++ remaining fin.core).Perm (ths₂.map (·.1)).flatten := by
  intro atInt s'
  have h1 : FactsC11.cpRestoredBeforeTasks = true := by decide
  have h2 : FactsC11.cpSavesState = true := by decide
  have hr : resumeCtx FactsC11.cpRestoredBeforeTasks m
      (interruptCP FactsC11.cpSavesState (some atInt)) = some s' := by
    rw [h1, h2]; cases m <;> rfl
  refine ⟨hr, ?_, ?_⟩
  · simp only [resumeCore, hr]
  · obtain ⟨_, hsh, _, hperm⟩ := no_lost_update guard₂ sched₂ s' ths₂ h₂
    exact ⟨hsh, hperm⟩

/-! ## interrupt and resume, level by level; one lock also after a resume -/

/-- the top-level resume branch of `runner.run` as extracted from the source -/
def srcTop : ResumeFacts :=
  { saves := FactsC11.cpSavesState, restoresFirst := FactsC11.cpRestoredBeforeTasks,
    setAlways := FactsC11.resumeTopSetAlways, oneHolder := FactsC11.resumeTopOneHolder }

/-- the sub-graph resume branch of `runner.run` as extracted from the source -/
def srcSub : ResumeFacts :=
  { saves := FactsC11.cpSavesState, restoresFirst := FactsC11.cpRestoredBeforeTasks,
    setAlways := FactsC11.resumeSubSetAlways, oneHolder := FactsC11.resumeSubOneHolder }

/-- Source fact tie for the two resume branches: the facts are the ones the oracle runs the
    model with, and the package allocates a state holder (a mutex) in exactly one place per
    way of starting a run: `runCtx` and each resume branch. -/
theorem resume_facts_match :
    srcTop = Expected.C11.topResume ∧ srcSub = Expected.C11.subResume ∧
    FactsC11.holderAllocSites = Expected.C11.holderAllocSites ∧
    FactsC11.holderAllocSites = FactsC11.resumeBranches + 1 := by decide

/-- **state_restored_every_level.** A run interrupted while any number of nested graphs
    were active (`lv`, outermost first; per level the caller's modifier as it acts there —
    `none` when the run is resumed without `WithStateModifier` — and the state in that
    level's context at the interrupt, `none` for a graph without state) is resumed with:
    every level that had a state sees exactly `modifier(that state)`, which is that state
    itself when no modifier is passed — never the enclosing graph's, never nothing; a
    level without state keeps working on what the enclosing level sees. -/
theorem state_restored_every_level (lv : List (Option (S → S) × Option S)) (ctx : Option S) :
    let vis := visible ctx (resumePath srcTop srcSub lv)
    vis.length = lv.length ∧
    (∀ (i : Nat) m s, lv[i]? = some (m, some s) → vis[i]? = some (some (applyMod m s))) ∧
    (∀ (i : Nat) s, lv[i]? = some (none, some s) → vis[i]? = some (some s)) ∧
    (∀ (i : Nat) m, lv[i + 1]? = some (m, none) → vis[i + 1]? = vis[i]?) := by
  intro vis
  have ht : srcTop = ⟨true, true, true, true⟩ := by decide
  have hs : srcSub = ⟨true, true, true, true⟩ := by decide
  have hown : ∀ (i : Nat) m s, lv[i]? = some (m, some s) → vis[i]? = some (some (applyMod m s)) := by
    intro i m s h
    apply visible_own
    rw [resumePath_get srcTop srcSub lv i m (some s) h]
    by_cases hi : i = 0
    · simp only [hi, if_true, ht]; rw [resumeLevel_own rfl rfl rfl]
    · simp only [hi, if_false, hs]; rw [resumeLevel_own rfl rfl rfl]
  refine ⟨?_, hown, fun i s h => hown i none s h, ?_⟩
  · show (visible ctx (resumePath srcTop srcSub lv)).length = lv.length
    rw [visible_length]
    cases lv with
    | nil => rfl
    | cons x rest => obtain ⟨m, a⟩ := x; simp [resumePath]
  · intro i m h
    apply visible_inherited
    rw [resumePath_get srcTop srcSub lv (i + 1) m none h]
    simp only [Nat.succ_ne_zero, if_false, resumeLevel_none]

/-- **(partial) a nested graph without state keeps working on the enclosing graph's state
    after a resume.**  Full statement (what the property needs): for every resumed level
    that declares no state, whatever its context carried at the interrupt and with or
    without a modifier, nothing is installed for it (`.inherited`), so its nodes go on
    reading and writing the enclosing graph's state.  Proved under the hypothesis that the
    interrupt handlers save the state only for a graph that declares one
    (`cpSavesOwnStateOnly`, extracted from handleInterrupt /
    handleInterruptWithSubGraphAndRerunNodes).  Where that fact is `false` the statement is
    false — `stateless_level_gets_private_copy` — and the harness reports
    `C11:resume:stateless-nested-state-copy` (fix: fixes/C11-stateless-subgraph-state-copy.diff). -/
theorem stateless_level_inherits_after_resume_partial
    (h : FactsC11.cpSavesOwnStateOnly = true) (m : Option (S → S)) (ctxState : Option S) :
    resumeLevel srcSub m (saveAt FactsC11.cpSavesOwnStateOnly false ctxState) = .inherited := by
  rw [h]
  have : saveAt true false ctxState = none := by simp [saveAt]
  rw [this]; exact resumeLevel_none _ _

/-- **One lock per run and level, also after a resume.** Tasks rebuilt from the checkpoint
    (`t < restored`) and tasks the resumed run creates later find the same mutex in their
    contexts, in both resume branches. -/
theorem resume_single_lock (restored : Nat) :
    resumeLockOf srcTop.oneHolder restored = (fun _ => 0) ∧
    resumeLockOf srcSub.oneHolder restored = (fun _ => 0) := by
  have ht : srcTop.oneHolder = true := by decide
  have hs : srcSub.oneHolder = true := by decide
  rw [ht, hs]; exact ⟨resumeLockOf_one restored, resumeLockOf_one restored⟩

/-- **mutual exclusion and no lost update in a resumed run.** In the machine in which
    every task uses the mutex its own context carries (`runL`, `resumeLockOf`): for every
    number of restored tasks, every interleaving of restored and later-created tasks, every
    scheduling restriction and both resume branches, at most one handler / `ProcessState`
    callback is inside its user function, the configuration reached is one the atomic
    machine reaches for a serial order, the state is the serial replay of the committed
    operations from the restored state `s'` and no operation is lost or duplicated. -/
theorem no_lost_update_after_resume (top : Bool) (restored : Nat)
    (guard : SysL S V → Nat → Bool) (sched : List Nat) (s' : S)
    (ths : List (List (Op S V) × V)) (h : NoGetState ths) :
    let f := if top then srcTop else srcSub
    let fin := runL (resumeLockOf f.oneHolder restored) srcLocks.of guard sched (initL s' ths)
    (∀ i j, fin.phase i ≠ .idle → fin.phase j ≠ .idle → i = j) ∧
    (∃ order, fin.core = arun order ⟨s', ths, []⟩) ∧
    fin.core.shared = replay s' fin.core.log ∧
    Returns s' fin.core.log ∧
    (fin.core.log.map (·.op) ++ remaining fin.core).Perm (ths.map (·.1)).flatten := by
  intro f fin
  have hf : resumeLockOf f.oneHolder restored = fun _ => 0 := by
    cases top
    · exact (resume_single_lock restored).2
    · exact (resume_single_lock restored).1
  have hfin : fin = embed 0 (run srcLocks.of (fun s t => guard (embed 0 s) t) sched (init s' ths)) := by
    show runL (resumeLockOf f.oneHolder restored) srcLocks.of guard sched (initL s' ths) = _
    rw [hf, initL_eq_embed 0, runL_const]
  have hme := mutual_exclusion (fun s t => guard (embed 0 s) t) sched s' ths h
  have hnl := no_lost_update (fun s t => guard (embed 0 s) t) sched s' ths h
  rw [hfin]
  exact ⟨hme.1, hnl⟩

/-- with commuting updates (counters): N increments give N, whatever the interleaving of
    restored and later-created tasks -/
theorem no_lost_update_after_resume_commutative (top : Bool) (restored : Nat)
    (guard : SysL S V → Nat → Bool) (sched : List Nat) (s' : S)
    (ths : List (List (Op S V) × V)) (h : NoGetState ths) (g : Op S V → S → S)
    (hg : ∀ o ∈ (ths.map (·.1)).flatten, ∀ s v,
        (match o with | .st _ f => (f s v).1 | .loc _ => s) = g o s)
    (hcomm : ∀ o₁ ∈ (ths.map (·.1)).flatten, ∀ o₂ ∈ (ths.map (·.1)).flatten, ∀ s,
        g o₂ (g o₁ s) = g o₁ (g o₂ s))
    (hdone : allDone (runL (resumeLockOf (if top then srcTop else srcSub).oneHolder restored)
        srcLocks.of guard sched (initL s' ths)).core = true) :
    (runL (resumeLockOf (if top then srcTop else srcSub).oneHolder restored)
        srcLocks.of guard sched (initL s' ths)).core.shared
      = ((ths.map (·.1)).flatten).foldl (fun s o => g o s) s' := by
  have hf : resumeLockOf (if top then srcTop else srcSub).oneHolder restored = fun _ => 0 := by
    cases top
    · exact (resume_single_lock restored).2
    · exact (resume_single_lock restored).1
  rw [hf, initL_eq_embed 0, runL_const] at hdone ⊢
  exact no_lost_update_commutative (fun s t => guard (embed 0 s) t) sched s' ths h g hg hcomm hdone

/-! ## non-vacuity -/

section Examples

/-- `ProcessState(func(s){ s.n += d })` -/
def incOp (w : Wrapper) (d : Nat) : Op Nat Nat := .st w (fun s v => (s + d, v))
/-- a handler that stamps the value with the state and bumps the state -/
def stampOp (w : Wrapper) : Op Nat Nat := .st w (fun s v => (s + 1, 10 * v + s))

/-- two parallel nodes incrementing through `ProcessState`, locks as in the source:
    an interleaving in which the second thread tries to enter while the first is inside -/
example :
    let fin := run srcLocks.of noGuard [0, 1, 0, 1, 0, 0, 1, 1, 1, 1]
      (init 0 [([incOp .process 1], 0), ([incOp .process 1], 0)])
    allDone fin.core = true ∧ fin.core.shared = 2 ∧ fin.holder = none := by decide

/-- a full pipeline (pre, body with one ProcessState call and local work, post) next to a
    second one, under the engine's own scheduling restriction (`submit` batch of two,
    first task inline): the run completes — the guard does not make the theorems vacuous —
    and the values flow pre → body → post. -/
def exTasks : List (Task Nat Nat) :=
  [ { input := 1, pre := some (.pre, fun s v => (s + 1, 10 * v + s)),
      body := [.loc (· + 5), incOp .process 100], post := some (.post, fun s v => (s + 1, 10 * v + s)) },
    { input := 2, pre := none, body := [incOp .process 100, .loc (· + 7)], post := none } ]

def exBatch : Batch := { preLen := [1, 0], bodyLen := [2, 2], inline := true }

example :
    let fin := run srcLocks.of (engineGuard exBatch)
      [1, 0, 0, 1, 0, 0, 1, 1, 1, 1, 0, 0, 1, 0, 0, 0, 0, 1, 0, 0, 0, 0]
      (init 0 (exTasks.map Task.thread))
    allDone fin.core = true ∧ fin.core.shared = 202 ∧
    fin.core.threads.map (·.2) = [351, 9] := by decide

/-- the engine restriction really restricts: thread 1's body cannot start before thread 0's
    pre-handler has run -/
example :
    (run srcLocks.of (engineGuard exBatch) [1, 1, 1, 1] (init 0 (exTasks.map Task.thread))).core.log.length = 0 := by
  decide

example : NoGetState (exTasks.map Task.thread) := by
  intro th hth w f hm hw
  subst hw
  simp [exTasks, Task.thread, Task.prog, incOp] at hth
  rcases hth with rfl | rfl <;> simp at hm

end Examples

/-! ## negations for the other values of the facts -/

/-- **Without the lock in `ProcessState` an update is lost**: two parallel nodes, one
    increment each, both read before either writes; everything has finished and the
    counter is 1. -/
theorem lost_update_without_lock :
    let l : LockFacts := { Expected.C11.locks with process := false }
    let fin := run l.of noGuard [0, 1, 0, 1]
      (init 0 [([incOp .process 1], 0), ([incOp .process 1], 0)])
    allDone fin.core = true ∧ fin.core.shared = 1 := by decide

/-- The same when only a handler wrapper loses its lock: an unlocked pre-handler of a
    task submitted later (eager mode) against a `ProcessState` call of a running body that
    does lock. -/
theorem lost_update_unlocked_handler :
    let l : LockFacts := { Expected.C11.locks with pre := false }
    let fin := run l.of noGuard [0, 0, 1, 0, 1, 0]
      (init 0 [([incOp .process 1], 0), ([incOp .pre 1], 0)])
    allDone fin.core = true ∧ fin.core.shared = 1 := by decide

/-- **`GetState` does not protect the caller** (the lock table extracted from the source
    says so): two nodes updating through the pointer `GetState` returned lose an update.
    This is why the property speaks of handlers and `ProcessState` only. -/
theorem getState_access_unprotected :
    let fin := run srcLocks.of noGuard [0, 1, 0, 1]
      (init 0 [([incOp .getState 1], 0), ([incOp .getState 1], 0)])
    allDone fin.core = true ∧ fin.core.shared = 1 := by decide

/-- With a state object generated once (at compile time) instead of inside `runCtx`, two
    runs of the compiled graph share it. -/
theorem state_shared_if_generated_once :
    runMany false (.mk (some 7) .nil) 2 100 = [[some 7], [some 7]] := by decide

/-- A checkpoint that does not carry the state, or a resume that builds the task contexts
    before restoring it, leaves the resumed tasks without the state. -/
theorem state_lost_without_checkpoint_field :
    resumeCtx true (none : Option (Nat → Nat)) (interruptCP false (some 5)) = none ∧
    resumeCtx false (none : Option (Nat → Nat)) (interruptCP true (some 5)) = none := by decide

/-- **Two locks around one state (a second `internalState` for the tasks created after the
    resume): an update is lost.**  Thread 0 is a task restored from the checkpoint, thread 1
    a task created later; each takes "the" mutex of its own context, both read 0, both
    write 1. -/
theorem lost_update_two_locks_after_resume :
    let fin := runL (resumeLockOf false 1) Expected.C11.locks.of (fun _ _ => true)
      [0, 1, 0, 1, 0, 1, 0, 1]
      (initL 0 [([incOp .process 1], 0), ([incOp .process 1], 0)])
    allDone fin.core = true ∧ fin.core.shared = 1 ∧
    resumeLockOf false 1 0 ≠ resumeLockOf false 1 1 := by decide

/-- the same schedule with the lock assignment of the source: the second task waits, both
    increments arrive -/
example :
    let fin := runL (resumeLockOf srcTop.oneHolder 1) srcLocks.of (fun _ _ => true)
      [0, 1, 0, 1, 0, 1, 0, 1, 1, 1, 1, 1]
      (initL 0 [([incOp .process 1], 0), ([incOp .process 1], 0)])
    allDone fin.core = true ∧ fin.core.shared = 2 := by decide

/-- **A sub-graph resume branch that installs the restored state only when a modifier is
    supplied loses the nested state.**  Resumed without a modifier: under a parent with
    state the nested graph's nodes work on the parent's state (1 instead of 2); under a
    stateless parent they find no state at all; with a modifier the same code restores it. -/
theorem nested_state_lost_without_modifier :
    let bad : ResumeFacts := { Expected.C11.subResume with setAlways := false }
    visible none (resumePath Expected.C11.topResume bad
      [((none : Option (Nat → Nat)), some 1), (none, some 2)]) = [some 1, some 1] ∧
    visible none (resumePath Expected.C11.topResume bad
      [((none : Option (Nat → Nat)), none), (none, some 2)]) = [none, none] ∧
    visible none (resumePath Expected.C11.topResume bad
      [(some (· + 10), some 1), (some (· + 10), some 2)]) = [some 11, some 12] := by decide

/-- **A nested graph without state whose interrupt handler saves whatever state its
    context carries is resumed with a state of its own** — a second object restored from its
    own checkpoint, a copy of the enclosing graph's state (5): its nodes no longer write to
    the enclosing graph's state.  With the check `runCtx ≠ nil` nothing is saved and the
    level inherits. -/
theorem stateless_level_gets_private_copy :
    resumeLevel Expected.C11.subResume (none : Option (Nat → Nat)) (saveAt false false (some 5))
      = .own 5 ∧
    resumeLevel Expected.C11.subResume (none : Option (Nat → Nat)) (saveAt true false (some 5))
      = .inherited := by decide

/-- the same three situations with the facts of the source -/
example :
    visible none (resumePath srcTop srcSub
      [((none : Option (Nat → Nat)), some 1), (none, some 2)]) = [some 1, some 2] ∧
    visible none (resumePath srcTop srcSub
      [((none : Option (Nat → Nat)), none), (none, some 2)]) = [none, some 2] ∧
    visible none (resumePath srcTop srcSub
      [(some (· + 10), some 1), (some (· + 10), some 2)]) = [some 11, some 12] := by decide

/-! ## a late `ProcessState` through a captured handler context (Model/C11Late.lean)

  "all state pre-handlers, post-handlers and ProcessState callbacks operating on the same state
  are mutually exclusive … state updates made through these are never lost": also when a
  callback is run by a closure that kept the `context.Context` a handler (or another
  `ProcessState` callback) was given, after that handler has returned — the per-chunk converter of
  the stream a stream handler returns, a goroutine started inside a handler.  The lock is owned by
  a critical section (a time interval of one thread), never by whoever holds a context value. -/

/-- what the five lock sites of compose/state.go do with the context, as extracted on this run -/
def srcCtx : CtxFacts :=
  { handsPlainCtx := FactsC11.handlerCtxPlain, lockUnconditional := FactsC11.lockUnconditional }

/-- **captured_ctx_takes_lock.** (source fact tie) No context — the task's own, or one that a
    wrapper handed to a user function at any time — makes a lock site of the source skip the
    lock: the wrappers hand out their own `ctx` (nothing about the lock can be recorded in it) or
    `Lock` is reached unconditionally.  The same for the facts the oracle runs the model with. -/
theorem captured_ctx_takes_lock : AlwaysLocks srcCtx ∧ AlwaysLocks Expected.C11.ctxFacts := by
  have h : srcCtx.lockUnconditional = true ∨ srcCtx.handsPlainCtx = true := by decide
  refine ⟨?_, alwaysLocks_of_unconditional rfl⟩
  rcases h with h | h
  · exact alwaysLocks_of_unconditional h
  · exact alwaysLocks_of_plain h

/-- **late_process_state_exclusive.** For every assignment `srcs` of contexts to operations —
    any operation of any thread may be called with the context that any critical section handed
    to its user function, while that section is still running or long after it has ended —, every
    interleaving of the lock / load / store / unlock micro-steps and every scheduling restriction
    (`lateGuard srcs`: a closure runs only after the handler that gave it the context has
    returned, is one of them): at most one handler / callback is inside its user function and it
    holds the mutex; the configuration reached is one the atomic machine reaches for a serial
    order of whole operations; the state is the serial replay of the committed operations; every
    operation returned what its function returns at its place in that order; no operation is lost
    or executed twice. -/
theorem late_process_state_exclusive (srcs : Nat → Nat → CtxSrc) (guard : Sys S V → Nat → Bool)
    (sched : List Nat) (s0 : S) (ths : List (List (Op S V) × V)) (h : NoGetState ths) :
    let fin := runK srcCtx srcs srcLocks.of guard sched (init s0 ths)
    (∀ i j, fin.phase i ≠ .idle → fin.phase j ≠ .idle → i = j) ∧
    (∀ i, fin.phase i ≠ .idle → fin.holder = some i) ∧
    (∃ order, fin.core = arun order ⟨s0, ths, []⟩) ∧
    fin.core.shared = replay s0 fin.core.log ∧
    Returns s0 fin.core.log ∧
    (fin.core.log.map (·.op) ++ remaining fin.core).Perm (ths.map (·.1)).flatten := by
  intro fin
  have hfin : fin = run srcLocks.of guard sched (init s0 ths) :=
    runK_eq_run captured_ctx_takes_lock.1 srcs srcLocks.of guard sched (init s0 ths)
  rw [hfin]
  have hme := mutual_exclusion guard sched s0 ths h
  exact ⟨hme.1, hme.2.1, no_lost_update guard sched s0 ths h⟩

/-- **late_updates_all_arrive.** With commuting updates (a closure recording chunks, counters):
    once every pipeline and every closure has finished, the state is the fold of *all* operations
    — the handlers', the bodies' and the late closures' — whatever the interleaving and whatever
    contexts the operations were called with. -/
theorem late_updates_all_arrive (srcs : Nat → Nat → CtxSrc) (guard : Sys S V → Nat → Bool)
    (sched : List Nat) (s0 : S) (ths : List (List (Op S V) × V)) (h : NoGetState ths)
    (g : Op S V → S → S)
    (hg : ∀ o ∈ (ths.map (·.1)).flatten, ∀ s v,
        (match o with | .st _ f => (f s v).1 | .loc _ => s) = g o s)
    (hcomm : ∀ o₁ ∈ (ths.map (·.1)).flatten, ∀ o₂ ∈ (ths.map (·.1)).flatten, ∀ s,
        g o₂ (g o₁ s) = g o₁ (g o₂ s))
    (hdone : allDone (runK srcCtx srcs srcLocks.of guard sched (init s0 ths)).core = true) :
    (runK srcCtx srcs srcLocks.of guard sched (init s0 ths)).core.shared
      = ((ths.map (·.1)).flatten).foldl (fun s o => g o s) s0 := by
  rw [runK_eq_run captured_ctx_takes_lock.1] at hdone ⊢
  exact no_lost_update_commutative guard sched s0 ths h g hg hcomm hdone

/-- The smallest late-closure scenario (seeded change C11-51): thread 0 = node A's stream
    post-handler; thread 1 = sibling B incrementing through `ProcessState`; thread 2 = the
    per-chunk converter of the stream A's post-handler returned, incrementing through
    `ProcessState` with the context that post-handler was given. -/
def lateThs : List (List (Op Nat Nat) × Nat) :=
  [([stampOp .streamPost], 0), ([incOp .process 1], 0), ([incOp .process 1], 0)]

def lateSrcs : Nat → Nat → CtxSrc := fun t _ => if t = 2 then .handed 0 0 else .own

def lateRun (cf : CtxFacts) (sched : List Nat) : Sys Nat Nat :=
  runK cf lateSrcs Expected.C11.locks.of (lateGuard lateSrcs) sched (init 0 lateThs)

/-- A has finished (4 steps), B is inside its callback (2 steps), the closure calls
    `ProcessState` (1 step); then everybody runs to the end -/
def lateSched : List Nat := [0, 0, 0, 0, 1, 1, 2, 1, 2, 1, 2, 2, 2, 2]

/-- **(negation witness) A lock that is skipped on the strength of a record in the context is
    bypassed by a late closure.**  Wrappers that hand out a context recording "lock held"
    (`handsPlainCtx = false`) together with a `ProcessState` that believes the record
    (`lockUnconditional = false`): the closure enters while B is inside its callback — two user
    functions on the state at once, B still the only holder of the mutex — and one of the three
    updates is lost.  Either fact alone is harmless: under the same schedule the closure waits and
    all three updates arrive.  (And no closure runs before its context exists: `lateGuard`.) -/
theorem lock_bypassed_through_captured_ctx :
    let bad : CtxFacts := { handsPlainCtx := false, lockUnconditional := false }
    let mid := lateRun bad (lateSched.take 7)
    let fin := lateRun bad lateSched
    (inside mid 1 = true ∧ inside mid 2 = true ∧ mid.holder = some 1 ∧ insideCount mid 3 = 2) ∧
    (allDone fin.core = true ∧ fin.core.shared = 2) ∧
    (∀ cf ∈ [({ handsPlainCtx := false, lockUnconditional := true } : CtxFacts),
             { handsPlainCtx := true, lockUnconditional := false }],
      insideCount (lateRun cf (lateSched.take 7)) 3 = 1 ∧
      allDone (lateRun cf lateSched).core = true ∧ (lateRun cf lateSched).core.shared = 3) ∧
    lateGuard lateSrcs (init 0 lateThs) 2 = false ∧
    lateGuard lateSrcs (lateRun bad [0, 0, 0]) 2 = true := by decide

/-- the same scenario with the facts of the source: the closure waits for B, nothing is lost -/
example :
    insideCount (lateRun srcCtx (lateSched.take 7)) 3 = 1 ∧
    (lateRun srcCtx (lateSched.take 7)).holder = some 1 ∧
    allDone (lateRun srcCtx lateSched).core = true ∧ (lateRun srcCtx lateSched).core.shared = 3 := by
  decide

/-! ## a node executed again inside a resumed run (Model/C11Loop.lean)

  "a node's pre-handler runs before it and its post-handler after it, and the values they return
  are what the node and its successors receive … carried … across interrupt and resume": a graph
  node whose nested graph interrupted is resumed *without* running its state pre-handler again
  (it ran before the interrupt); when a cycle of the resumed run leads back to the node, every
  further execution is an ordinary one — pre-handler, node, post-handler. -/

/-- **skip_mark_per_task.** (source fact tie) `submit` skips the pre-processor on the strength of
    a bool field of the submitted task, which only `restoreTasks` sets — the value the oracle
    runs the model with. -/
theorem skip_mark_per_task : FactsC11.skipPrePerTask = Expected.C11.skipPrePerTask := by decide

/-- **loop_handlers_once_per_execution.** A node of a resumed run that is executed `n + 1` times
    (execution 0 = the task rebuilt from the checkpoint, `cpSkip` = the checkpoint's
    `SkipPreHandler` entry of the node; executions 1 … n = tasks created when a cycle leads back to
    it), for every `n`, next to any other pipelines, under every interleaving and scheduling
    restriction:
    * every execution after the restored one is the full pipeline pre-handler, body, post-handler;
      the restored one lacks the pre-handler exactly when the checkpoint says it already ran;
    * what the node has committed, in commit order, followed by what it still has to do, is the
      pipeline of executions 0 … n one after the other (each pre-handler before its body, each
      post-handler after it, execution k before execution k+1);
    * once the node is through, the state log holds its pre-handler `n + 1` times (`n` times when
      the restored execution skipped it) and its post-handler `n + 1` times — one record per
      execution, none lost, none doubled;
    * all of them ran under the lock (at most one user function inside at any time). -/
theorem loop_handlers_once_per_execution (guard : Sys S V → Nat → Bool) (sched : List Nat) (s0 : S)
    (ths : List (List (Op S V) × V)) (h : NoGetState ths)
    (t : Nat) (nd : LoopNode S V) (hw : nd.WF) (cpSkip : Bool) (n : Nat) (v0 : V)
    (ht : ths[t]? = some (loopProg FactsC11.skipPrePerTask cpSkip nd n, v0)) :
    let fin := run srcLocks.of guard sched (init s0 ths)
    let done := (evsOf t fin.core.log).map (·.op)
    (∀ k, 1 ≤ k →
      execProg FactsC11.skipPrePerTask cpSkip nd k = hOp nd.pre ++ nd.body k ++ hOp nd.post) ∧
    execProg FactsC11.skipPrePerTask cpSkip nd 0
      = (if cpSkip then [] else hOp nd.pre) ++ nd.body 0 ++ hOp nd.post ∧
    done ++ pending fin.core t
      = (List.range (n + 1)).flatMap (execProg FactsC11.skipPrePerTask cpSkip nd) ∧
    (pending fin.core t = [] →
      List.countP isPreOp done = (if nd.pre.isSome then (if cpSkip then n else n + 1) else 0) ∧
      List.countP isPostOp done = (if nd.post.isSome then n + 1 else 0)) ∧
    (∀ i j, fin.phase i ≠ .idle → fin.phase j ≠ .idle → i = j) := by
  intro fin done
  have hf : FactsC11.skipPrePerTask = true := by decide
  rw [hf] at ht ⊢
  have hl := allLocked_of_noGetState wrappers_lock.2 h s0 []
  have hord : done ++ pending fin.core t = loopProg true cpSkip nd n :=
    thread_order guard sched s0 ths hl t _ v0 ht
  refine ⟨?_, ?_, hord, ?_, (mutual_exclusion guard sched s0 ths h).1⟩
  · intro k hk
    simp [execProg, skipsPre_later cpSkip hk]
  · simp only [execProg, skipsPre_restored]
  · intro hp
    rw [hp, List.append_nil] at hord
    rw [hord]
    exact ⟨countP_pre_loop hw cpSkip n, countP_post_loop hw true cpSkip n⟩

/-- **(negation) A skip mark that is looked up by node key for the whole resumed run takes the
    pre-handler away from every execution**: for every well-formed node and every number of
    further executions the pipeline contains no pre-handler operation at all (seeded change
    C11-52), while the post-handlers are all there. -/
theorem pre_handler_never_runs_when_skip_is_per_node (nd : LoopNode S V) (hw : nd.WF) (n : Nat) :
    List.countP isPreOp (loopProg false true nd n) = 0 ∧
    List.countP isPostOp (loopProg false true nd n) = (if nd.post.isSome then n + 1 else 0) :=
  ⟨countP_pre_loop_perNode hw n, countP_post_loop hw false true n⟩

/-- a graph node with a numbering pre-handler and a post-handler, its nested graph adding 100 -/
def loopEx : LoopNode Nat Nat :=
  { pre := some (.pre, fun s v => (s + 1, 10 * v + s)), body := fun _ => [incOp .process 100],
    post := some (.post, fun s v => (s + 1, 10 * v + s)) }

/-- **(negation witness)** the node resumed and executed twice more: with the mark on the
    restored task the two later pre-handlers run (state 305: 2 pre, 3 × 100, 3 post); with the
    mark per node they do not — their state updates are missing (303) and the nested graph
    receives the raw value (the final value differs). -/
theorem pre_handler_update_lost_when_skip_is_per_node :
    let fin (perTask : Bool) :=
      (run Expected.C11.locks.of noGuard (List.replicate 36 0)
        (init 0 [(loopProg perTask true loopEx 2, 1)])).core
    allDone (fin true) = true ∧ (fin true).shared = 305 ∧
    allDone (fin false) = true ∧ (fin false).shared = 303 ∧
    (fin true).threads.map (·.2) ≠ (fin false).threads.map (·.2) ∧
    List.countP isPreOp (loopProg true true loopEx 2) = 2 ∧
    List.countP isPreOp (loopProg false true loopEx 2) = 0 := by decide

/-- non-vacuity: `loopEx` is well-formed, and with the fact of the source the run above is the
    good one -/
example : loopEx.WF :=
  ⟨by intro w f h; simp [loopEx] at h; exact .inl h.1.symm,
   by intro w f h; simp [loopEx] at h; exact .inl h.1.symm,
   by intro k o ho; simp [loopEx, incOp] at ho; subst ho; exact ⟨rfl, rfl⟩⟩

example :
    (run srcLocks.of noGuard (List.replicate 36 0)
      (init 0 [(loopProg FactsC11.skipPrePerTask true loopEx 2, 1)])).core.shared = 305 := by decide

/-! ## node paths and the caller's modifier (Model/C11Paths.lean)

  "…carried unchanged (apart from caller-supplied modification) across interrupt and resume …
  for every nesting of stateful graphs": the caller's `StateModifier` is told *which* nested
  graph's state it is handed by the node path.  -/

/-- **node_paths_distinct.** In a nest of graph levels of any depth and any fan-out whose
    node keys are unique inside every graph (`LTrees.WF`, what `AddNode` enforces), the
    top-level graph has the empty path, every nested level's path is the enclosing graph's
    path extended by its node key, every path below a graph starts with that graph's path,
    and no two levels — in particular no two sibling graphs — have the same path. -/
theorem node_paths_distinct (saved : Option S) (subs : LTrees S)
    (h : LTrees.WF subs) (hk : (LTrees.keys subs).Nodup) :
    ((nestLevels saved subs).map (·.1)).Nodup ∧
    (nestLevels saved subs).head? = some ([], saved) ∧
    (∀ key sv (ss : LTrees S) (p : List String),
      LTree.levels (.mk key sv ss) p = (p ++ [key], sv) :: LTrees.levels ss (p ++ [key])) ∧
    (∀ (ss : LTrees S) (p : List String), ∀ x ∈ LTrees.levels ss p,
      ∃ k rest, k ∈ LTrees.keys ss ∧ x.1 = p ++ k :: rest) :=
  ⟨nestLevels_nodup saved subs h hk, rfl, fun _ _ _ _ => rfl, LTrees.levels_shape⟩

/-- **modifier_called_once_per_level.** During one resume the caller's modifier is called
    exactly once for every restored level that has a state — with exactly that level's path
    and exactly the state of that level's checkpoint — and for nothing else: the calls carry
    pairwise distinct paths, `(q, s)` is a call iff the level with path `q` saved `s`, and
    there are as many calls as levels with a state. -/
theorem modifier_called_once_per_level (saved : Option S) (subs : LTrees S)
    (h : LTrees.WF subs) (hk : (LTrees.keys subs).Nodup) :
    let lv := nestLevels saved subs
    ((modCalls lv).map (·.1)).Nodup ∧
    (∀ q s, (q, s) ∈ modCalls lv ↔ (q, some s) ∈ lv) ∧
    (modCalls lv).length = (lv.filter (·.2.isSome)).length := by
  intro lv
  exact ⟨(modCalls_paths_sublist lv).nodup (nestLevels_nodup saved subs h hk),
    mem_modCalls lv, modCalls_length lv⟩

/-- **resumed_state_by_path.** With the resume facts of the source, every level of the nest
    that had a state at the interrupt works, after the resume, on exactly
    `modifier path (checkpointed state)` for its *own* path (the checkpointed state itself
    when the run is resumed without a modifier, or when the modifier leaves that path alone);
    a level without state has nothing installed. -/
theorem resumed_state_by_path (m : Option (List String → S → S)) (saved : Option S)
    (subs : LTrees S) :
    resumeNest srcTop srcSub m saved subs =
      (nestLevels saved subs).map (fun x =>
        (x.1, match x.2 with
              | some s => Seen.own (applyMod (m.map (· x.1)) s)
              | none => Seen.inherited)) ∧
    (∀ q s, (q, some s) ∈ nestLevels saved subs → (∀ f, m = some f → f q = id) →
      (q, Seen.own s) ∈ resumeNest srcTop srcSub m saved subs) := by
  have ht : srcTop = ⟨true, true, true, true⟩ := by decide
  have hs : srcSub = ⟨true, true, true, true⟩ := by decide
  have lvl : ∀ (f : ResumeFacts), f = ⟨true, true, true, true⟩ →
      ∀ (mm : Option (S → S)) (o : Option S),
      resumeLevel f mm o = match o with
        | some s => Seen.own (applyMod mm s)
        | none => Seen.inherited := by
    intro f hf mm o
    cases o with
    | none => exact resumeLevel_none _ _
    | some s => subst hf; exact resumeLevel_own rfl rfl rfl _ _
  have eq1 : resumeNest srcTop srcSub m saved subs =
      (nestLevels saved subs).map (fun x =>
        (x.1, match x.2 with
              | some s => Seen.own (applyMod (m.map (· x.1)) s)
              | none => Seen.inherited)) := by
    simp only [resumeNest, nestLevels, List.map_cons, lvl srcTop ht]
    congr 1
    apply List.map_congr_left
    intro x _
    rw [lvl srcSub hs]
  refine ⟨eq1, ?_⟩
  intro q s hmem hid
  rw [eq1]
  refine List.mem_map.mpr ⟨(q, some s), hmem, ?_⟩
  cases m with
  | none => rfl
  | some f => simp [applyMod, hid f rfl]

/-- **The Go-slice model of `setNodeKey` implements `childPath`** when the child's path is
    built in an array of its own (`fresh`), for every growth policy of `append`: the new
    slice reads the parent's path extended by the key, and every slice that existed before
    — the parent's, every sibling's — still reads what it read. -/
theorem fresh_path_never_overwritten (grow : Nat → Nat) (h : GoHeap) (parent : Option GoSlice)
    (key : String) :
    let r := setNodeKeyM true grow h parent key
    r.2.read r.1 = childPath (match parent with | some p => p.read h | none => []) key ∧
    ∀ s : GoSlice, s.arr < h.length → s.read r.1 = s.read h := by
  intro r
  cases parent with
  | none => exact ⟨goAlloc_read h [key] 1, fun s hs => goAlloc_keeps h [key] 1 s hs⟩
  | some p =>
    by_cases hp : p.len = 0
    · have hr : r = goAlloc h [key] 1 := by simp [r, setNodeKeyM, hp]
      rw [hr]
      refine ⟨?_, fun s hs => goAlloc_keeps h [key] 1 s hs⟩
      rw [goAlloc_read]; simp [childPath, GoSlice.read, hp]
    · have hr : r = goAlloc h (p.read h ++ [key]) (p.len + 1) := by simp [r, setNodeKeyM, hp]
      rw [hr]
      exact ⟨goAlloc_read _ _ _, fun s hs => goAlloc_keeps _ _ _ s hs⟩

/-- **(partial) `setNodeKey` of the source keeps every sibling's path.**  The statement of
    `fresh_path_never_overwritten` for `setNodeKeyM` run with the *extracted* fact, under the
    hypothesis that the extracted fact says the child's path gets an array of its own
    (`nodePathFresh`, from compose/checkpoint.go `setNodeKey`).  Where that fact is `false`
    the statement is false — `sibling_path_overwritten_when_aliased`. -/
theorem node_path_kept_partial (hf : FactsC11.nodePathFresh = true) (grow : Nat → Nat)
    (h : GoHeap) (parent : Option GoSlice) (key : String) :
    let r := setNodeKeyM FactsC11.nodePathFresh grow h parent key
    r.2.read r.1 = childPath (match parent with | some p => p.read h | none => []) key ∧
    ∀ s : GoSlice, s.arr < h.length → s.read r.1 = s.read h := by
  rw [hf]; exact fresh_path_never_overwritten grow h parent key

/-- **(negation witness) `append(path.path, key)` on the parent's own slice: the second of
    two sibling nodes overwrites the first one's path.**  Paths k1, k1/k2, k1/k2/k3 are built
    by successive appends (capacities 1, 2, 4); the two children `a`, `b` of k3 are both
    appended into the spare fourth slot of the same array, so after `b`'s context is built
    `a`'s path reads k1/k2/k3/b as well — a modifier that dispatches on the path never sees
    `a`.  One level higher (children `c`, `d` of k2: length 2 = capacity 2) every append
    copies, which is why shallow nests do not show it.  With `fresh` both keep their paths.
    The harness reports this as `C11:paths:modifier-path` (fix:
    fixes/C11-sibling-node-path-alias.diff). -/
theorem sibling_path_overwritten_when_aliased :
    let nest (fresh : Bool) :=
      let r1 := setNodeKeyM fresh goGrow [] none "k1"
      let r2 := setNodeKeyM fresh goGrow r1.1 (some r1.2) "k2"
      let c := setNodeKeyM fresh goGrow r2.1 (some r2.2) "c"
      let d := setNodeKeyM fresh goGrow c.1 (some r2.2) "d"
      let r3 := setNodeKeyM fresh goGrow d.1 (some r2.2) "k3"
      let a := setNodeKeyM fresh goGrow r3.1 (some r3.2) "a"
      let b := setNodeKeyM fresh goGrow a.1 (some r3.2) "b"
      (a.2.read a.1, a.2.read b.1, b.2.read b.1, c.2.read b.1, d.2.read b.1)
    nest false = (["k1", "k2", "k3", "a"], ["k1", "k2", "k3", "b"], ["k1", "k2", "k3", "b"],
                  ["k1", "k2", "c"], ["k1", "k2", "d"]) ∧
    nest true = (["k1", "k2", "k3", "a"], ["k1", "k2", "k3", "a"], ["k1", "k2", "k3", "b"],
                 ["k1", "k2", "c"], ["k1", "k2", "d"]) := by decide

/-- the modifier of a two-sibling nest at depth 4 is called with the two distinct paths -/
example :
    (modCalls (nestLevels (none : Option Nat)
      (.cons (.mk "k1" none (.cons (.mk "k2" none (.cons (.mk "k3" (some 3)
        (.cons (.mk "a" (some 10) .nil) (.cons (.mk "b" (some 20) .nil) .nil))) .nil)) .nil)) .nil))) =
    [(["k1", "k2", "k3"], 3), (["k1", "k2", "k3", "a"], 10), (["k1", "k2", "k3", "b"], 20)] := by
  decide

end EinoV.C11
