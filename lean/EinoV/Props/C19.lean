/-
  C19 — A finished streaming run leaves no blocked producer or goroutine behind.
  Property theorems about the reader ledger of `resolveCompletedTasks`.
  Model: EinoV/Model/C19.lean.  Facts: EinoV/Gen/FactsC19.lean (regenerated from /repo).
-/
import EinoV.Model.C19
import EinoV.Gen.FactsC19
import EinoV.Expected.C19
import EinoV.Proofs.C02Settled
import EinoV.Proofs.C19Merge
import EinoV.Proofs.C19Route
import EinoV.Proofs.C19Callbacks

namespace EinoV.C19
open EinoV.Gen

theorem facts_match :
    FactsC19.closesSurplus = Expected.C19.closesSurplus ∧
    FactsC19.closesReplaced = Expected.C19.closesReplaced ∧
    FactsC19.skippedChannelClosesValues = Expected.C19.skippedChannelClosesValues ∧
    FactsC19.skipReleasesStored = Expected.C19.skipReleasesStored ∧
    FactsC19.closesNonDataValues = Expected.C19.closesNonDataValues ∧
    FactsC19.firstCopyExpr = Expected.C19.firstCopyExpr ∧
    FactsC19.recopyExpr = "toCopyNum+1" ∧
    FactsC19.toCopyNumExpr = "len(nextNodeKeys)-len(t.call.writeTo)-len(t.call.writeToBranches)" ∧
    -- the loop of multiStreamReader.close has one of the two shapes that release every sender
    -- (the oracle evaluates the model with the expected one; both give the same verdicts)
    (Merge.CloseShape.ofFact FactsC19.mergeCloseLoop).sound = true ∧
    (Merge.CloseShape.ofFact Expected.C19.mergeCloseLoop).sound = true ∧
    FactsC19.mergeRecvDrop = Expected.C19.mergeRecvDrop ∧
    -- updateValues lets the values sent to a target without data predecessors reach the closing arm
    Route.Missing.ofFact FactsC19.missingDpsArm = Route.Missing.ofFact Expected.C19.missingDpsArm ∧
    -- callback copies: as many as the loop hands out, plus the node's
    FactsC19.cbCopyCountExpr = Expected.C19.cbCopyCountExpr ∧
    FactsC19.cbHandLoop = Expected.C19.cbHandLoop := by decide

/-- **ledger_balanced.** For every task — any number of data successors `W`, branches `B`,
    selected targets `sel` (a multi-branch may select none, or several) and repeated targets
    `dups` (a successor named by an edge and by a branch) — every reader derived from the
    task's output stream is consumed by a branch condition, held by exactly one successor
    channel slot, or closed: none is left over. -/
theorem ledger_balanced (W B sel dups : Nat) (hd : dups ≤ sel + W) :
    (distribute FactsC19.closesSurplus FactsC19.closesReplaced W B sel dups).leaked = 0 := by
  have h : FactsC19.closesSurplus = true := by decide
  have h' : FactsC19.closesReplaced = true := by decide
  rw [h, h']
  simp only [distribute, Ledger.leaked, copyCount]
  by_cases h0 : sel + W = 0
  · simp only [h0, ↓reduceIte]
    by_cases h1 : W + 2 * B < 2 <;> simp only [h1, ↓reduceIte] <;> omega
  · simp only [h0, ↓reduceIte]
    by_cases h1 : W + 2 * B < 2 <;> by_cases h2 : sel + W + 1 - (W + B) < 2 <;>
      simp only [h1, h2, ↓reduceIte] <;> omega

/-- **copy_count_exact.** Readers are never shared: a distinct reader exists for every branch
    condition and every successor entry (no two consumers get the same reader). -/
theorem copy_count_exact (c c' : Bool) (W B sel dups : Nat) (hd : dups ≤ sel + W) :
    (distribute c c' W B sel dups).toBranches + (distribute c c' W B sel dups).toSuccessors + dups
      ≤ (distribute c c' W B sel dups).created + (if sel + W = 0 then dups else 0) := by
  simp only [distribute, copyCount]
  by_cases h0 : sel + W = 0
  · simp only [h0, ↓reduceIte]
    by_cases h1 : W + 2 * B < 2 <;> simp only [h1, ↓reduceIte] <;> omega
  · simp only [h0, ↓reduceIte]
    by_cases h1 : W + 2 * B < 2 <;> by_cases h2 : sel + W + 1 - (W + B) < 2 <;>
      simp only [h1, h2, ↓reduceIte] <;> omega

/-- Without closing anything, a task with some successor leaks one reader per branch that
    selected nothing (beyond the other branches' extra selections) and one per repeated
    target. (`hs`: targets can only be selected by branches.) -/
theorem leak_without_close (W B sel dups : Nat) (h : 0 < sel + W) (hs : B = 0 → sel = 0) (hd : dups ≤ sel + W) :
    (distribute false false W B sel dups).leaked = (B - sel) + dups := by
  have h0 : ¬ (sel + W = 0) := by omega
  simp only [distribute, Ledger.leaked, copyCount, h0, ↓reduceIte, Bool.false_eq_true]
  by_cases h1 : W + 2 * B < 2 <;> by_cases h2 : sel + W + 1 - (W + B) < 2 <;>
      simp only [h1, h2, ↓reduceIte] <;> omega

/-- negation witnesses for code that does not close: one data successor and one multi-branch
    that selects nothing ⇒ one reader is never closed; an edge and a selecting branch to the
    same node ⇒ the replaced copy is never closed. -/
theorem surplus_leaks_without_close : (distribute false true 1 1 0 0).leaked = 1 := by decide
theorem replaced_copy_leaks_without_close : (distribute true false 1 1 1 1).leaked = 1 := by decide

/-! non-vacuity -/
example : distribute true true 2 1 3 0 = { created := 6, toBranches := 1, toSuccessors := 5, closed := 0 } := by decide
example : (distribute true true 1 1 0 0) = { created := 3, toBranches := 1, toSuccessors := 1, closed := 1 } := by decide
example : (distribute true true 1 1 1 1) = { created := 3, toBranches := 1, toSuccessors := 1, closed := 1 } := by decide

/-! ### run level: no routed value is left waiting when the run returns -/

open EinoV.Engine EinoV.Engine.DagRun in
/-- **no_routed_value_left_waiting.** In a run of a well-formed acyclic all-predecessor runner
    that returns a value, under any fair completion schedule: every value a completed node routed
    as data to a node END (transitively) depends on has reached a node that *ran* — then the value
    is part of the input that node consumed (`C02.dag_input_is_exact`) — or that is *skipped* —
    then the channel closes the stored values (fact `skippedChannelClosesValues`).  No stream
    handed to such a successor is still parked in a channel when the run returns.  (Values routed
    to nodes END does not depend on are outside this statement: the property's "every produced
    value has a consumer".) -/
theorem no_routed_value_left_waiting {V} (ops : ValOps V) (r : Runner V) (wf : DagWF r)
    (hs : lookupList START r.ctrlPreds = []) (sched : Sched V) (hf : sched.Fair) (x v : V)
    (hres : (runS ops r sched x).result = .ok v) (p : Key) (o : V) (n : Key)
    (_hp : (p, o) ∈ histOf r x (runS ops r sched x).trace.reverse) (_hr : RoutesD r p o n)
    (ha : AncEnd r n) :
    (∃ o', (n, o') ∈ histOf r x (runS ops r sched x).trace.reverse) ∨
      SkippedIn r (histOf r x (runS ops r sched x).trace.reverse) n :=
  run_ancestors_settled ops r wf hs sched hf x v hres n ha

open EinoV.Engine EinoV.Engine.DagRun in
/-- **no_routed_value_left_waiting_workflow.** The same for the eager loop of Workflows (history of
    the submitted tasks), for every completion order. -/
theorem no_routed_value_left_waiting_workflow {V} (ops : ValOps V) (r : Runner V) (wf : DagWF r)
    (hs : lookupList START r.ctrlPreds = []) (pick : Pick V) (x v : V)
    (hres : (runEager ops r pick x).result = .ok v) (p : Key) (o : V) (n : Key)
    (_hp : (p, o) ∈ histOf r x (runEager ops r pick x).batches.reverse) (_hr : RoutesD r p o n)
    (ha : AncEnd r n) :
    (∃ o', (n, o') ∈ histOf r x (runEager ops r pick x).batches.reverse) ∨
      SkippedIn r (histOf r x (runEager ops r pick x).batches.reverse) n :=
  runEager_ancestors_settled ops r wf hs pick x v hres n ha

/-! ### copies addressed to successors: data, control-only, and targets without any data input -/

open EinoV.C19.Route in
/-- **manager_routes_or_closes_every_copy.** `channelManager.updateValues` followed by the channel's
    `reportValues` and by a later `reportSkip`, as read from the source (facts `missingDpsArm`,
    `closesNonDataValues`, `skippedChannelClosesValues`, `skipReleasesStored`): for every target — with any set of data predecessors, or with
    *no entry* in `dataPredecessors` because no data edge ends at it (the end node of a data-less
    Workflow branch that works on its zero input or on static values) —, every sender, and
    whether the target's channel is never skipped, already skipped when the stream arrives, or
    turns skipped after it has stored the stream: a stream sent to the target is handed to the
    node that consumes it, or closed.  It is never dropped. -/
theorem manager_routes_or_closes_every_copy (dps : Option (List String)) (sender : String)
    (skip : SkipTime) (consumer : Fate) (hc : consumer ≠ .dropped) :
    routeCopy srcFacts dps sender skip consumer ≠ .dropped :=
  routeCopy_ne_dropped (by decide) dps sender skip consumer hc

open EinoV.C19.Route in
/-- **workflow_copies_all_settled.** "every stream the framework created internally is drained or
    closed … with fan-out copies, … branches that read only a prefix of their input, key and
    field mappings": for every Workflow case of the family — any list of successors of the
    producer, each tied to it by data+control / data only / control only / as the end of a
    data-less branch, each taking its own data from START, from nothing, from static values, from
    START or from the producer without control; any condition (value or prefix-reading, single
    or multi-way) selecting any set of ends; END reading the producer's output or not; the caller
    reading everything or any prefix — no reader derived from the producer's output is dropped,
    their number is the one the ledger (`distribute`) creates, and the producer is released. -/
theorem workflow_copies_all_settled (c : Case) :
    (∀ x ∈ fates srcFacts c, x ≠ .dropped) ∧
    (fates srcFacts c).length =
      (distribute FactsC19.closesSurplus FactsC19.closesReplaced (writeToEntries c).length
        (nBranches c) (selectedEntries c).length
        ((selectedEntries c).filter (·.replaced)).length).created ∧
    mustRelease srcFacts c = true :=
  ⟨fates_ne_dropped (by decide) c,
   (fates_length srcFacts c).trans (created_eq_ledger _ _ c _),
   mustRelease_of_closing (by decide) c⟩

open EinoV.C19.Route in
/-- negation, general form: code that goes to the next target when the target has no entry in
    `dataPredecessors` drops the copy made for every selected branch end that takes no data from
    any node (the other facts as in the source). -/
theorem skipped_target_drops_copy_of_dataless_branch_end (f : Facts) (hm : f.missing = .skipTarget)
    (c : Case) (s : Succ) (hs : s ∈ c.succ) (hsel : isSelected c s = true)
    (hd : s.data = .none ∨ s.data = .static) :
    Fate.dropped ∈ fates f c := by
  have hk : s.kind = .branchend := by
    simp only [isSelected, isEnd, Bool.and_eq_true, beq_iff_eq] at hsel
    exact hsel.1.2
  have hdps : dpsOf s = none := by
    rcases hd with hd | hd <;> simp [dpsOf, dataFromP, dataFromStart, hk, hd]
  have hrep : dataFromP s = false := by
    rcases hd with hd | hd <;> simp [dataFromP, hk, hd]
  simp only [fates, List.mem_append, List.mem_map]
  refine Or.inl (Or.inr ⟨⟨s.key, dpsOf s, .never, .drained, dataFromP s⟩, ?_, ?_⟩)
  · simp only [entries, selectedEntries, List.mem_append, List.mem_map, List.mem_filter]
    exact Or.inl ⟨s, ⟨hs, hsel⟩, rfl⟩
  · simp only [entryFate, hrep, hdps, Bool.false_eq_true, ↓reduceIte]
    exact routeCopy_skipTarget hm _ _ _

open EinoV.C19.Route in
/-- negation witness: a producer of three chunks whose only successors are the two ends of a
    prefix-reading branch, the selected one taking no input at all; the caller reads the output to
    the end.  With the fallback of the source the copy is closed and the producer released; code
    that skips the target drops it, no other reader takes all the chunks: the producer stays
    blocked.  (The harness runs this shape; family `workflow`, data shape `none`.) -/
theorem skipped_target_witness :
    let c : Case := { chunks := 3, succ := [⟨"n0", .branchend, .none⟩, ⟨"n1", .branchend, .start⟩],
                      cond := .pfx, select := ["n0"], endData := false, consume := none }
    let good : Facts := ⟨.emptySet, true, true, true, true, true⟩
    let bad : Facts := ⟨.skipTarget, true, true, true, true, true⟩
    fates good c = [.closedAfter 1 1, .closed] ∧ mustRelease good c = true ∧
    fates bad c = [.closedAfter 1 1, .dropped] ∧ mustRelease bad c = false ∧ mustBlock bad c = true := by
  decide

/-! non-vacuity: a selected branch end that also takes the producer's data without control (its
    branch copy is replaced and closed, the data copy is drained), a deselected one (skipped
    channel: closed), a data successor, END reading a prefix -/
open EinoV.C19.Route in
example : fates ⟨.emptySet, true, true, true, true, true⟩
    { chunks := 2, succ := [⟨"n0", .branchend, .pdata⟩, ⟨"n1", .branchend, .pdata⟩, ⟨"n2", .input, .start⟩],
      cond := .multiPfx, select := ["n0"], endData := true, consume := some 1 }
    = [.closedAfter 1 1, .closed, .drained, .closed, .drained, .closedAfter 0 1] := by decide

/-! ### a value stored in a channel that is skipped later, and the other order -/

open EinoV.C19.Route in
/-- **cross_copies_all_settled.** The producer `A` and the node `B` that branches run side by
    side; the ends of `B`'s branch take `A`'s stream without control, with control, or not at all;
    END may read `A` directly.  For every such case — any ends, any selection, and **each order**
    in which `A`'s value reaches an end's channel and the branch skips that end (value stored
    first and the skip later; skip first and the value later; an order the run does not fix) —,
    any reading point of the caller: no reader derived from `A`'s output is dropped, their number
    is the ledger's, and `A`'s producer is released. -/
theorem cross_copies_all_settled (c : XCase) :
    (∀ x ∈ xFates srcFacts c, x ≠ .dropped) ∧
    (xFates srcFacts c).length =
      (distribute FactsC19.closesSurplus FactsC19.closesReplaced (xEntries c).length 0 0 0).created ∧
    xMustRelease srcFacts c = true :=
  ⟨xFates_ne_dropped (by decide) c,
   (xFates_length srcFacts c).trans (xCreated_eq_ledger _ _ c),
   xMustRelease_of_closing (by decide) c⟩

open EinoV.C19.Route in
/-- negation, general form (the defect repaired by fixes/C19-skip-releases-stored-streams.diff): if
    `reportSkip` does not release what the channel already holds, the copy of `A`'s stream stored
    in the channel of an end that only the branch controls, and that the branch does not select
    afterwards, is dropped. -/
theorem stored_copy_dropped_when_skip_does_not_release (f : Facts) (hf : f.skipReleasesStored = false)
    (c : XCase) (ho : c.order = .valueFirst) (e : XEnd) (he : e ∈ c.ends) (hd : e.data = .adata)
    (hsel : c.select.contains e.key = false) :
    Fate.dropped ∈ xFates f c := by
  simp only [xFates, List.mem_append, List.mem_map]
  refine Or.inl ⟨⟨e.key, some ["A"], xSkip c e, if e.drains then .drained else endFate c.consume, false⟩, ?_, ?_⟩
  · simp only [xEntries, List.mem_append, List.mem_map, List.mem_filter]
    exact Or.inl ⟨e, ⟨he, by simp [xTakesA, hd]⟩, rfl⟩
  · have hsel' : e.key ∉ c.select := by simpa using hsel
    simp [xEntryFate, routeCopy, xSkip, xBranchOnly, hd, hsel', ho, skipFate, hf]

open EinoV.C19.Route in
/-- negation, general form, the other order: if `reportValues` on a skipped channel does not close
    the streams it is handed (e.g. it closes the values it already holds instead), the copy that
    arrives at an end the branch has already skipped is dropped. -/
theorem arriving_copy_dropped_when_skipped_channel_does_not_close (f : Facts) (hf : f.skippedCloses = false)
    (c : XCase) (ho : c.order = .skipFirst) (e : XEnd) (he : e ∈ c.ends) (hd : e.data = .adata)
    (hsel : c.select.contains e.key = false) :
    Fate.dropped ∈ xFates f c := by
  simp only [xFates, List.mem_append, List.mem_map]
  refine Or.inl ⟨⟨e.key, some ["A"], xSkip c e, if e.drains then .drained else endFate c.consume, false⟩, ?_, ?_⟩
  · simp only [xEntries, List.mem_append, List.mem_map, List.mem_filter]
    exact Or.inl ⟨e, ⟨he, by simp [xTakesA, hd]⟩, rfl⟩
  · have hsel' : e.key ∉ c.select := by simpa using hsel
    simp [xEntryFate, routeCopy, xSkip, xBranchOnly, hd, hsel', ho, skipFate, hf]

open EinoV.C19.Route in
/-- negation witnesses (the harness runs both shapes; family `cross`): `X` takes `A`'s stream
    without control and is not selected, `Y` passes `A`'s stream on to END lazily, the caller reads
    one chunk of five and closes.  Value first + a `reportSkip` that does not release: blocked.
    Skip first + a `reportValues` that does not close what arrives: blocked.  With the closing
    facts both are released. -/
theorem skipped_later_witness :
    let ends : List XEnd := [⟨"X", .adata, false⟩, ⟨"Y", .adata, false⟩]
    let c1 : XCase := { chunks := 5, order := .valueFirst, ends := ends, select := ["Y"], endData := false, consume := some 1 }
    let c2 : XCase := { c1 with order := .skipFirst }
    let good : Facts := ⟨.emptySet, true, true, true, true, true⟩
    xFates good c1 = [.closed, .closedAfter 0 1] ∧ xMustRelease good c1 = true ∧ xMustRelease good c2 = true ∧
    xFates ⟨.emptySet, true, true, false, true, true⟩ c1 = [.dropped, .closedAfter 0 1] ∧
    xMustBlock ⟨.emptySet, true, true, false, true, true⟩ c1 = true ∧
    xFates ⟨.emptySet, true, false, true, true, true⟩ c2 = [.dropped, .closedAfter 0 1] ∧
    xMustBlock ⟨.emptySet, true, false, true, true, true⟩ c2 = true := by
  decide

/-! ### copies made for callback handlers: the handler LIST (repeated values, decliners) -/

open EinoV.C19.Cb in
/-- **callback_copies_all_handed_out.** "callback handlers that close their copies": for every
    handler list of a streaming timing — any length, the same handler value listed any number of
    times (passed twice for the run; global and per call), handlers whose TimingChecker declines
    the timing anywhere in the list — `OnWithStreamHandle` as read from the source (facts
    `cbCopyCountExpr`, `cbHandLoop`) makes exactly one copy per kept occurrence plus the node's,
    hands the copy at position `i` to the `i`-th kept occurrence (every position once), and leaves
    none over.  Every copy is thereby owned by a handler (who closes it) or by the node. -/
theorem callback_copies_all_handed_out (hs : List Occ) :
    handed (HandRule.ofFact FactsC19.cbHandLoop) hs = List.range (kept hs).length ∧
    copies (CopyRule.ofFact FactsC19.cbCopyCountExpr) hs
      = some (if (kept hs).isEmpty then 1 else (kept hs).length + 1) ∧
    leaked (CopyRule.ofFact FactsC19.cbCopyCountExpr) (HandRule.ofFact FactsC19.cbHandLoop) hs = some 0 := by
  have hh : HandRule.ofFact FactsC19.cbHandLoop = .everyKept := by decide
  have hc : CopyRule.ofFact FactsC19.cbCopyCountExpr = .perKept := by decide
  have h1 : handed .everyKept hs = List.range (kept hs).length := by
    simp [handed, handedAux_every]
  refine ⟨by rw [hh, h1], by rw [hc]; rfl, ?_⟩
  rw [hh, hc]
  simp only [leaked, copies, h1, List.length_range, Option.map_some, Option.some.injEq]
  split <;> omega

open EinoV.C19.Cb in
/-- negation, general form: a loop that passes over a handler value it has seen earlier in the
    list, while the copies are still made per listed occurrence, leaves a copy nobody owns
    whenever the kept list starts with a value that is listed again right away (in particular
    `WithCallbacks(h), WithCallbacks(h)`). -/
theorem repeated_handler_copy_leaks_when_loop_skips_it (o : Occ) (rest : List Occ) (ho : o.needs = true) :
    ∃ n, leaked .perKept .skipRepeated (o :: o :: rest) = some n ∧ 0 < n := by
  have hk : kept (o :: o :: rest) = o :: o :: kept rest := by simp [kept, List.filter, ho]
  have hl : (handed .skipRepeated (o :: o :: rest)).length ≤ 1 + (kept rest).length := by
    simp only [handed, hk, handedAux, List.contains_nil, Bool.false_eq_true, ↓reduceIte, List.length_cons,
      List.contains_cons, BEq.rfl, Bool.true_or]
    have := handedAux_skip_le [o.id] (kept rest) (0 + 1 + 1)
    omega
  refine ⟨_, rfl, ?_⟩
  simp only [hk, List.isEmpty_cons, Bool.false_eq_true, ↓reduceIte, List.length_cons]
  omega

open EinoV.C19.Cb in
/-- negation witness (the harness lists one handler value twice; handler-list entries `=i`, `g=i`):
    handler 7 passed twice, a decliner in between. -/
theorem repeated_handler_witness :
    leaked .perKept .everyKept [⟨7, true⟩, ⟨3, false⟩, ⟨7, true⟩] = some 0 ∧
    handed .everyKept [⟨7, true⟩, ⟨3, false⟩, ⟨7, true⟩] = [0, 1] ∧
    copies .perKept [⟨7, true⟩, ⟨3, false⟩, ⟨7, true⟩] = some 3 ∧
    handed .skipRepeated [⟨7, true⟩, ⟨3, false⟩, ⟨7, true⟩] = [0] ∧
    leaked .perKept .skipRepeated [⟨7, true⟩, ⟨3, false⟩, ⟨7, true⟩] = some 1 := by decide

/-! ### merges: closing a merged reader early -/

open EinoV.C19.Merge in
/-- **merged_close_signals_every_open_source_once.** For any number of merged sources, any
    lengths and any run of `recv` picks (so: for any set of sources whose end the merged reader
    has already observed), the loop of `multiStreamReader.close` — in the shape read from the
    source, fact `mergeCloseLoop` — signals every source still in `chosenList` exactly once, and no
    source twice (`closeRecv` must not be called twice on a stream). -/
theorem merged_close_signals_every_open_source_once (srcs : List Src) (evs : List Ev) (s : St)
    (h : run (init srcs) evs = some s) :
    (∀ i, i ∈ s.chosen → (closeTargets (CloseShape.ofFact FactsC19.mergeCloseLoop) s).count i = 1) ∧
    (∀ i, (closeTargets (CloseShape.ofFact FactsC19.mergeCloseLoop) s).count i ≤ 1) := by
  have hi := inv_run evs (inv_init srcs) h
  have hs : (CloseShape.ofFact FactsC19.mergeCloseLoop).sound = true := by decide
  have hn := closeTargets_nodup hi (CloseShape.ofFact FactsC19.mergeCloseLoop)
  refine ⟨fun i hc => ?_, fun i => List.nodup_iff_count.mp hn i⟩
  have h1 := List.nodup_iff_count.mp hn i
  have h2 := List.count_pos_iff.mpr (open_mem_closeTargets hi _ hs hc)
  omega

open EinoV.C19.Merge in
/-- **merged_close_releases_every_sender.** "closed early by the caller … producers blocked on a
    send are released", for merges: whatever the consumer of a merged reader has read and
    whichever sources have already ended, after `close` every sender is released — it had
    delivered all its chunks (then it closes its side by itself), or its stream got `closeRecv`. -/
theorem merged_close_releases_every_sender (srcs : List Src) (evs : List Ev) (s : St)
    (h : run (init srcs) evs = some s) (i : Nat) (hi : i < srcs.length) :
    (close (CloseShape.ofFact FactsC19.mergeCloseLoop) s).released i = true :=
  released_close (inv_run evs (inv_init srcs) h) _ (by decide) hi

open EinoV.C19.Merge in
/-- the same for the other sound loop shape (signal exactly the sources still being read):
    the property does not depend on signalling sources that have already ended. -/
theorem merged_close_open_values_releases_every_sender (srcs : List Src) (evs : List Ev) (s : St)
    (h : run (init srcs) evs = some s) (i : Nat) (hi : i < srcs.length) :
    (close .openValues s).released i = true ∧ (∀ j, j ∉ s.chosen → j ∉ closeTargets .openValues s) :=
  ⟨released_close (inv_run evs (inv_init srcs) h) _ rfl hi, fun _ hj => hj⟩

open EinoV.C19.Merge in
/-- negation, general form: a loop that uses the *positions* of `chosenList` as source indices
    sends no signal to an open source whose index is not below the number of open sources; its
    sender stays blocked if it still has chunks to deliver. -/
theorem merged_close_by_position_leaves_sender_blocked (srcs : List Src) (evs : List Ev) (s : St)
    (h : run (init srcs) evs = some s) (i : Nat) (hge : s.chosen.length ≤ i)
    (hgot : s.gotOf i ≠ s.lenOf i) (hpre : s.preOf i = false) :
    (close .openPositions s).released i = false :=
  positions_miss (inv_run evs (inv_init srcs) h) hge hgot hpre

open EinoV.C19.Merge in
/-- negation witness: two sources, the first ends at once and the reader observes it; closing
    by position then signals source 0 again and never source 1. Also on the `judge` function the
    oracle evaluates (consumer received nothing from a 1-chunk source 1, then closed). -/
theorem merged_close_by_position_witness :
    (∃ s, run (init [{ len := 0 }, { len := 3 }]) [.ended 0] = some s ∧
      closeTargets .openPositions s = [0] ∧ (close .openPositions s).released 1 = false) ∧
    (judge .openPositions [{ len := 0 }, { len := 3 }] [] false).release = [0] ∧
    (judge .allSources [{ len := 0 }, { len := 3 }] [] false).release = [0, 1] := by decide

/-! non-vacuity: a run with chunks and observed ends; seven sources (reflect.Select path) -/
open EinoV.C19.Merge in
example : ∃ s, run (init [{ len := 1 }, { len := 2 }, { len := 0 }]) [.chunk 1, .ended 2, .chunk 0, .ended 0] = some s ∧
    s.chosen = [1] ∧ closeTargets .allSources s = [0, 1, 2] ∧ closeTargets .openValues s = [1] ∧
    closeTargets .openPositions s = [0] := by decide
open EinoV.C19.Merge in
example : (judge .allSources ((List.range 7).map fun i => { len := i % 2 }) [1, 3] false).stillOpen = [5] ∧
    (judge .openPositions ((List.range 7).map fun i => { len := i % 2 }) [1, 3] false).release = [0, 1, 2, 3, 4, 6] := by decide

end EinoV.C19
