/-
  C19 — A finished streaming run leaves no blocked producer or goroutine behind.
  Property theorems about the reader ledger of `resolveCompletedTasks`.
  Model: EinoV/Model/C19.lean.  Facts: EinoV/Gen/FactsC19.lean (regenerated from /repo).
-/
import EinoV.Model.C19
import EinoV.Gen.FactsC19
import EinoV.Expected.C19

namespace EinoV.C19
open EinoV.Gen

theorem facts_match :
    FactsC19.closesSurplus = Expected.C19.closesSurplus ∧
    FactsC19.closesNonDataValues = Expected.C19.closesNonDataValues ∧
    FactsC19.firstCopyExpr = Expected.C19.firstCopyExpr ∧
    FactsC19.recopyExpr = "toCopyNum+1" ∧
    FactsC19.toCopyNumExpr = "len(nextNodeKeys)-len(t.call.writeTo)-len(t.call.writeToBranches)" := by decide

/-- **ledger_balanced.** For every task — any number of data successors `W`, branches `B`
    and selected targets `sel` (a multi-branch may select none, or several) — every reader
    derived from the task's output stream is consumed by a branch condition, handed to exactly
    one successor channel, or closed: none is left over. -/
theorem ledger_balanced (W B sel : Nat) :
    (distribute FactsC19.closesSurplus W B sel).leaked = 0 := by
  have h : FactsC19.closesSurplus = true := by decide
  rw [h]
  simp only [distribute, Ledger.leaked, copyCount]
  by_cases h0 : sel + W = 0
  · simp only [h0, ↓reduceIte]
    by_cases h1 : W + 2 * B < 2 <;> simp only [h1, ↓reduceIte] <;> omega
  · simp only [h0, ↓reduceIte]
    by_cases h1 : W + 2 * B < 2 <;> by_cases h2 : sel + W + 1 - (W + B) < 2 <;>
      simp only [h1, h2, ↓reduceIte] <;> omega

/-- **copy_count_exact.** Readers are never shared: at least one distinct reader exists for
    every branch condition and every successor (no two consumers get the same reader). -/
theorem copy_count_exact (c : Bool) (W B sel : Nat) :
    (distribute c W B sel).toBranches + (distribute c W B sel).toSuccessors
      ≤ (distribute c W B sel).created := by
  simp only [distribute, copyCount]
  by_cases h0 : sel + W = 0
  · simp only [h0, ↓reduceIte]
    by_cases h1 : W + 2 * B < 2 <;> simp only [h1, ↓reduceIte] <;> omega
  · simp only [h0, ↓reduceIte]
    by_cases h1 : W + 2 * B < 2 <;> by_cases h2 : sel + W + 1 - (W + B) < 2 <;>
      simp only [h1, h2, ↓reduceIte] <;> omega

/-- Without closing the surplus, a task with some successor leaks exactly `B - sel` readers:
    none when the branches select at least as many targets as there are branches (always the
    case for single-target branches), one per branch that selected nothing otherwise.
    (`hs`: targets can only be selected by branches.) -/
theorem leak_without_close (W B sel : Nat) (h : 0 < sel + W) (hs : B = 0 → sel = 0) :
    (distribute false W B sel).leaked = B - sel := by
  have h0 : ¬ (sel + W = 0) := by omega
  simp only [distribute, Ledger.leaked, copyCount, h0, ↓reduceIte, Bool.false_eq_true]
  by_cases h1 : W + 2 * B < 2 <;> by_cases h2 : sel + W + 1 - (W + B) < 2 <;>
      simp only [h1, h2, ↓reduceIte] <;> omega

/-- negation witness for code that does not close the surplus: one data successor, one
    multi-branch that selects nothing ⇒ one reader is never closed (its producer stays
    blocked once the other readers are closed). -/
theorem surplus_leaks_without_close : (distribute false 1 1 0).leaked = 1 := by decide

/-! non-vacuity -/
example : distribute true 2 1 3 = { created := 6, toBranches := 1, toSuccessors := 5, closed := 0 } := by decide
example : (distribute true 1 1 0) = { created := 3, toBranches := 1, toSuccessors := 1, closed := 1 } := by decide

end EinoV.C19
