/-
  C15 — Workflow field mappings move exactly the mapped values; overlaps are rejected.
  Property theorems.  Model: EinoV/Model/C15.lean.  Source facts: EinoV/Gen/FactsC15.lean
  (regenerated from /repo on every run; a flipped fact breaks `facts_match` and with it the build).
-/
import EinoV.Model.C15
import EinoV.Proofs.C15Trie
import EinoV.Proofs.C15
import EinoV.Proofs.C15Keys
import EinoV.Proofs.C15Static
import EinoV.Model.C15Embed
import EinoV.Proofs.C15Embed
import EinoV.Gen.FactsC15
import EinoV.Expected.C15

namespace EinoV.C15
open EinoV.Gen

/-- the structural facts of `checkAndAddMappedPath` as extracted from the source -/
def srcTrie : TrieFacts :=
  { rejectsThroughTerminal := FactsC15.trieRejectsThroughTerminal
    descendsExisting := FactsC15.trieDescendsExisting
    rejectsEndOnInner := FactsC15.trieRejectsEndOnInner
    rejectsWholeAfterFields := FactsC15.trieRejectsWholeAfterFields
    emptyPathIsWhole := FactsC15.trieEmptyPathIsWhole }

/-- the structural facts of `takeOne` / `fieldMap` as extracted from the source -/
def srcTake : TakeFacts :=
  { guardsInvalid := FactsC15.takeGuardsInvalid
    guardsElem := FactsC15.takeGuardsElem
    returnsGenericErr := FactsC15.fieldMapReturnsGenericErr }

/-- the structural facts of the static checker as extracted from the source -/
def srcValidate : ValidateFacts :=
  { rejectsTrailingSegment := FactsC15.validateRejectsTrailingSegment
    checkerPerMapping := FactsC15.checkerPerMapping
    streamCheckerKeepsChunkType := FactsC15.streamCheckerKeepsChunkType
    ifaceCheckerGuardsNil := FactsC15.ifaceCheckerGuardsNil
    lastSegmentBelowIfaceIsIntermediate := FactsC15.lastSegmentBelowIfaceIsIntermediate
    derefsOnePointerLevel := FactsC15.derefsOnePointerLevel }

/-! ## property theorems (instantiated with the facts regenerated from /repo) -/

/-- Source fact tie: the regenerated facts are the ones the theorems below are proved for. -/
theorem facts_match :
    srcTrie = Expected.C15.trie ∧ srcTake = Expected.C15.take ∧ srcValidate = Expected.C15.validate := by
  decide

/-- **overlap_rejected_iff.** Whatever the order of the `AddInput` calls and of the mappings
    inside them, the declarations of a node are accepted iff no two target paths are equal or
    prefix-related (a dependency without mappings targets the whole input, the empty path). -/
theorem overlap_rejected_iff (groups : List (List Path)) :
    acceptedOverlap srcTrie groups = true ↔ noOverlap (targets groups) := by
  rw [facts_match.1]; exact acceptedOverlap_iff groups

/-- ... hence acceptance does not depend on the declaration order. -/
theorem overlap_order_independent (groups groups' : List (List Path))
    (h : (targets groups).Perm (targets groups')) :
    acceptedOverlap srcTrie groups = acceptedOverlap srcTrie groups' := by
  have hsymm : ∀ {p q : Path}, ¬ prefixRel p q → ¬ prefixRel q p := fun h hh => h (prefixRel_symm hh)
  have := h.pairwise_iff (R := fun p q => ¬ prefixRel p q) hsymm
  have e1 := overlap_rejected_iff groups
  have e2 := overlap_rejected_iff groups'
  unfold noOverlap at e1 e2
  cases h1 : acceptedOverlap srcTrie groups <;> cases h2 : acceptedOverlap srcTrie groups' <;> simp_all

/-- **mapped_exact.** For a set of entries whose targets are pairwise prefix-unrelated and each
    of which is assignable, *every* iteration order of `convertTo` (Go map iteration) yields the
    same successor input `v`; `v` reads back, at every mapped target path, exactly the taken value
    (stored at the static type of the slot); and every path unrelated to all targets reads as in
    the fresh instance, i.e. is still zero. -/
theorem mapped_exact (T : FTy) (l : List (Path × Taken))
    (hno : noOverlap (l.map (·.1)))
    (hok : ∀ x ∈ l, (assign T (newInstance T) x.1 x.2).isSome) :
    ∃ v, (∀ l', l'.Perm l → convertTo T l' = some v) ∧
      (∀ x ∈ l, ∃ st w, slotTy T x.1 = some st ∧ store st x.2 = some w ∧ getT T v x.1 = some (st, w)) ∧
      (∀ q, (∀ x ∈ l, ¬ prefixRel x.1 q) → getT T v q = getT T (newInstance T) q) := by
  have hpw : l.Pairwise (fun x y => ¬ prefixRel x.1 y.1) := by
    unfold noOverlap at hno; exact List.pairwise_map.mp hno
  have hsome := convertFrom_isSome T l (newInstance T)
    (fun x hx d' => by rw [assign_isSome_indep x.1 T d' (newInstance T)]; exact hok x hx)
  cases hv : convertFrom T (newInstance T) l with
  | none => simp [hv] at hsome
  | some v =>
    obtain ⟨hA, hB⟩ := convertFrom_spec T l (newInstance T) v hpw hv
    refine ⟨v, fun l' hp => ?_, hA, hB⟩
    unfold convertTo
    rw [← hv]
    have hpw' := (hp.symm.pairwise_iff (R := fun (x y : Path × Taken) => ¬ prefixRel x.1 y.1)
      (fun h hh => h (prefixRel_symm hh))).mp hpw
    exact convertFrom_perm T hp hpw' _

/-- **mapped_exact (no other keys).** "Everything else zero-valued" for maps and `any` holes: in
    the successor input built from an accepted set, a map found at a path `c` that is not at or
    below a target has no key except those lying on a target path (a fresh instance has none). -/
theorem mapped_exact_no_other_keys (T : FTy) (l : List (Path × Taken)) (v : FVal)
    (hv : convertTo T l = some v) (c : Path) (hc : ∀ x ∈ l, ¬ x.1 <+: c)
    (ks : List String) (hk : keysAt T v c = some ks) :
    ∀ k ∈ ks, ∃ x ∈ l, (c ++ [k]) <+: x.1 := by
  intro k hmem
  rcases convertFrom_keys T l (newInstance T) v c ks k hv hc hk hmem with ⟨ks0, h0, hin⟩ | h
  · have := keysAt_newInstance T c ks0 h0
    subst this
    simp at hin
  · exact h

/-- **stream_agrees.** In streaming execution every predecessor edge delivers its own chunk: the
    entries `l₁` of one edge (a sub-list of all entries `l`) are converted on their own.  The chunk
    holds the same values at its own target paths as the non-streaming input, and is zero at every
    path unrelated to them; with a single edge (`l₁ = l`) chunk and input coincide. -/
theorem stream_agrees (T : FTy) (l l₁ : List (Path × Taken)) (hsub : l₁.Sublist l)
    (hno : noOverlap (l.map (·.1)))
    (hok : ∀ x ∈ l, (assign T (newInstance T) x.1 x.2).isSome) :
    ∃ v v₁, convertTo T l = some v ∧ convertTo T l₁ = some v₁ ∧
      (∀ x ∈ l₁, getT T v₁ x.1 = getT T v x.1) ∧
      (∀ q, (∀ x ∈ l₁, ¬ prefixRel x.1 q) → getT T v₁ q = getT T (newInstance T) q) := by
  obtain ⟨v, hv, hA, _⟩ := mapped_exact T l hno hok
  have hno₁ : noOverlap (l₁.map (·.1)) := by
    unfold noOverlap at hno ⊢
    exact List.Pairwise.sublist (List.Sublist.map _ hsub) hno
  obtain ⟨v₁, hv₁, hA₁, hB₁⟩ := mapped_exact T l₁ hno₁ (fun x hx => hok x (hsub.subset hx))
  refine ⟨v, v₁, hv l (List.Perm.refl l), hv₁ l₁ (List.Perm.refl l₁), fun x hx => ?_, hB₁⟩
  obtain ⟨st, w, h1, h2, h3⟩ := hA x (hsub.subset hx)
  obtain ⟨st', w', h1', h2', h3'⟩ := hA₁ x hx
  rw [h1] at h1'; cases h1'
  rw [h2] at h2'; cases h2'
  rw [h3, h3']

/-- **source_unchanged.** Values taken from predecessor outputs are stored by reference.  In an
    accepted (overlap-free) set, whatever the order, no assignment reaches the value an earlier
    assignment stored, nor anything below it: the step for `x` leaves the whole subtree at the
    target of every earlier entry `y` as it was, so nothing is written through a predecessor's
    pointer or map.  (Extraction itself is a pure function of the predecessor output.) -/
theorem source_unchanged (T : FTy) (l pre post : List (Path × Taken)) (x : Path × Taken)
    (hno : noOverlap (l.map (·.1))) (hl : l = pre ++ x :: post) (d d' : FVal)
    (hx : assign T d x.1 x.2 = some d') :
    ∀ y ∈ pre, ∀ r, getT T d' (y.1 ++ r) = getT T d (y.1 ++ r) := by
  intro y hy r
  have hpw : l.Pairwise (fun x y => ¬ prefixRel x.1 y.1) := by
    unfold noOverlap at hno; exact List.pairwise_map.mp hno
  subst hl
  have hyx : ¬ prefixRel y.1 x.1 := by
    have := (List.pairwise_append.mp hpw).2.2 y hy x (by simp)
    exact this
  have hrel : ¬ prefixRel x.1 (y.1 ++ r) := by
    intro hh
    rcases hh with hh | hh
    · -- x.1 <+: y.1 ++ r : then x.1 and y.1 are both prefixes of the same list
      rcases List.prefix_or_prefix_of_prefix hh (List.prefix_append y.1 r) with h | h
      · exact hyx (Or.inr h)
      · exact hyx (Or.inl h)
    · exact hyx (Or.inl (List.IsPrefix.trans (List.prefix_append y.1 r) hh))
  exact assign_getT_other x.1 (y.1 ++ r) T d d' x.2 hrel hx

/-- **runtime_check_no_panic (extraction).** Whatever the predecessor output holds on the way
    (nil pointers, nil or unexpectedly typed interface values, absent keys), extraction along a
    source path ends in a value or an error, never in a panic. -/
theorem take_never_panics (t : FTy) (v : FVal) (p : Path) : take srcTake t v p ≠ .error .panic := by
  rw [facts_match.2.1]; exact take_no_panic t v p

/-- **runtime_check_no_panic.** If every mapping of every edge passed the static check, a run of
    the successor's input construction — edge handlers with their run-time checkers, then
    `convertTo` — never panics: type mismatches that can only be seen at run time are errors, and
    whatever passes the checkers can be assigned ("convertTo failed when must succeed" is
    unreachable), in non-streaming and streaming form alike. -/
theorem runtime_check_no_panic (allowMissing : Bool) (st : FTy) (es : List Edge)
    (hval : ∀ e ∈ es, ∀ m ∈ e.ms, (validateOne srcValidate e.pt st m).isSome) :
    runNode srcTake srcValidate allowMissing st es ≠ .error .panic := by
  rw [facts_match.2.1, facts_match.2.2] at *
  unfold runNode
  have hnp := edgesMap_no_panic allowMissing st es
  cases he : edgesMap Expected.C15.take Expected.C15.validate allowMissing st es with
  | error e => simp only [ne_eq, Except.error.injEq]; intro h; subst h; exact hnp he
  | ok l =>
    simp only []
    have hall := edgesMap_ok allowMissing st es l hval he
    have := convertFrom_isSome st l (newInstance st) hall
    unfold convertTo
    cases hc : convertFrom st (newInstance st) l with
    | none => simp [hc] at this
    | some v => simp

/-! ## pre-node handler chain, static values -/

/-- the structural facts of `preNodeHandlerManager.handle` as extracted from the source -/
def srcPreNode : ChainFacts :=
  { valueAppliesAll := FactsC15.preNodeValueAppliesAll
    streamAppliesAll := FactsC15.preNodeStreamAppliesAll }

/-- … of `preBranchHandlerManager.handle` and `edgeHandlerManager.handle` (the same loop shape:
    the field-mapping edge handlers `[fieldMap, checker]` go through the latter) -/
def srcPreBranch : ChainFacts :=
  { valueAppliesAll := FactsC15.preBranchValueAppliesAll
    streamAppliesAll := FactsC15.preBranchStreamAppliesAll }
def srcEdge : ChainFacts :=
  { valueAppliesAll := FactsC15.edgeValueAppliesAll
    streamAppliesAll := FactsC15.edgeStreamAppliesAll }

/-- Source fact tie for the handler managers: both twins of all three `handle` functions iterate
    over the whole handler list. -/
theorem chain_facts_match :
    srcPreNode = Expected.C15.chain ∧ srcPreBranch = Expected.C15.chain ∧ srcEdge = Expected.C15.chain := by
  decide

/-- **chain_twins_agree.** For every list of handlers (no bound on its length), every
    concatenation function and every chunk list: if each handler commutes with concatenation,
    the stream twin of `preNodeHandlerManager.handle` followed by concatenation gives what the
    value twin gives on the concatenated chunks — streaming and non-streaming execution hand the
    node the same input (an error in one is the same error in the other). -/
theorem chain_twins_agree {V E : Type} (concat : List V → V) (hs : List (HandlerPair V E))
    (hc : ∀ h ∈ hs, Commutes concat h) (cs : List V) :
    (chainStream srcPreNode.streamAppliesAll hs cs).map concat =
      chainValue srcPreNode.valueAppliesAll hs (concat cs) := by
  rw [chain_facts_match.1]
  exact chain_agree_along concat hs cs (commutesAlong_of_commutes concat hs hc cs)

/-- … the same for the handler lists on edges and in front of branches -/
theorem chain_twins_agree_edge_branch {V E : Type} (concat : List V → V) (hs : List (HandlerPair V E))
    (hc : ∀ h ∈ hs, Commutes concat h) (cs : List V) :
    (chainStream srcEdge.streamAppliesAll hs cs).map concat = chainValue srcEdge.valueAppliesAll hs (concat cs) ∧
    (chainStream srcPreBranch.streamAppliesAll hs cs).map concat = chainValue srcPreBranch.valueAppliesAll hs (concat cs) := by
  rw [chain_facts_match.2.1, chain_facts_match.2.2]
  exact ⟨chain_agree_along concat hs cs (commutesAlong_of_commutes concat hs hc cs),
         chain_agree_along concat hs cs (commutesAlong_of_commutes concat hs hc cs)⟩

/-- **chain_twins_agree (along the run).** It is enough that the handlers commute with
    concatenation on the chunk lists that occur along this run of the chain (the form the oracle
    evaluates on every generated case). -/
theorem chain_twins_agree_along {V E : Type} (concat : List V → V) (hs : List (HandlerPair V E))
    (cs : List V) (hc : CommutesAlong concat hs cs) :
    (chainStream srcPreNode.streamAppliesAll hs cs).map concat =
      chainValue srcPreNode.valueAppliesAll hs (concat cs) := by
  rw [chain_facts_match.1]; exact chain_agree_along concat hs cs hc

/-- The static-value handler commutes with concatenation: on `map[string]any` chunks whose keys
    (joined target paths) differ from the static ones (what `mergeMap` requires; the static keys
    are the keys of a Go map, hence distinct), merging the one-chunk static stream into the
    stream and concatenating equals `mergeValues` on the concatenated chunks. -/
theorem static_handler_commutes (st : List (Path × Taken)) (ls : List (List (Path × Taken)))
    (l : List (Path × Taken)) (hl : concatIn (ls.map NodeIn.entries) = .entries l)
    (hd : dupKey l st = false) (hnd : st.Pairwise (fun a b => a.1 ≠ b.1)) :
    ((staticHandler st).transform (ls.map NodeIn.entries)).map concatIn =
      (staticHandler st).invoke (concatIn (ls.map NodeIn.entries)) := by
  simp only [staticHandler, all_isEntries_map, if_true, Except.map, concatIn_append_one, hl, hd,
    NodeIn.merge]
  rw [mergeEntries_fresh st l (keyFree_of_dupKey_false l st hd) hnd]
  simp

/-- **static_assembled_exact.** A node with field mappings and static values: when the mapped
    target paths and the static paths are pairwise prefix-unrelated (what compilation accepts,
    `overlap_rejected_iff` with the static paths as one more group) and every entry is assignable,
    the pre-node chain `[merge static values, convertTo]` yields a node input `v` that is the same
    for every iteration order of the merged map, reads back exactly the mapped values at the
    mapped paths and the static values at the static paths, and is zero everywhere else:
    "mapped fields ∪ static fields". -/
theorem static_assembled_exact (T : FTy) (lm ls : List (Path × Taken))
    (hno : noOverlap ((lm ++ ls).map (·.1)))
    (hok : ∀ x ∈ lm ++ ls, (assign T (newInstance T) x.1 x.2).isSome) :
    ∃ v, assembleStatic srcPreNode T ls lm = .ok (.val v) ∧
      (∀ l', l'.Perm (lm ++ ls) → convertTo T l' = some v) ∧
      (∀ x ∈ lm ++ ls, ∃ st w, slotTy T x.1 = some st ∧ store st x.2 = some w ∧ getT T v x.1 = some (st, w)) ∧
      (∀ q, (∀ x ∈ lm ++ ls, ¬ prefixRel x.1 q) → getT T v q = getT T (newInstance T) q) := by
  obtain ⟨v, hperm, hA, hB⟩ := mapped_exact T (lm ++ ls) hno hok
  refine ⟨v, ?_, hperm, hA, hB⟩
  rw [chain_facts_match.1]
  unfold assembleStatic nodeHandlers
  cases hls : ls with
  | nil =>
    subst hls
    have := hperm lm (by simp)
    simp [chainValue, converterHandler, convertIn, this, Expected.C15.chain]
  | cons s rest =>
    have hd := dupKey_false_of_noOverlap lm ls hno
    have := hperm (lm ++ ls) (List.Perm.refl _)
    rw [hls] at hd this
    simp [chainValue, staticHandler, converterHandler, convertIn, hd, this, Expected.C15.chain]

/-! ## non-vacuity -/

/-- a small universe: `struct Leaf{S string; N int}`, `struct Top{S string; L Leaf; PL *Leaf; MPL map[string]*Leaf; A any}` -/
def exLeaf : FTy := .struct "Leaf" (.cons "S" .str (.cons "N" .int .nil))
def exTop : FTy := .struct "Top"
  (.cons "S" .str (.cons "L" exLeaf (.cons "PL" (.ptr exLeaf) (.cons "MPL" (.map (.ptr exLeaf)) (.cons "A" .any .nil)))))
def exLeafV (s : String) (n : Int) : FVal := .obj (.cons "S" (.str s) (.cons "N" (.int n) .nil))
def exSrc : FVal := .obj (.cons "S" (.str "s") (.cons "L" (exLeafV "l" 1)
  (.cons "PL" (.ptr (exLeafV "pl" 2)) (.cons "MPL" .nil (.cons "A" .nil .nil)))))

/-- three non-overlapping targets below shared prefixes: accepted, every order gives this value -/
example : acceptedOverlap Expected.C15.trie [[["L", "S"], ["L", "N"]], [["MPL", "k", "S"]], [["A", "x", "y"]]] = true := by
  decide

example :
    convertTo exTop [(["L", "S"], some (.str, .str "a")), (["MPL", "k", "N"], some (.int, .int 7)),
      (["A", "x", "y"], some (.str, .str "deep")), (["PL"], some (.ptr exLeaf, .ptr (exLeafV "p" 3)))]
    = some (.obj (.cons "S" (.str "") (.cons "L" (exLeafV "a" 0) (.cons "PL" (.ptr (exLeafV "p" 3))
        (.cons "MPL" (.map (.cons "k" (.ptr (exLeafV "" 7)) .nil))
        (.cons "A" (.box (.map .any) (.map (.cons "x" (.box (.map .any) (.map (.cons "y" (.box .str (.str "deep")) .nil))) .nil)))
          .nil)))))) := by
  decide

/-- the hypotheses of `mapped_exact` are satisfiable by that set -/
example : noOverlap ([(["L", "S"], some (FTy.str, FVal.str "a")), (["MPL", "k", "N"], some (.int, .int 7)),
    (["A", "x", "y"], some (.str, .str "deep"))].map (·.1)) := by decide

/-- extraction through an interface-typed field holding a struct; a nil interface on the way is
    an error -/
example : take Expected.C15.take exTop
    (.obj (.cons "S" (.str "s") (.cons "L" (exLeafV "l" 1) (.cons "PL" .nil (.cons "MPL" .nil
      (.cons "A" (.box exLeaf (exLeafV "dyn" 9)) .nil)))))) ["A", "S"] = .ok (some (.str, .str "dyn")) := rfl
example : take Expected.C15.take exTop exSrc ["A", "S"] = .error .bad := rfl
example : take Expected.C15.take exTop
    (.obj (.cons "S" (.str "s") (.cons "L" (exLeafV "l" 1) (.cons "PL" .nil (.cons "MPL" .nil (.cons "A" .nil .nil))))))
    ["PL", "S"] = .error .bad := rfl

/-! ## embedded struct fields: promoted selectors (Model/C15Embed.lean)

  A path segment may name a field promoted from an embedded struct (`ID` for `Base.ID`; `reflect`
  `FieldByName` follows embedding).  Go: "x.f is shorthand for x.A.f".  The model elaborates every
  declared path to the explicit path it is shorthand for (`elabTy`: against the static type;
  `elabVal`: on the value, for source paths below interface values) and hands the result to the
  core model.  The clauses of the property are therefore statements about the *slots the declared
  paths denote*. -/

/-- **promoted_conservative.** Without embedded fields no selector is promoted: elaboration is
    the identity and the extended model is the core model (every theorem above is the special
    case `e = []` of its promoted form). -/
theorem promoted_conservative (allowMissing : Bool) (st : FTy) (es : List Edge)
    (decls : List (FTy × List Mapping)) :
    (∀ t p, elabTy [] t p = p) ∧
    runNodeP [] srcTake srcValidate allowMissing st es = runNode srcTake srcValidate allowMissing st es ∧
    compileOKP [] srcTrie srcValidate st decls = compileOK srcTrie srcValidate st decls := by
  refine ⟨fun t p => elabTy_nil p t, ?_, ?_⟩
  · unfold runNodeP runNodeR runNode
    have hes : es.map (elabEdge [] st) = es := by
      rw [show elabEdge [] st = id from funext (elabEdge_nil st)]; exact List.map_id es
    rw [hes, edgesMapR_src srcTake srcValidate allowMissing st (fun ed m => runPath [] srcTake ed.pt ed.v m)
      (fun ed m => elabVal_nil srcTake m.src _) es]
    cases edgesMap srcTake srcValidate allowMissing st es with
    | error err => rfl
    | ok l => cases convertTo st l <;> rfl
  · unfold compileOKP
    have hd : decls.map (fun d => (d.1, d.2.map (elabMapping [] d.1 st))) = decls := by
      have : (fun (d : FTy × List Mapping) => (d.1, d.2.map (elabMapping [] d.1 st))) = id := by
        funext d
        obtain ⟨pt, ms⟩ := d
        have hid : elabMapping [] pt st = id := by funext m; cases m; simp [elabMapping, elabTy_nil]
        simp [hid]
      rw [this]; exact List.map_id decls
    rw [hd]

/-- **overlap_rejected_iff (promoted).** Overlap is judged on the slots the target paths denote:
    whatever the declaration order, the declarations of a node with input type `st` are accepted
    iff no two *elaborated* target paths are equal or prefix-related — `ID` next to `Base`, or
    next to `Base.ID`, is an overlap although the declared paths share no segment. -/
theorem overlap_rejected_iff_promoted (e : Emb) (st : FTy) (groups : List (List Path)) :
    acceptedOverlap srcTrie (groups.map (·.map (elabTy e st))) = true ↔
      noOverlap (targets (groups.map (·.map (elabTy e st)))) :=
  overlap_rejected_iff _

/-- **mapped_exact (promoted).** For declared target paths whose elaborations are pairwise
    prefix-unrelated and assignable, every iteration order of `convertTo` yields the same
    successor input, which holds exactly the taken value at the slot each declared path denotes
    and is zero at every path unrelated to all of them. -/
theorem mapped_exact_promoted (e : Emb) (T : FTy) (l : List (Path × Taken))
    (hno : noOverlap (l.map (fun x => elabTy e T x.1)))
    (hok : ∀ x ∈ l, (assign T (newInstance T) (elabTy e T x.1) x.2).isSome) :
    ∃ v, (∀ l' : List (Path × Taken), l'.Perm l → convertTo T (l'.map (fun x => (elabTy e T x.1, x.2))) = some v) ∧
      (∀ x ∈ l, ∃ st w, slotTy T (elabTy e T x.1) = some st ∧ store st x.2 = some w ∧
        getT T v (elabTy e T x.1) = some (st, w)) ∧
      (∀ q, (∀ x ∈ l, ¬ prefixRel (elabTy e T x.1) q) → getT T v q = getT T (newInstance T) q) := by
  let g : Path × Taken → Path × Taken := fun x => (elabTy e T x.1, x.2)
  have hno' : noOverlap ((l.map g).map (·.1)) := by simpa [List.map_map, Function.comp_def, g] using hno
  have hok' : ∀ y ∈ l.map g, (assign T (newInstance T) y.1 y.2).isSome := by
    intro y hy
    obtain ⟨x, hx, rfl⟩ := List.mem_map.mp hy
    exact hok x hx
  obtain ⟨v, hperm, hA, hB⟩ := mapped_exact T (l.map g) hno' hok'
  refine ⟨v, fun l' hp => hperm _ (hp.map g), fun x hx => hA (g x) (List.mem_map_of_mem hx),
    fun q hq => hB q (fun y hy => ?_)⟩
  obtain ⟨x, hx, rfl⟩ := List.mem_map.mp hy
  exact hq x hx

/-- **runtime_check_no_panic (promoted).** If every declared mapping, elaborated against the
    static types, passed the static check, a run never panics — whatever selectors are promoted
    and wherever: a source path through a nil embedded pointer is an error like any nil pointer
    on a source path, a promoted selector below an interface value is resolved on the value, a
    target path through an embedded pointer instantiates it, and whatever passes the run-time
    checkers can be assigned; in non-streaming and streaming form alike. -/
theorem runtime_check_no_panic_promoted (e : Emb) (allowMissing : Bool) (st : FTy) (es : List Edge)
    (hval : ∀ ed ∈ es, ∀ m ∈ ed.ms, (validateOne srcValidate ed.pt st (elabMapping e ed.pt st m)).isSome) :
    runNodeP e srcTake srcValidate allowMissing st es ≠ .error .panic := by
  rw [facts_match.2.1, facts_match.2.2] at *
  unfold runNodeP
  refine runNodeR_no_panic allowMissing st _ _ ?_ (runPath_agrees e _ _)
  intro ed' hed' m' hm'
  obtain ⟨ed, hed, rfl⟩ := List.mem_map.mp hed'
  simp only [elabEdge] at hm' ⊢
  obtain ⟨m, hm, rfl⟩ := List.mem_map.mp hm'
  exact hval ed hed m hm

/-! ### promoted selectors: non-vacuity and the negations for the code as found -/

/-- `Base{ID; N}`, `SrcV{Base; Name}` (embedded by value), `SrcP{*Base; Name}` (by pointer),
    `Outer{*SrcP; X}` (two levels, both by pointer) -/
def exBase : FTy := .struct "Base" (.cons "ID" .str (.cons "N" .int .nil))
def exSrcV : FTy := .struct "SrcV" (.cons "Base" exBase (.cons "Name" .str .nil))
def exSrcP : FTy := .struct "SrcP" (.cons "Base" (.ptr exBase) (.cons "Name" .str .nil))
def exOuter : FTy := .struct "Outer" (.cons "SrcP" (.ptr exSrcP) (.cons "X" .str .nil))
def exEmb : Emb := [("SrcV", "Base"), ("SrcP", "Base"), ("Outer", "SrcP")]

/-- selectors at one and two levels of embedding; a declared field and an explicit path are
    their own elaboration; an unknown name is kept -/
example : elabTy exEmb exSrcV ["ID"] = ["Base", "ID"] ∧ elabTy exEmb exOuter ["N"] = ["SrcP", "Base", "N"] ∧
    elabTy exEmb exOuter ["SrcP", "Base", "N"] = ["SrcP", "Base", "N"] ∧ elabTy exEmb exOuter ["Name"] = ["SrcP", "Name"] ∧
    elabTy exEmb exSrcV ["Name"] = ["Name"] ∧ elabTy exEmb exSrcV ["Nope", "x"] = ["Nope", "x"] := by decide

/-- a promoted source field yields the field's value (not the embedded struct), by value and
    through a non-nil embedded pointer; through a nil embedded pointer it is an error -/
example :
    take Expected.C15.take exSrcV (.obj (.cons "Base" (.obj (.cons "ID" (.str "id-1") (.cons "N" (.int 7) .nil))) (.cons "Name" (.str "nm") .nil)))
      (elabTy exEmb exSrcV ["ID"]) = .ok (some (.str, .str "id-1")) ∧
    take Expected.C15.take exSrcP (.obj (.cons "Base" (.ptr (.obj (.cons "ID" (.str "id-1") (.cons "N" (.int 7) .nil)))) (.cons "Name" (.str "nm") .nil)))
      (elabTy exEmb exSrcP ["N"]) = .ok (some (.int, .int 7)) ∧
    take Expected.C15.take exSrcP (.obj (.cons "Base" .nil (.cons "Name" (.str "nm") .nil)))
      (elabTy exEmb exSrcP ["N"]) = .error .bad := by decide

/-- a promoted selector below an interface value is resolved on the value -/
example :
    runPath exEmb Expected.C15.take exTop
      (.obj (.cons "S" (.str "s") (.cons "L" (exLeafV "l" 1) (.cons "PL" .nil (.cons "MPL" .nil
        (.cons "A" (.box exSrcV (.obj (.cons "Base" (.obj (.cons "ID" (.str "dyn") (.cons "N" (.int 1) .nil))) (.cons "Name" (.str "") .nil)))) .nil))))))
      ⟨["A", "ID"], ["S"]⟩ = ["A", "Base", "ID"] := by decide

/-- a target through two embedded pointers: both are instantiated, the run succeeds -/
example :
    runNodeP exEmb Expected.C15.take Expected.C15.validate false exOuter
      [{ pt := exLeaf, v := exLeafV "v" 3, ms := [⟨["S"], ["ID"]⟩] }] =
    .ok (.obj (.cons "SrcP" (.ptr (.obj (.cons "Base" (.ptr (.obj (.cons "ID" (.str "v") (.cons "N" (.int 0) .nil)))) (.cons "Name" (.str "") .nil))))
      (.cons "X" (.str "") .nil))) := by decide

/-- The overlap check on the paths as declared (the code as found) accepts a promoted selector
    next to the embedded struct that holds the field, and next to the explicit path of the same
    field; on the slots denoted both are conflicts; and the result of such a set depends on the
    iteration order of `convertTo`. -/
theorem promoted_alias_accepted_as_declared :
    acceptedOverlap Expected.C15.trie [[["ID"]], [["Base"]]] = true ∧
    acceptedOverlap Expected.C15.trie [[["ID"]], [["Base", "ID"]]] = true ∧
    acceptedOverlap Expected.C15.trie ([[["ID"]], [["Base"]]].map (·.map (elabTy exEmb exSrcV))) = false ∧
    acceptedOverlap Expected.C15.trie ([[["ID"]], [["Base", "ID"]]].map (·.map (elabTy exEmb exSrcV))) = false ∧
    convertTo exSrcV [(elabTy exEmb exSrcV ["ID"], some (.str, .str "a")),
        (elabTy exEmb exSrcV ["Base"], some (exBase, .obj (.cons "ID" (.str "whole") (.cons "N" (.int 5) .nil))))] ≠
      convertTo exSrcV [(elabTy exEmb exSrcV ["Base"], some (exBase, .obj (.cons "ID" (.str "whole") (.cons "N" (.int 5) .nil)))),
        (elabTy exEmb exSrcV ["ID"], some (.str, .str "a"))] := by decide

/-- A path through a pointer to a map cannot be walked at run time (`takeOne` and `assignOne`
    follow pointers only to structs): the static check rejects it for every element type and every
    continuation, on the source and on the target side, so no accepted mapping set contains one. -/
theorem path_through_pointer_to_map_rejected (el pt st : FTy) (s : Seg) (r src dst : Path) :
    extractTy true (.ptr (.map el)) (s :: r) = none ∧
    extractTy true (.ptr (.ptr (.map el))) (s :: r) = none ∧
    validateOne srcValidate (.ptr (.map el)) st ⟨s :: r, dst⟩ = none ∧
    validateOne srcValidate pt (.ptr (.map el)) ⟨src, s :: r⟩ = none := by
  rw [facts_match.2.2]
  have h1 : extractTy true (.ptr (.map el)) (s :: r) = none := by
    simp only [extractTy, structOf, isIface]; by_cases hr : r.isEmpty = true <;> simp [hr]
  have h2 : extractTy true (.ptr (.ptr (.map el))) (s :: r) = none := by
    simp only [extractTy, structOf, isIface]; by_cases hr : r.isEmpty = true <;> simp [hr]
  refine ⟨h1, h2, ?_, ?_⟩
  · simp [validateOne, extractTyF_expected, h1]
  · simp only [validateOne, extractTyF_expected, h1]
    cases extractTy true pt src <;> rfl

/-- … and what a run does when the static check lets such a path through (pointers dereferenced
    before the map test): the assignment fails ("convertTo failed when must succeed", a panic),
    the extraction is an error although the value is there. -/
theorem path_through_pointer_to_map_cannot_run :
    assign (.struct "D" (.cons "M" (.ptr (.map .str)) .nil)) (newInstance (.struct "D" (.cons "M" (.ptr (.map .str)) .nil)))
      ["M", "k"] (some (.str, .str "v")) = none ∧
    take Expected.C15.take (.struct "D" (.cons "M" (.ptr (.map .str)) .nil))
      (.obj (.cons "M" (.ptr (.map (.cons "k" (.str "v") .nil))) .nil)) ["M", "k"] = .error .bad := by decide

/-! ## the defects found on the unfixed tree: negations for the fact values found there -/

/-- The overlap check as found is declaration-order dependent: `A.B` then `A` is accepted,
    `A` then `A.B` is rejected (replayed on the real code by the harness' fixed cases). -/
theorem overlap_order_dependent_as_found :
    acceptedOverlap Expected.C15.trieAsFound [[["A", "B"]], [["A"]]] = true ∧
    acceptedOverlap Expected.C15.trieAsFound [[["A"]], [["A", "B"]]] = false := by decide

/-- ... and below the first level it does not detect prefix conflicts in either order, nor a
    whole-input dependency declared after field mappings. -/
theorem deep_overlap_accepted_as_found :
    acceptedOverlap Expected.C15.trieAsFound [[["A", "B"]], [["A", "B", "C"]]] = true ∧
    acceptedOverlap Expected.C15.trieAsFound [[["A", "B", "C"]], [["A", "B"]]] = true ∧
    acceptedOverlap Expected.C15.trieAsFound [[["A"]], []] = true := by decide

/-- An accepted overlapping pair makes the result depend on the iteration order of `convertTo`
    (Go map iteration): the run is nondeterministic. -/
theorem overlap_result_order_dependent :
    convertTo exTop [(["L", "S"], some (.str, .str "a")), (["L"], some (exLeaf, exLeafV "whole" 5))] ≠
    convertTo exTop [(["L"], some (exLeaf, exLeafV "whole" 5)), (["L", "S"], some (.str, .str "a"))] := by
  decide

/-- An accepted overlapping pair writes through the stored (shared) value: what the first entry
    stored at `MPL.k` is changed by the second one. -/
theorem overlap_writes_through_stored_value :
    ∃ d d', assign exTop (newInstance exTop) ["MPL", "k"] (some (.ptr exLeaf, .ptr (exLeafV "pl" 2))) = some d ∧
      assign exTop d ["MPL", "k", "S"] (some (.str, .str "a")) = some d' ∧
      getT exTop d' ["MPL", "k"] ≠ getT exTop d ["MPL", "k"] := by
  refine ⟨_, _, rfl, rfl, by decide⟩

/-- Extraction as found panics on a nil interface and on a nil pointer on the source path, and on
    an interface value whose struct lacks the field. -/
theorem take_panics_as_found :
    take Expected.C15.takeAsFound exTop exSrc ["A", "S"] = .error .panic ∧
    take Expected.C15.takeAsFound exTop
      (.obj (.cons "S" (.str "s") (.cons "L" (exLeafV "l" 1) (.cons "PL" .nil (.cons "MPL" .nil (.cons "A" .nil .nil))))))
      ["PL", "S"] = .error .panic ∧
    take Expected.C15.takeAsFound exTop
      (.obj (.cons "S" (.str "s") (.cons "L" (exLeafV "l" 1) (.cons "PL" .nil (.cons "MPL" .nil
        (.cons "A" (.box exLeaf (exLeafV "dyn" 9)) .nil)))))) ["A", "Nope"] = .error .panic := ⟨rfl, rfl, rfl⟩

/-- The static checker as found accepts a trailing segment on a basic type (`S.x` on a string);
    the assignment then cannot succeed ("convertTo failed when must succeed"). -/
theorem trailing_segment_accepted_as_found :
    (validateOne Expected.C15.validateAsFound exTop exTop ⟨["S"], ["S", "x"]⟩).isSome = true ∧
    (validateOne Expected.C15.validate exTop exTop ⟨["S"], ["S", "x"]⟩).isSome = false ∧
    assign exTop (newInstance exTop) ["S", "x"] (some (.str, .str "a")) = none := by decide

/-- The run-time checkers as found all test against the field type of the *last* mapping of the
    edge: a mismatching value passes the checker (and `convertTo` then panics). -/
theorem checker_uses_last_mapping_as_found :
    let ms : List Mapping := [⟨["A"], ["S"]⟩, ⟨["A"], ["A"]⟩]
    checkE Expected.C15.validateAsFound exTop exTop ms [(⟨["A"], ["S"]⟩, some (.int, .int 3))] = true ∧
    checkE Expected.C15.validate exTop exTop ms [(⟨["A"], ["S"]⟩, some (.int, .int 3))] = false := by decide

/-! ## an untyped nil found at the end of a source path that crosses an interface

  `a.b.c` out of `map[string]any`, `A.k.S` out of a struct with an `any` field: the static check
  cannot know the type of the value found (`predecessorIntermediateInterface`), a run-time checker
  is installed.  What the property demands of it: a typed value is assignable or an error; an
  untyped nil is a value where nil is a value (pointer, map, slice, interface targets: the successor
  sees nil there) and an error elsewhere (string, int, struct, … and func / chan, which the
  converter does not take either) — what the sibling checker for `assignableTypeMay` does. -/

/-- Source fact tie: the three (four) lists of kinds for which the code accepts an untyped nil —
    run-time checkers, `checkAndExtractToField`, `checkAndExtractToMapKey` — are all
    `{Map, Slice, Ptr, Interface}`, the model's `nilable`: what a checker admits the converter can
    assign. -/
theorem nil_kinds_match : FactsC15.nilKindsAreMapSlicePtrInterface = true := by decide

/-- the model's `nilable` is that list -/
theorem nilable_iff (t : FTy) :
    nilable t = true ↔ t = .any ∨ (∃ e, t = .ptr e) ∨ (∃ e, t = .map e) ∨ (∃ n, t = .opq .slice n) ∨
      (∃ n is, t = .iface n is) := by
  cases t with
  | opq k n => cases k <;> simp [nilable]
  | _ => simp [nilable]

/-- **nil_behind_interface.** One mapping whose source path crosses an interface before its last
    segment (`validateOne` installs the interface-path checker against the successor field type
    `sf`), a predecessor output on which the path ends at an untyped nil: if `sf` has no nil the
    run is an ordinary error; if it has, the run succeeds and the successor reads nil at the
    target path — in non-streaming and streaming form.  Never a panic. -/
theorem nil_behind_interface (allowMissing : Bool) (st pt : FTy) (v : FVal) (m : Mapping) (sf : FTy)
    (hv : validateOne srcValidate pt st m = some (some (sf, true)))
    (ht : take srcTake pt v m.src = .ok none) :
    (nilable sf = false →
      runNode srcTake srcValidate allowMissing st [{ pt := pt, v := v, ms := [m] }] = .error .request) ∧
    (nilable sf = true → ∃ w,
      runNode srcTake srcValidate allowMissing st [{ pt := pt, v := v, ms := [m] }] = .ok w ∧
      getT st w m.dst = some (sf, .nil)) := by
  rw [facts_match.2.1] at ht ⊢
  rw [facts_match.2.2] at hv ⊢
  have hck : checkerOf Expected.C15.validate pt st [m] m = some (sf, true) := by
    simp only [checkerOf, hv, Option.getD_some]
    simp [Expected.C15.validate]
  have hfm : fieldMapE Expected.C15.take allowMissing pt v [m] = .ok [(m, none)] := by
    simp [fieldMapE, ht]
  have hpan := checkPanicE_expected pt st [m] [(m, none)]
  constructor
  · intro hn
    simp [runNode, edgesMap, hfm, hpan, checkE, hck, runtimeCheck, hn]
  · intro hn
    have hsome := assign_of_validated Expected.C15.take pt st v m (some (sf, true)) none hv ht
      (by simp [runtimeCheck, hn]) (newInstance st)
    cases ha : assign st (newInstance st) m.dst none with
    | none => simp [ha] at hsome
    | some w =>
      refine ⟨w, ?_, ?_⟩
      · simp [runNode, edgesMap, hfm, hpan, checkE, hck, runtimeCheck, hn, convertTo, convertFrom, ha]
      · obtain ⟨st', w', h1, h2, h3⟩ := assign_getT_same m.dst st (newInstance st) w none ha
        have hslot : slotTy st m.dst = some sf := by
          simp only [validateOne, extractTyF_expected] at hv
          cases hp : extractTy true pt m.src with
          | none => simp [hp] at hv
          | some pfi =>
            cases hs : extractTy true st m.dst with
            | none => simp [hp, hs] at hv
            | some sfi =>
              obtain ⟨sf', sI⟩ := sfi
              obtain ⟨pf, pI⟩ := pfi
              simp only [hp, hs] at hv
              by_cases hsI : sI = true
              · simp only [hsI, if_true] at hv
                by_cases hsf : sf' = .any <;> simp [hsf] at hv
              · have := extractTy_slotTy _ _ _ _ hs (fun h => absurd h hsI)
                simp only [hsI, if_false, Bool.false_eq_true] at hv
                by_cases hpI : pI = true
                · simp only [hpI, if_true, Option.some.injEq, Prod.mk.injEq, and_true] at hv
                  rw [← hv]; exact this
                · simp only [hpI, if_false, Bool.false_eq_true] at hv
                  split at hv <;> simp at hv
        rw [hslot] at h1
        cases h1
        simp only [store, hn, if_true, Option.some.injEq] at h2
        subst h2
        exact h3

/-- `map[string]any`, three levels, an untyped nil at `a.b.c` -/
def exTree (leaf : FVal) : FVal :=
  .map (.cons "a" (.box (.map .any) (.map (.cons "b" (.box (.map .any) (.map (.cons "c" leaf .nil))) .nil))) .nil)

/-- the hypotheses of `nil_behind_interface` are satisfiable (target `Top.S`, a string, and
    `Top.PL`, a pointer), and these are the two outcomes; a typed value arrives, an ill-typed one,
    a missing key, a nil or a non-container on the way are errors -/
example :
    validateOne Expected.C15.validate (.map .any) exTop ⟨["a", "b", "c"], ["S"]⟩ = some (some (.str, true)) ∧
    take Expected.C15.take (.map .any) (exTree .nil) ["a", "b", "c"] = .ok none ∧
    runNode Expected.C15.take Expected.C15.validate false exTop
      [{ pt := .map .any, v := exTree .nil, ms := [⟨["a", "b", "c"], ["S"]⟩] }] = .error .request ∧
    runNode Expected.C15.take Expected.C15.validate false exTop
      [{ pt := .map .any, v := exTree .nil, ms := [⟨["a", "b", "c"], ["PL"]⟩] }] = .ok (newInstance exTop) ∧
    runNode Expected.C15.take Expected.C15.validate false exTop
      [{ pt := .map .any, v := exTree (.box .str (.str "x")), ms := [⟨["a", "b", "c"], ["S"]⟩] }] =
      .ok (.obj (.cons "S" (.str "x") (.cons "L" (exLeafV "" 0) (.cons "PL" .nil (.cons "MPL" .nil (.cons "A" .nil .nil)))))) ∧
    runNode Expected.C15.take Expected.C15.validate false exTop
      [{ pt := .map .any, v := exTree (.box .int (.int 7)), ms := [⟨["a", "b", "c"], ["S"]⟩] }] = .error .request ∧
    runNode Expected.C15.take Expected.C15.validate false exTop
      [{ pt := .map .any, v := exTree .nil, ms := [⟨["a", "b", "zz"], ["S"]⟩] }] = .error .request ∧
    runNode Expected.C15.take Expected.C15.validate false exTop
      [{ pt := .map .any, v := exTree .nil, ms := [⟨["a", "b", "c", "d"], ["S"]⟩] }] = .error .request ∧
    runNode Expected.C15.take Expected.C15.validate false exTop
      [{ pt := .map .any, v := exTree (.box .str (.str "x")), ms := [⟨["a", "b", "c", "d"], ["S"]⟩] }] = .error .request := by
  decide

/-- The interface-path checker as found (no nil guard: `reflect.TypeOf(a).AssignableTo(…)` on the
    nil `reflect.Type`) panics out of the run on that value, for a target without a nil and for one
    with a nil alike; with the guard the first is an error and the second succeeds (replayed on the
    real code by the harness' fixed cases). -/
theorem iface_checker_panics_on_nil_as_found :
    runNode Expected.C15.take Expected.C15.validateNoNilGuard false exTop
      [{ pt := .map .any, v := exTree .nil, ms := [⟨["a", "b", "c"], ["S"]⟩] }] = .error .panic ∧
    runNode Expected.C15.take Expected.C15.validateNoNilGuard true exTop
      [{ pt := .map .any, v := exTree .nil, ms := [⟨["a", "b", "c"], ["PL"]⟩] }] = .error .panic ∧
    runNode Expected.C15.take Expected.C15.validate false exTop
      [{ pt := .map .any, v := exTree .nil, ms := [⟨["a", "b", "c"], ["S"]⟩] }] = .error .request ∧
    runNode Expected.C15.take Expected.C15.validate true exTop
      [{ pt := .map .any, v := exTree .nil, ms := [⟨["a", "b", "c"], ["PL"]⟩] }] = .ok (newInstance exTop) := by
  decide

/-! ## static values: non-vacuity and the negation for a stream twin that returns early -/

/-- `Req{Query; Cfg{Mode; Level}; Meta map[string]any}`: `Query` and `Cfg.Level` mapped,
    `Cfg.Mode` and `Meta.a.b` static (the latter creates the intermediate map) -/
def exCfg : FTy := .struct "Cfg" (.cons "Mode" .str (.cons "Level" .int .nil))
def exReq : FTy := .struct "Req" (.cons "Query" .str (.cons "Cfg" exCfg (.cons "Meta" (.map .any) .nil)))
def exMapped : List (Path × Taken) := [(["Query"], some (.str, .str "hello")), (["Cfg", "Level"], some (.int, .int 3))]
def exStatic : List (Path × Taken) := [(["Cfg", "Mode"], some (.str, .str "fast")), (["Meta", "a", "b"], some (.int, .int 7))]
def exAssembled : FVal :=
  .obj (.cons "Query" (.str "hello") (.cons "Cfg" (.obj (.cons "Mode" (.str "fast") (.cons "Level" (.int 3) .nil)))
    (.cons "Meta" (.map (.cons "a" (.box (.map .any) (.map (.cons "b" (.box .int (.int 7)) .nil))) .nil)) .nil)))

/-- the hypotheses of `static_assembled_exact` are satisfiable, and this is the value -/
example : noOverlap ((exMapped ++ exStatic).map (·.1)) := by decide
example : ∀ x ∈ exMapped ++ exStatic, (assign exReq (newInstance exReq) x.1 x.2).isSome := by decide
example : assembleStatic Expected.C15.chain exReq exStatic exMapped = .ok (.val exAssembled) := by decide

/-- streaming execution of the same node (the mapped entries arrive in two chunks, the static
    values in a third): the chunks concatenate to the non-streaming input -/
example :
    (assembleStaticStream Expected.C15.chain exReq exStatic
      [.entries [(["Query"], some (.str, .str "hello"))], .entries [(["Cfg", "Level"], some (.int, .int 3))]]).map concatIn
      = .ok (.val exAssembled) := by decide

/-- a string arriving in two pieces (`Query` = "hel" then "lo", in different input chunks): the
    chunks of the node input concatenate to the non-streaming input -/
example :
    (assembleStaticStream Expected.C15.chain exReq exStatic
      [.entries [(["Query"], some (.str, .str "hel"))], .entries [(["Cfg", "Level"], some (.int, .int 3))],
       .entries [(["Query"], some (.str, .str "lo"))]]).map concatIn
      = .ok (.val exAssembled) := by decide

/-- the hypotheses of `static_handler_commutes` are satisfiable (two incoming chunks) -/
example : concatIn ([[exMapped.head!], exMapped.tail].map NodeIn.entries) = .entries exMapped ∧
    dupKey exMapped exStatic = false ∧ exStatic.Pairwise (fun a b => a.1 ≠ b.1) := by decide

/-- every handler of the chain of this node commutes with concatenation along the run on these
    chunks (the hypothesis of `chain_twins_agree_along`) -/
example : CommutesAlong concatIn (nodeHandlers exReq exStatic)
    [.entries [(["Query"], some (.str, .str "hel"))], .entries [(["Cfg", "Level"], some (.int, .int 3))],
     .entries [(["Query"], some (.str, .str "lo"))]] := by
  refine ⟨by decide, fun cs' h => ?_⟩
  have : cs' = [.entries [(["Query"], some (.str, .str "hel"))], .entries [(["Cfg", "Level"], some (.int, .int 3))],
     .entries [(["Query"], some (.str, .str "lo"))], .entries exStatic] := by
    simp [staticHandler, NodeIn.isEntries] at h; exact h.symm
  subst this
  exact ⟨by decide, fun _ _ => trivial⟩

/-- If the stream twin left the loop after the first handler (`return v.transform(…)`), the node
    would be handed the un-converted `map[string]any` chunks in streaming execution while
    non-streaming execution still hands it the typed input: the twins disagree. -/
theorem chain_twins_disagree_if_stream_returns_early :
    (assembleStaticStream Expected.C15.chainStreamReturnsEarly exReq exStatic [.entries exMapped]).map concatIn
      = .ok (.entries (exMapped ++ exStatic)) ∧
    assembleStatic Expected.C15.chainStreamReturnsEarly exReq exStatic exMapped = .ok (.val exAssembled) := by
  decide

/-! ## non-empty interfaces and pointers to pointers on source and target paths

  `R fmt.Stringer`, `PP **Inner`.  What the property demands: what lies below a non-empty interface
  is known only at request time — a SOURCE path may go on below it (the run-time checker against
  the target slot decides: the value arrives or the run is an error, never a panic), a TARGET path
  may not (nothing can be instantiated there, unlike the `any` hole that is expanded to a
  `map[string]any`): compilation rejects it.  Extraction and assignment follow one pointer level;
  no path, source or target, goes through a pointer to a pointer: compilation rejects it. -/

/-- **path_through_nested_pointer_rejected.** A path that reaches a slot of a pointer-to-pointer type
    (whatever it points to, at any depth, without crossing an interface before) and goes on below
    it is rejected by the static check, as a source path and as a target path: no accepted mapping
    set contains one. -/
theorem path_through_nested_pointer_rejected (pt st t u : FTy) (p : Path) (s : Seg) (r other : Path)
    (hp : extractTy true t p = some (.ptr (.ptr u), false)) :
    extractTy true t (p ++ s :: r) = none ∧
    validateOne srcValidate t st ⟨p ++ s :: r, other⟩ = none ∧
    validateOne srcValidate pt t ⟨other, p ++ s :: r⟩ = none := by
  rw [facts_match.2.2]
  have h1 : extractTy true t (p ++ s :: r) = none := by
    rw [extractTy_append p t _ (s :: r) hp (by simp)]
    simp only [extractTy, structOf, isIface]; by_cases hr : r.isEmpty = true <;> simp [hr]
  refine ⟨h1, ?_, ?_⟩
  · simp [validateOne, extractTyF_expected, h1]
  · simp only [validateOne, extractTyF_expected, h1]
    cases extractTy true pt other <;> rfl

/-- **target_below_interface_rejected.** A target path that goes on below a slot of a non-empty
    interface type is rejected at compile time, whatever the source. -/
theorem target_below_interface_rejected (pt st : FTy) (n : String) (is : List String) (p : Path) (s : Seg)
    (r src : Path) (hp : extractTy true st p = some (.iface n is, false)) :
    validateOne srcValidate pt st ⟨src, p ++ s :: r⟩ = none := by
  rw [facts_match.2.2]
  have h1 : extractTy true st (p ++ s :: r) = some (.iface n is, true) := by
    rw [extractTy_append p st _ (s :: r) hp (by simp)]
    simp only [extractTy, structOf, isIface]; by_cases hr : r.isEmpty = true <;> simp [hr]
  simp only [validateOne, extractTyF_expected, h1]
  cases extractTy true pt src with
  | none => rfl
  | some x => simp

/-- **source_below_interface_checked.** A source path that goes on below a slot of a non-empty
    interface type (one segment or more) is accepted for every target slot the static check can
    type, and gets the run-time checker against that slot's type: by `runtime_check_no_panic` the
    run then delivers the value found or is an ordinary error. -/
theorem source_below_interface_checked (pt st : FTy) (n : String) (is : List String) (p : Path) (s : Seg)
    (r dst : Path) (sf : FTy) (hp : extractTy true pt p = some (.iface n is, false))
    (hd : extractTy true st dst = some (sf, false)) :
    validateOne srcValidate pt st ⟨p ++ s :: r, dst⟩ = some (some (sf, true)) := by
  rw [facts_match.2.2]
  have h1 : extractTy true pt (p ++ s :: r) = some (.iface n is, true) := by
    rw [extractTy_append p pt _ (s :: r) hp (by simp)]
    simp only [extractTy, structOf, isIface]; by_cases hr : r.isEmpty = true <;> simp [hr]
  simp [validateOne, extractTyF_expected, h1, hd]

/-- `struct Impl{X string; N int}` (`*Impl` implements `Namer`), `struct Deep{S string; R Namer; PP **Leaf; A any}` -/
def exImpl : FTy := .struct "Impl" (.cons "X" .str (.cons "N" .int .nil))
def exNamer : FTy := .iface "Namer" ["*Impl"]
def exDeep : FTy := .struct "Deep"
  (.cons "S" .str (.cons "R" exNamer (.cons "PP" (.ptr (.ptr exLeaf)) (.cons "A" .any .nil))))
/-- `Deep{S: "s", R: &Impl{X: "rx", N: 3}, PP: &&Leaf{"pl", 2}}` -/
def exDeepV : FVal := .obj (.cons "S" (.str "s")
  (.cons "R" (.box (.ptr exImpl) (.ptr (.obj (.cons "X" (.str "rx") (.cons "N" (.int 3) .nil)))))
  (.cons "PP" (.ptr (.ptr (exLeafV "pl" 2))) (.cons "A" .nil .nil))))

/-- the hypotheses of the three theorems are satisfiable, and this is what a run does: `R.X` out
    of `&Impl{X: "rx"}` arrives in a string slot and in an `any` slot, is an error for the
    `Namer`-typed slot (a string does not implement it) and for an int slot; `R.N.y` and a nil `R`
    are errors; the whole `R` moves to `R` and to `A`; `*Impl` as the whole input moves to `R` -/
example :
    extractTy true exDeep ["R"] = some (exNamer, false) ∧
    extractTy true exDeep ["PP"] = some (.ptr (.ptr exLeaf), false) ∧
    validateOne Expected.C15.validate exDeep exDeep ⟨["R", "X"], ["S"]⟩ = some (some (.str, true)) ∧
    runNode Expected.C15.take Expected.C15.validate false exDeep [{ pt := exDeep, v := exDeepV, ms := [⟨["R", "X"], ["S"]⟩] }]
      = .ok (.obj (.cons "S" (.str "rx") (.cons "R" .nil (.cons "PP" .nil (.cons "A" .nil .nil))))) ∧
    runNode Expected.C15.take Expected.C15.validate true exDeep [{ pt := exDeep, v := exDeepV, ms := [⟨["R", "X"], ["A"]⟩] }]
      = .ok (.obj (.cons "S" (.str "") (.cons "R" .nil (.cons "PP" .nil (.cons "A" (.box .str (.str "rx")) .nil))))) ∧
    runNode Expected.C15.take Expected.C15.validate false exDeep [{ pt := exDeep, v := exDeepV, ms := [⟨["R", "X"], ["R"]⟩] }]
      = .error .request ∧
    runNode Expected.C15.take Expected.C15.validate false exLeaf [{ pt := exDeep, v := exDeepV, ms := [⟨["R", "X"], ["N"]⟩] }]
      = .error .request ∧
    runNode Expected.C15.take Expected.C15.validate false exDeep [{ pt := exDeep, v := exDeepV, ms := [⟨["R", "N", "y"], ["S"]⟩] }]
      = .error .request ∧
    runNode Expected.C15.take Expected.C15.validate false exDeep [{ pt := exDeep, v := newInstance exDeep, ms := [⟨["R", "X"], ["S"]⟩] }]
      = .error .request ∧
    validateOne Expected.C15.validate exDeep exDeep ⟨["R"], ["R"]⟩ = some none ∧
    runNode Expected.C15.take Expected.C15.validate false exDeep [{ pt := exDeep, v := exDeepV, ms := [⟨["R"], ["R"]⟩, ⟨["R"], ["A"]⟩] }]
      = .ok (.obj (.cons "S" (.str "") (.cons "R" (.box (.ptr exImpl) (.ptr (.obj (.cons "X" (.str "rx") (.cons "N" (.int 3) .nil)))))
          (.cons "PP" .nil (.cons "A" (.box (.ptr exImpl) (.ptr (.obj (.cons "X" (.str "rx") (.cons "N" (.int 3) .nil))))) .nil))))) ∧
    validateOne Expected.C15.validate (.ptr exImpl) exDeep ⟨[], ["R"]⟩ = some none ∧
    validateOne Expected.C15.validate exImpl exDeep ⟨[], ["R"]⟩ = none ∧
    validateOne Expected.C15.validate exDeep exDeep ⟨["R"], ["R", "x"]⟩ = none ∧
    validateOne Expected.C15.validate exDeep exDeep ⟨["S"], ["PP", "S"]⟩ = none ∧
    validateOne Expected.C15.validate exDeep exDeep ⟨["PP", "S"], ["S"]⟩ = none ∧
    validateOne Expected.C15.validate exDeep exDeep ⟨["PP"], ["PP"]⟩ = some none := by
  decide

/-- The static check as found took a LAST segment below a non-empty interface for a slot of the
    interface's own type: (target) `R → R.x` is accepted and the assignment cannot succeed
    ("convertTo failed when must succeed … output is not a struct", a panic out of Invoke and
    Stream); (source) `R.X → R` is accepted without a run-time checker and the string found panics
    in `convertTo`, `R.X → S` is refused although the value found is a string.  With the segment
    reported as an intermediate interface the first is rejected at compile time, the second is an
    ordinary error, the third delivers the value (replayed on the real code by the fixed cases of
    the family `deep`). -/
theorem iface_last_segment_as_found :
    (validateOne Expected.C15.validateIfaceLastLoose exDeep exDeep ⟨["R"], ["R", "x"]⟩).isSome = true ∧
    assign exDeep (newInstance exDeep) ["R", "x"] (some (.ptr exImpl, .ptr (.obj .nil))) = none ∧
    runNode Expected.C15.take Expected.C15.validateIfaceLastLoose false exDeep
      [{ pt := exDeep, v := exDeepV, ms := [⟨["R"], ["R", "x"]⟩] }] = .error .panic ∧
    (validateOne Expected.C15.validate exDeep exDeep ⟨["R"], ["R", "x"]⟩).isSome = false ∧
    validateOne Expected.C15.validateIfaceLastLoose exDeep exDeep ⟨["R", "X"], ["R"]⟩ = some none ∧
    runNode Expected.C15.take Expected.C15.validateIfaceLastLoose false exDeep
      [{ pt := exDeep, v := exDeepV, ms := [⟨["R", "X"], ["R"]⟩] }] = .error .panic ∧
    runNode Expected.C15.take Expected.C15.validate false exDeep
      [{ pt := exDeep, v := exDeepV, ms := [⟨["R", "X"], ["R"]⟩] }] = .error .request ∧
    validateOne Expected.C15.validateIfaceLastLoose exDeep exDeep ⟨["R", "X"], ["S"]⟩ = none ∧
    validateOne Expected.C15.validate exDeep exDeep ⟨["R", "X"], ["S"]⟩ = some (some (.str, true)) := by
  decide

/-- The static check as found removed every pointer level in front of a struct: `S → PP.S`
    (target through `**Leaf`) is accepted and the assignment cannot succeed ("… it's a nested
    pointer", a panic out of Invoke and Stream); `PP.S → S` (source) is accepted and every run is an
    error although the value is there.  With one level followed both are rejected at compile time. -/
theorem nested_pointer_accepted_as_found :
    (validateOne Expected.C15.validateDerefsAll exDeep exDeep ⟨["S"], ["PP", "S"]⟩).isSome = true ∧
    assign exDeep (newInstance exDeep) ["PP", "S"] (some (.str, .str "a")) = none ∧
    runNode Expected.C15.take Expected.C15.validateDerefsAll false exDeep
      [{ pt := exDeep, v := exDeepV, ms := [⟨["S"], ["PP", "S"]⟩] }] = .error .panic ∧
    (validateOne Expected.C15.validateDerefsAll exDeep exDeep ⟨["PP", "S"], ["S"]⟩).isSome = true ∧
    take Expected.C15.take exDeep exDeepV ["PP", "S"] = .error .bad ∧
    (validateOne Expected.C15.validate exDeep exDeep ⟨["S"], ["PP", "S"]⟩).isSome = false ∧
    (validateOne Expected.C15.validate exDeep exDeep ⟨["PP", "S"], ["S"]⟩).isSome = false := by
  decide

end EinoV.C15
