/-
  C20 — Ill-formed graphs are rejected deterministically; compiled graphs are immutable.
  Property theorems.  Model: EinoV/Model/C20Builder.lean (shared with C07).
  Source facts: EinoV/Gen/FactsC20.lean (regenerated from /repo on every run).
-/
import EinoV.Model.C20Builder
import EinoV.Proofs.C20
import EinoV.Proofs.C20Ends
import EinoV.Proofs.C20Kahn
import EinoV.Model.C20Wf
import EinoV.Proofs.C20Wf
import EinoV.Model.C20Nest
import EinoV.Proofs.C20Nest
import EinoV.Model.C20Keys
import EinoV.Proofs.C20Keys
import EinoV.Proofs.C20KeysTie
import EinoV.Proofs.C20Static
import EinoV.Proofs.C20Dup
import EinoV.Expected.C20Static
import EinoV.Gen.FactsC20
import EinoV.Expected.C20
import EinoV.Gen.TransC20
import EinoV.Proofs.TransKahn

namespace EinoV.C20
open EinoV.Gen EinoV.Build

/-- the model configuration read off the source: guards of the three Add* functions and
    whether `compile` assigns any builder field besides the `compiled` flag.  (The two
    addBranch facts belong to C07 and are taken at their expected value here.) -/
def srcFacts : Facts :=
  { nodeG := ⟨FactsC20.nodeCheckErrFirst, FactsC20.nodeCheckCompiledSecond, FactsC20.nodeDeferStoresErr⟩,
    edgeG := ⟨FactsC20.edgeCheckErrFirst, FactsC20.edgeCheckCompiledSecond, FactsC20.edgeDeferStoresErr⟩,
    branchG := ⟨FactsC20.branchCheckErrFirst, FactsC20.branchCheckCompiledSecond, FactsC20.branchDeferStoresErr⟩,
    branchGuarded := Expected.C20.facts.branchGuarded,
    branchPropagates := Expected.C20.facts.branchPropagates,
    compileMutates := FactsC20.compileAssigns != Expected.C20.compileAssigns,
    compileChecksTypes := FactsC20.compileChecksNodeTypes }

/-- Source fact tie: the regenerated facts are the ones the theorems below are proved for
    and the oracle runs with; the only error returned before the `defer` is installed is the
    noControl∧noData refusal of addEdgeWithMappings; compile returns the stored error first. -/
theorem facts_match :
    srcFacts = Expected.C20.facts ∧
    FactsC20.nodeUnstoredReturns = 0 ∧ FactsC20.edgeUnstoredReturns = 1 ∧
    FactsC20.branchUnstoredReturns = 0 ∧ FactsC20.compileReturnsStoredErrFirst = true ∧
    FactsC20.entryExitInControlBlock = Expected.C20.entryExitInControlBlock ∧
    FactsC20.wfBranchEndsChecked = Expected.C20.wfBranchEndsChecked ∧
    FactsC20.wfInputsReplayedInDeclaredOrder = Expected.C20.wfInputsReplayedInDeclaredOrder := by
  decide

theorem srcFacts_guarded : srcFacts.Guarded := by
  have h := facts_match.1
  rw [h]; exact ⟨rfl, rfl, rfl⟩

/-! ## the first error sticks -/

/-- **first_error_sticks.** In any call sequence, once an Add* call fails (with anything
    but the unstored noControl∧noData refusal), every later call – Add* or Compile – returns
    that very error value and changes nothing; no runner is produced. -/
theorem first_error_sticks (im : Impl) (ord : Ord) (b : Builder) (op : Op) (rest : List Op)
    (k : ErrKind) (hop : op.isCompile = false) (hk : k ≠ .edgeBothNo)
    (h : (step srcFacts im ord b op).2.1 = .fresh k) :
    let b1 := (step srcFacts im ord b op).1
    run srcFacts im ord b1 rest = (b1, rest.map (fun _ => .stored k), []) := by
  intro b1
  exact run_stored srcFacts srcFacts_guarded im ord b1 k
    (step_fresh_stores srcFacts srcFacts_guarded im ord b op hop k hk h) rest

/-- the stored error is also what every call returns when the builder already carries it -/
theorem stored_error_returned (im : Impl) (ord : Ord) (b : Builder) (k : ErrKind)
    (h : b.buildError = some k) (ops : List Op) :
    run srcFacts im ord b ops = (b, ops.map (fun _ => .stored k), []) :=
  run_stored srcFacts srcFacts_guarded im ord b k h ops

/-! ## compiled graphs are immutable -/

/-- **compiled_immutable.** After a successful Compile every Add* call returns
    `ErrGraphCompiled` and the builder state is unchanged. -/
theorem compiled_immutable (im : Impl) (ord : Ord) (b : Builder) (o : COpts)
    (h : (compile srcFacts ord b o).2.1 = .ok) (op : Op) (hop : op.isCompile = false) :
    let b1 := (compile srcFacts ord b o).1
    step srcFacts im ord b1 op = (b1, .compiled, none) := by
  intro b1
  have := compile_ok_flags srcFacts ord b o h
  exact step_compiled srcFacts srcFacts_guarded im ord b1 this.2.1 this.1 op hop

/-- one later call (Add* or another Compile) leaves every builder cell the runner aliases
    as it is -/
theorem later_step_keeps_aliased (im : Impl) (ord : Ord) (b : Builder)
    (he : b.buildError = none) (hc : b.compiled = true) (op : Op) :
    let b' := (step srcFacts im ord b op).1
    b'.aliased = b.aliased ∧ b'.buildError = none ∧ b'.compiled = true := by
  intro b'
  cases hop : op.isCompile
  · have := step_compiled srcFacts srcFacts_guarded im ord b he hc op hop
    refine ⟨by simp [b', this], by simp [b', this, he], by simp [b', this, hc]⟩
  · cases op with
    | compile o =>
      have hm : srcFacts.compileMutates = false := by decide
      rcases compile_state srcFacts hm ord b o with h | h
      · refine ⟨by simp [b', step, h], by simp [b', step, h, he], by simp [b', step, h, hc]⟩
      · refine ⟨by simp [b', step, h, Builder.aliased, Builder.setCompiled],
          by simp [b', step, h, he], by simp [b', step, h]⟩
    | node n => simp [Op.isCompile] at hop
    | edge s e nc nd m => simp [Op.isCompile] at hop
    | branch s t ends sk => simp [Op.isCompile] at hop

/-- **runnable_unaffected.** After a successful Compile, no sequence of later calls
    (Add* attempts, further Compiles) changes any builder-owned cell the runner holds a
    reference to (node table and types, edge lists, branches, the three handler maps); in
    particular the pre-node handler list the first runner uses stays what it was. -/
theorem runnable_unaffected (im : Impl) (ord : Ord) (b : Builder)
    (he : b.buildError = none) (hc : b.compiled = true) (ops : List Op) :
    (run srcFacts im ord b ops).1.aliased = b.aliased := by
  induction ops generalizing b with
  | nil => rfl
  | cons op ops ih =>
    have h1 := later_step_keeps_aliased im ord b he hc op
    simp only [run]
    rw [ih _ h1.2.1 h1.2.2]; exact h1.1

theorem first_runner_handlers_stable (im : Impl) (ord : Ord) (b : Builder) (o : COpts) (r : Runner)
    (h : (compile srcFacts ord b o).2.1 = .ok) (hr : (compile srcFacts ord b o).2.2 = some r)
    (ops : List Op) :
    let b1 := (compile srcFacts ord b o).1
    r.preNodeNow (run srcFacts im ord b1 ops).1 = r.preNode := by
  intro b1
  have hm : srcFacts.compileMutates = false := by decide
  have hs : r.sharesPreNode = false := by
    unfold compile at hr
    split at hr
    · simp at hr
    · split at hr
      · simp at hr
      · split at hr
        · simp at hr
        · simp at hr; rw [← hr]; simp [mkRunner, hm]
  simp [Runner.preNodeNow, hs]

/-! ## every listed kind of ill-formed construction is rejected with an error -/

section rejects
variable (im : Impl) (ord : Ord) (b : Builder) (he : b.buildError = none) (hc : b.compiled = false)
include he hc

/-- reserved node keys -/
theorem rejects_reserved_key (n : NodeSpec) (h : n.key = START ∨ n.key = END) :
    (addNode srcFacts b n).2 = .fresh .reserved := by
  have : addNodeCheck b n = some .reserved := by
    unfold addNodeCheck; rcases h with h | h <;> simp [h]
  simp only [addNode, this]; exact guarded_err b he hc _ _

/-- duplicate node keys -/
theorem rejects_duplicate_node (n : NodeSpec) (h : b.hasNode n.key = true)
    (h1 : n.key ≠ START) (h2 : n.key ≠ END) :
    (addNode srcFacts b n).2 = .fresh .dupNode := by
  have : addNodeCheck b n = some .dupNode := by
    unfold addNodeCheck; simp [h, h1, h2]
  simp only [addNode, this]; exact guarded_err b he hc _ _

/-- state handlers on a graph without state -/
theorem rejects_handler_without_state (n : NodeSpec) (hs : b.stateTy = none)
    (hh : n.pre.isSome = true ∨ n.post.isSome = true)
    (h0 : b.hasNode n.key = false) (h1 : n.key ≠ START) (h2 : n.key ≠ END) :
    (addNode srcFacts b n).2 = .fresh .needState := by
  have : addNodeCheck b n = some .needState := by
    unfold addNodeCheck; rcases hh with hh | hh <;> simp [h0, h1, h2, hs, hh]
  simp only [addNode, this]; exact guarded_err b he hc _ _

/-- invalid option: WithNodeKey outside a chain -/
theorem rejects_node_key_option (n : NodeSpec) (hk : n.nodeKeyOpt = true) (hcmp : b.cmp ≠ .chain) :
    ∃ k, (addNode srcFacts b n).2 = .fresh k := by
  have : ∃ k, addNodeCheck b n = some k := by
    unfold addNodeCheck
    repeat' split
    all_goals first | exact ⟨_, rfl⟩ | simp_all
  rcases this with ⟨k, hk'⟩
  exact ⟨k, by simp only [addNode, hk']; exact guarded_err b he hc _ _⟩

/-- edges naming a node that was never added (either end) -/
theorem rejects_unknown_edge_node (s e : Key) (m : Option Nat)
    (h : (b.hasNode s = false ∧ s ≠ START) ∨ (b.hasNode e = false ∧ e ≠ END)) :
    ∃ k, (addEdge srcFacts im ord b s e false false m).2 = .fresh k := by
  have : ∃ k, addEdgeBody im ord b s e false false m = .error k := by
    unfold addEdgeBody
    repeat' split
    all_goals first | exact ⟨_, rfl⟩ | simp_all
  rcases this with ⟨k, hk⟩
  refine ⟨k, ?_⟩
  have hf := facts_match.1
  simp only [addEdge, hf, Expected.C20.facts, Expected.C20.allGuards, he, hc, hk]
  simp [guarded, he]

/-- duplicate edges -/
theorem rejects_duplicate_edge (s e : Key) (m : Option Nat)
    (h : (s, e) ∈ b.controlEdges) :
    ∃ k, (addEdge srcFacts im ord b s e false false m).2 = .fresh k := by
  have : ∃ k, addEdgeBody im ord b s e false false m = .error k := by
    unfold addEdgeBody
    have hcn : b.controlEdges.contains (s, e) = true := by simpa using h
    repeat' split
    all_goals first | exact ⟨_, rfl⟩ | simp_all
  rcases this with ⟨k, hk⟩
  refine ⟨k, ?_⟩
  have hf := facts_match.1
  simp only [addEdge, hf, Expected.C20.facts, Expected.C20.allGuards, he, hc, hk]
  simp [guarded, he]

/-- single-target branches (and branches from an unknown node / END) -/
theorem rejects_single_target_branch (s : Key) (t : Ty) (e : Key) (sk : Bool) :
    ∃ k, (addBranch srcFacts im ord b s t [e] sk).2 = .fresh k := by
  have : ∃ k, addBranchBody srcFacts im ord b s t [e] sk = .error k := by
    unfold addBranchBody
    repeat' split
    all_goals first | exact ⟨_, rfl⟩ | simp_all
  rcases this with ⟨k, hk⟩
  exact ⟨k, by simp only [addBranch, hk]; exact guarded_err b he hc _ _⟩

theorem rejects_branch_unknown_start (s : Key) (t : Ty) (ends : List Key) (sk : Bool)
    (h : b.hasNode s = false) (h1 : s ≠ START) :
    ∃ k, (addBranch srcFacts im ord b s t ends sk).2 = .fresh k := by
  have : ∃ k, addBranchBody srcFacts im ord b s t ends sk = .error k := by
    unfold addBranchBody
    repeat' split
    all_goals first | exact ⟨_, rfl⟩ | simp_all
  rcases this with ⟨k, hk⟩
  exact ⟨k, by simp only [addBranch, hk]; exact guarded_err b he hc _ _⟩

omit hc in
/-- Compile: missing entry edge, missing exit edge, a pass-through node whose type could not
    be inferred (a pending edge between untyped nodes, or a node nothing ever touched), and
    the invalid option combinations – each is an error (and, Compile being side-effect free on
    failure, the same error on every retry). -/
theorem rejects_at_compile (o : COpts)
    (h : b.startNodes = [] ∨ b.endNodes = [] ∨ b.hasPending = true ∨
         b.hasUntyped = true ∨
         ((b.cmp = .chain ∨ b.cmp = .workflow) ∧ o.trigger ≠ .unset) ∨
         (b.cmp ≠ .workflow ∧ o.getState = true)) :
    ∃ k, compile srcFacts ord b o = (b, .fresh k, none) := by
  have hct : srcFacts.compileChecksTypes = true := by decide
  have : ∃ k, compilePre srcFacts b o = some k := by
    unfold compilePre
    rw [hct]
    repeat' split
    all_goals first | exact ⟨_, rfl⟩ | (simp_all; done) |
      (rcases h with h | h | h | h | ⟨h1 | h1, h2⟩ | ⟨h1, h2⟩ <;> simp_all)
  rcases this with ⟨k, hk⟩
  exact ⟨k, by simp [compile, he, hk]⟩

omit he hc in
theorem compilePre_typed (o : COpts) (hp : compilePre srcFacts b o = none) : b.hasUntyped = false := by
  have hct : srcFacts.compileChecksTypes = true := by decide
  unfold compilePre at hp
  rw [hct] at hp
  repeat' split at hp
  all_goals first | (simp at hp; done) | simp_all

omit hc in
/-- Compile in all-predecessor mode: a control graph Kahn's loop cannot exhaust, or a step
    limit, is an error -/
theorem rejects_dag_violations (o : COpts) (hd : isDag b o = true)
    (h : validateDAG b ord = false ∨ o.maxSteps > 0) (hp : compilePre srcFacts b o = none) :
    ∃ k, compile srcFacts ord b o = (b, .fresh k, none) := by
  have hm : srcFacts.compileMutates = false := by decide
  have ht := compilePre_typed b o hp
  have : ∃ k, compilePost b ord o = some (.fresh k) := by
    unfold compilePost
    rcases h with h | h
    · exact ⟨.dagLoop, by simp [hd, h]⟩
    · by_cases hv : validateDAG b ord = true
      · exact ⟨.maxStepsInDag, by simp [hd, hv, h, ht]⟩
      · exact ⟨.dagLoop, by simp [hd, hv]⟩
  rcases this with ⟨k, hk⟩
  exact ⟨k, by simp [compile, he, hp, mutatePre_off srcFacts hm, hk]⟩

end rejects

/-! ## the same construction sequence gives the same outcome on every attempt -/

/-- **outcome_order_free.**  Go iterates `g.toValidateMap` in a random order every time
    `updateToValidateMap` runs (once per AddEdge, several times per AddBranch),
    `branch.endNodes` in a random order in every AddBranch, and the counter map of
    `validateDAG` in a random order at Compile; the inferred pass-through types, the pending
    entries and therefore every later accept/reject decision depend on what those loops do.
    For every sequence of public Graph-API calls and any two iteration orders – arbitrary,
    state-dependent, independent for the three maps – every call has the same outcome class
    (ok / error / ErrGraphCompiled) in both runs. -/
theorem outcome_order_free (im : Impl) (ord ord' : Ord) (hv : ord.Valid) (hv' : ord'.Valid)
    (cmp : Cmp) (inT outT : Ty) (st : Option Nat) (ops : List Op)
    (hops : ∀ op ∈ ops, op.isGraphApi = true) :
    (run srcFacts im ord (Builder.new cmp inT outT st) ops).2.1.map Outcome.cls =
    (run srcFacts im ord' (Builder.new cmp inT outT st) ops).2.1.map Outcome.cls :=
  run_order_free srcFacts srcFacts_guarded (by decide) (by decide) (by decide) im ord ord' hv hv' ops _ _ hops
    (Or.inl ⟨Sim.refl _ rfl, Inv_new im cmp inT outT st, Inv_new im cmp inT outT st, KeysOK_new cmp inT outT st⟩)

/-- **kahn_sound / kahn_complete.**  Whatever order Go's map iteration takes, `validateDAG`
    answers "valid" exactly when every node can be scheduled: all its control predecessors
    (edge sources and branch starts, START excluded) can, inductively. -/
theorem kahn_sound_complete (b : Builder) (hk : KeysOK b) (ord : Ord) (hv : ord.Valid) :
    validateDAG b ord = true ↔ ∀ k ∈ b.nodes.map (·.key), Sched b k :=
  validateDAG_iff b hk ord hv.kahn

/-- **rejects_cycles.**  A node on a cycle of control edges / branch targets makes
    `validateDAG` answer "invalid" – Compile in all-predecessor mode then fails
    (`rejects_dag_violations`). -/
theorem rejects_cycles (b : Builder) (hk : KeysOK b) (ord : Ord) (hv : ord.Valid)
    (k : Key) (hkn : k ∈ b.nodes.map (·.key)) (hc : PredTC b k k) : validateDAG b ord = false := by
  rcases h : validateDAG b ord
  · rfl
  · exact absurd hc ((kahn_sound_complete b hk ord hv).mp h k hkn).no_cycle

/-- the decision whether `updateToValidateMap` fails, and the types it leaves behind, are
    functions of the state it starts from – for every iteration order (no agreement needed) -/
theorem inference_order_free (im : Impl) (ord ord' : Ord) (hv : ord.Valid) (hv' : ord'.Valid) (T : Ty)
    (b : Builder) (hw : WF b) (hq : Q b T) (hp : PN b) (he : b.buildError = none) :
    (update im ord b = .error .edgeMismatch ∧ update im ord' b = .error .edgeMismatch) ∨
    (∃ c c', update im ord b = .ok c ∧ update im ord' b = .ok c' ∧
       (∀ k, c'.nodeIn k = c.nodeIn k) ∧ (∀ k, c'.nodeOut k = c.nodeOut k) ∧
       (∀ s x, x ∈ getSlice c'.toValidate s ↔ x ∈ getSlice c.toValidate s)) := by
  rcases update_sim im ord ord' hv hv' T b b (Sim.refl b he) hw hw hq hp hp with h | ⟨c, c', h1, h2, hs⟩
  · exact Or.inl h
  · exact Or.inr ⟨c, c', h1, h2, hs.tin, hs.tout, hs.pend⟩

/-- **never a panic.** No call of the builder API, in any state, ends in a panic: every
    outcome is `ok`, an error value, or `ErrGraphCompiled`. -/
theorem never_panics (im : Impl) (ord : Ord) (b : Builder) (op : Op) :
    (step srcFacts im ord b op).2.1 ≠ .panic := by
  have hm : srcFacts.compileMutates = false := by decide
  cases op with
  | node n =>
    simp only [step, addNode, guarded]
    repeat' split
    all_goals simp
  | edge s e nc nd m =>
    simp only [step, addEdge, guarded]
    repeat' split
    all_goals simp
  | branch s t ends sk =>
    simp only [step, addBranch, guarded]
    repeat' split
    all_goals simp
  | compile o =>
    simp only [step, compile, mutatePre_off srcFacts hm]
    split
    · simp
    · split
      · simp
      · rename_i hp
        have ht := compilePre_typed b o hp
        split
        · rename_i oc hpost
          unfold compilePost at hpost
          simp only [ht] at hpost
          repeat' split at hpost
          all_goals simp_all
          all_goals (subst_vars; simp)
        · simp

/-- a failed Compile changes nothing: retrying gives the same answer -/
theorem compile_retry_same (ord : Ord) (b : Builder) (o : COpts) (k : ErrKind)
    (h : (compile srcFacts ord b o).2.1 = .fresh k) :
    (compile srcFacts ord b o).1 = b := by
  have hm : srcFacts.compileMutates = false := by decide
  unfold compile at h ⊢
  rw [mutatePre_off srcFacts hm] at h ⊢
  split
  · rfl
  · split
    · rfl
    · split
      · rfl
      · simp_all

/-! ## declarations above the builder: the Workflow API, graphs used as nodes -/

/-- how declarations are evaluated for the source at hand: the builder facts, and where
    `addEdgeWithMappings` records entry / exit edges -/
def srcEnv (im : Impl) (ord : Ord) : Env :=
  { f := srcFacts, inCtl := FactsC20.entryExitInControlBlock, im, ord }

theorem srcEnv_inCtl (im : Impl) (ord : Ord) : (srcEnv im ord).inCtl = true := facts_match.2.2.2.2.2.1

/-- **Source fact tie (entry / exit bookkeeping).**  With the two appends where the source has
    them – inside `if !noControl { … }` – `addEdgeWithMappings` is the function of the builder
    model: every theorem above speaks about the calls a declaration is lowered to. -/
theorem edge_bookkeeping_tie (im : Impl) (ord : Ord) (b : Builder) (op : Op) :
    stepK (srcEnv im ord) b op = step srcFacts im ord b op :=
  stepK_true (srcEnv im ord) (srcEnv_inCtl im ord) b op

/-- a data-only edge (`WithNoDirectDependency`) is neither an entry nor an exit edge -/
theorem data_only_edge_is_no_entry_or_exit (im : Impl) (ord : Ord) (b : Builder) (s e : Key) (nd : Bool)
    (m : Option Nat) :
    let b' := (stepK (srcEnv im ord) b (.edge s e true nd m)).1
    b'.startNodes = b.startNodes ∧ b'.endNodes = b.endNodes := by
  intro b'
  have h := addEdge_keeps srcFacts im ord b s e true nd m
  have e : b' = (addEdge srcFacts im ord b s e true nd m).1 := by
    simp only [b', edge_bookkeeping_tie, step]
  rw [e]
  exact ⟨h.1 (by simp), h.2.1 (by simp)⟩

/-- **rejects_workflow_without_entry_edge.**  A Workflow in which every input taken from START
    is declared `WithNoDirectDependency()` (no AddInput / AddDependency on START; the
    Workflow's branches, added with `skipData`, record no entry edge either) has no entry edge:
    every Compile of it, with any options, whatever sub-graphs it contains, is refused. -/
theorem rejects_workflow_without_entry_edge (im : Impl) (ord : Ord) (hv : ord.Valid) (chk : Bool) (d : WfDecl)
    (h : ∀ n ∈ d.nodes, ∀ i ∈ n.ins, i.src = START → i.kind = .indirect)
    (hE : ∀ i ∈ d.endIns, i.src = START → i.kind = .indirect) (cos : List COpts) :
    ∀ oc ∈ (d.lower chk).compiles (srcEnv im ord) cos, oc.isOk = false := by
  intro oc hoc
  simp only [Decl.compiles, WfDecl.lower, Decl.compilesX, List.mem_map] at hoc
  rcases hoc with ⟨r, hr, rfl⟩
  have hb := (build_keeps (srcEnv im ord) (srcEnv_inCtl im ord) hv (wfNodeOps d.nodes)
    (Builder.new .workflow d.inT d.outT d.stateTy)).1 (wfNodeOps_all _ (fun _ => rfl) d.nodes)
  exact compilesFrom_no_entry (srcEnv im ord) (srcEnv_inCtl im ord) hv _ _ _ (wf_guard_not_ok chk d)
    (fun op hop => (wf_branchOps_entry d op hop).1) cos _ _ (by rw [hb]; rfl)
    (wf_inputOps_entry d h hE) r hr

/-- **rejects_workflow_without_exit_edge.**  Likewise when END only takes
    `WithNoDirectDependency()` inputs (or none at all). -/
theorem rejects_workflow_without_exit_edge (im : Impl) (ord : Ord) (hv : ord.Valid) (chk : Bool) (d : WfDecl)
    (h : ∀ n ∈ d.nodes, n.key ≠ END) (hE : ∀ i ∈ d.endIns, i.kind = .indirect) (cos : List COpts) :
    ∀ oc ∈ (d.lower chk).compiles (srcEnv im ord) cos, oc.isOk = false := by
  intro oc hoc
  simp only [Decl.compiles, WfDecl.lower, Decl.compilesX, List.mem_map] at hoc
  rcases hoc with ⟨r, hr, rfl⟩
  have hb := (build_keeps (srcEnv im ord) (srcEnv_inCtl im ord) hv (wfNodeOps d.nodes)
    (Builder.new .workflow d.inT d.outT d.stateTy)).2.1 (wfNodeOps_all _ (fun _ => rfl) d.nodes)
  exact compilesFrom_no_exit (srcEnv im ord) (srcEnv_inCtl im ord) hv _ _ _ (wf_guard_not_ok chk d)
    (fun op hop => (wf_branchOps_entry d op hop).2) cos _ _ (by rw [hb]; rfl)
    (wf_inputOps_exit d h hE) r hr

/-- **rejects_workflow_options.**  `WithMaxRunSteps` (a Workflow always runs in all-predecessor
    mode) and `WithNodeTriggerMode` are invalid on a Workflow: its first Compile with such
    options is refused – also when the Workflow is a node of another graph, see
    `sub_graph_failure_rejects_parent`. -/
theorem rejects_workflow_options (im : Impl) (ord : Ord) (hv : ord.Valid) (chk : Bool) (d : WfDecl) (co : COpts)
    (ho : co.maxSteps > 0 ∨ co.trigger ≠ .unset) :
    (Decl.first (srcEnv im ord) (d.lower chk) co).isOk = false := by
  simp only [WfDecl.lower, Decl.first]
  have hb := (build_keeps (srcEnv im ord) (srcEnv_inCtl im ord) hv (wfNodeOps d.nodes)
    (Builder.new .workflow d.inT d.outT d.stateTy)).2.2 (wfNodeOps_all _ (fun _ => rfl) d.nodes)
  exact attempt_bad_options (srcEnv im ord) (srcEnv_inCtl im ord) hv _ _ _ co _ (wf_guard_not_ok chk d)
    (by have := congrArg Prod.snd hb; simp only at this; rw [this]; rfl) (wf_calls_noCompile d) ho

/-- **sub_graph_failure_rejects_parent.**  If the graph given to `AddGraphNode(key, child,
    WithGraphCompileOptions(co))` cannot be compiled with `co` – no entry edge, a step limit on
    a Workflow, a stored error, … – the first Compile of the declaring graph is refused too. -/
theorem sub_graph_failure_rejects_parent (im : Impl) (ord : Ord) (hv : ord.Valid)
    (cmp : Cmp) (inT outT : Ty) (st : Option Nat) (ops : DOps) (re once : List Op) (guard : Option Outcome)
    (hg : ∀ oc, guard = some oc → oc.isOk = false)
    (hops : ops.all (fun o => !o.isCompile) = true)
    (key : Key) (child : Decl) (co : COpts) (hs : DOps.hasSub key child co ops)
    (hchild : (Decl.first (srcEnv im ord) child co).isOk = false) (o : COpts) :
    (Decl.first (srcEnv im ord) (.mk cmp inT outT st ops re once guard) o).isOk = false := by
  simp only [Decl.first]
  rcases build_sub (srcEnv im ord) srcFacts_guarded (srcEnv_inCtl im ord) hv key child co ops
    (Builder.new cmp inT outT st) hops rfl hs with h | h
  · unfold attempt
    split
    · rfl
    · rename_i hn; exact absurd hn h
  · unfold attempt
    split
    · rfl
    · split
      · rename_i oc; exact hg oc rfl
      · exact compileN_kid_fails _ _ _ _ _ _ h hchild

/-- `Decl.first` is the first element of `Decl.compiles`: what a parent sees of a sub-graph is
    what the first Compile of that graph would answer -/
theorem first_is_first_compile (E : Env) (d : Decl) (co : COpts) :
    d.compiles E [co] = [Decl.first E d co] := by
  cases d
  simp [Decl.compiles, Decl.compilesX, compilesFrom, Decl.first]

/-- Go compiles the sub-graph nodes in map order; accept / reject does not depend on it -/
theorem sub_graph_order_free (ord : Ord) (b : Builder) (o : COpts) (kids kids' : List Outcome)
    (hp : kids.Perm kids') :
    (compileN srcFacts ord b o kids).2.1.isOk = (compileN srcFacts ord b o kids').2.1.isOk :=
  compileN_perm srcFacts ord b o kids kids' hp

/-- **workflow_compile_never_panics_partial.**  Full statement: no Compile of a declared
    Workflow panics.  Proved for Workflows whose branches only name declared end nodes, or for a
    source in which `Workflow.compile` checks that lookup (fact `wfBranchEndsChecked`; the
    unrepaired source does not: `workflow_compile_panics_on_undeclared_branch_end`), given that
    none of its sub-graphs panics. -/
theorem workflow_compile_never_panics_partial (im : Impl) (ord : Ord) (d : WfDecl) (co : COpts)
    (h : FactsC20.wfBranchEndsChecked = true ∨ d.badBranchEnd = false)
    (hk : ∀ k ∈ (d.lower FactsC20.wfBranchEndsChecked).kidOutcomes (srcEnv im ord), k ≠ .panic) :
    Decl.first (srcEnv im ord) (d.lower FactsC20.wfBranchEndsChecked) co ≠ .panic := by
  have hm : srcFacts.compileMutates = false := by decide
  simp only [WfDecl.lower, Decl.first, Decl.kidOutcomes] at hk ⊢
  unfold attempt
  split
  · simp
  · split
    · rename_i oc hoc
      unfold WfDecl.guard at hoc
      rcases h with h | h
      · simp only [h, ↓reduceIte] at hoc
        split at hoc
        · simp only [Option.some.injEq] at hoc; rw [← hoc]; simp
        · simp at hoc
      · simp [h] at hoc
    · simp only [show (srcEnv im ord).f = srcFacts from rfl, show (srcEnv im ord).ord = ord from rfl]
      unfold compileN
      simp only [mutatePre_off srcFacts hm]
      split
      · simp
      · split
        · simp
        · rename_i hp
          split
          · rename_i oc hfind
            have hmem := List.mem_of_find?_eq_some hfind
            have := hk oc hmem
            cases oc <;> simp_all [Outcome.asChild]
          · have ht := compilePre_typed _ co hp
            split
            · rename_i oc hpost
              unfold compilePost at hpost
              simp only [ht] at hpost
              repeat' split at hpost
              all_goals simp_all
              all_goals (subst_vars; simp)
            · simp

/-- **workflow_compile_deterministic_partial.**  Full statement: a declared Workflow gives the
    same Compile outcomes on every attempt.  `Workflow.compile` replays the recorded inputs in the
    order it visits its nodes; proved for a source that visits them in declaration order (fact
    `wfInputsReplayedInDeclaredOrder`): then whatever order `adv` / `adv'` a Go map iteration
    might have produced plays no role and the outcome is the function `WfDecl.lower` of the
    declaration.  The unrepaired source ranges over the map, and the order does matter as soon as
    a pass-through node can take its type from several edges:
    `workflow_input_order_matters`. -/
theorem workflow_compile_deterministic_partial (chk : Bool) (d : WfDecl)
    (h : FactsC20.wfInputsReplayedInDeclaredOrder = true) (adv adv' : List Nat) :
    d.lowerBy chk (replayOrder FactsC20.wfInputsReplayedInDeclaredOrder adv (d.nodes.length + 1)) =
      d.lowerBy chk (replayOrder FactsC20.wfInputsReplayedInDeclaredOrder adv' (d.nodes.length + 1)) ∧
    d.lowerBy chk (replayOrder FactsC20.wfInputsReplayedInDeclaredOrder adv (d.nodes.length + 1)) = d.lower chk := by
  simp only [replayOrder, h, ↓reduceIte, lowerBy_declared, and_self]

/-! ## graphs compiled as nodes are frozen -/

/-- **nested_graphs_frozen.**  "After a successful Compile the graph can no longer be modified"
    for the graphs a compiled graph contains: if the first Compile of a declared graph succeeds,
    then every graph it was given with `AddGraphNode(key, child, WithGraphCompileOptions(cco))`
    was compiled with `cco` successfully, the builder that compile left behind has the `compiled`
    flag, and every later Add* call on it answers `ErrGraphCompiled` and changes nothing.
    (`guard` / `child.guard` – what `Workflow.compile` answers before touching the graph – is
    never a success.)  Applied to `child` in place of the parent the statement reaches the graphs
    `child` contains, and so every nesting depth. -/
theorem nested_graphs_frozen (im : Impl) (ord : Ord) (hv : ord.Valid)
    (cmp : Cmp) (inT outT : Ty) (st : Option Nat) (ops : DOps) (re once : List Op) (guard : Option Outcome)
    (co : COpts) (hok : Decl.first (srcEnv im ord) (.mk cmp inT outT st ops re once guard) co = .ok)
    (hops : ops.all (fun o => !o.isCompile) = true) (hg : guard ≠ some .ok)
    (key : Key) (child : Decl) (cco : COpts) (hs : DOps.hasSub key child cco ops)
    (hcg : child.guard ≠ some .ok) :
    Decl.first (srcEnv im ord) child cco = .ok ∧
    (Decl.firstB (srcEnv im ord) child cco).1.compiled = true ∧
    ∀ op : Op, op.isCompile = false →
      stepK (srcEnv im ord) (Decl.firstB (srcEnv im ord) child cco).1 op =
        ((Decl.firstB (srcEnv im ord) child cco).1, .compiled, none) := by
  have hparent := attempt_ok (srcEnv im ord) _ (re ++ once) guard co _ hg
    (by simpa only [Decl.first] using hok)
  have hchild : Decl.first (srcEnv im ord) child cco = .ok := by
    rcases build_sub (srcEnv im ord) srcFacts_guarded (srcEnv_inCtl im ord) hv key child cco ops
      (Builder.new cmp inT outT st) hops rfl hs with h | h
    · -- the AddGraphNode error would have been kept and returned by Compile
      exfalso
      have hne : (attempt (srcEnv im ord) (DOps.build (srcEnv im ord) ops (Builder.new cmp inT outT st)).1
          (re ++ once) guard co (DOps.build (srcEnv im ord) ops (Builder.new cmp inT outT st)).2).2 ≠ .ok := by
        unfold attempt
        split
        · simp
        · rename_i hn; exact absurd hn h
      exact hne (by simpa only [Decl.first] using hok)
    · have := hparent.2.1 _ h
      cases hc : Decl.first (srcEnv im ord) child cco <;> simp_all [Outcome.isOk]
  have hfz : (Decl.firstB (srcEnv im ord) child cco).1.compiled = true ∧
      (Decl.firstB (srcEnv im ord) child cco).1.buildError = none := by
    rw [Decl.first_eq] at hchild
    cases child with
    | mk c i o s cops cre conce cguard =>
      simp only [Decl.firstB] at hchild ⊢
      have := attempt_ok (srcEnv im ord) _ (cre ++ conce) cguard cco _ (by simpa [Decl.guard] using hcg) hchild
      exact ⟨this.2.2.1, this.2.2.2⟩
  exact ⟨hchild, hfz.1, fun op hop =>
    stepK_compiled (srcEnv im ord) srcFacts_guarded (srcEnv_inCtl im ord) _ hfz.2 hfz.1 op hop⟩

/-! ## nodes with WithInputKey / WithOutputKey -/

/-- the two source facts of the keyed model -/
def srcKFacts : KFacts := ⟨FactsC20.mapHelperNilSafe, FactsC20.compileChecksOwnTypes⟩

/-- Source fact tie: `forMapInput` / `forMapOutput` accept a nil helper, and `compile` refuses a
    node whose own type is unknown. -/
theorem key_facts_match : srcKFacts = Expected.C20.kfacts := by decide

/-- **keyed_calls_never_panic.**  "With an error and never a panic" for graphs whose nodes carry
    `WithInputKey` / `WithOutputKey`: no Add* call and no Compile, in any state, in any order,
    ends in a panic.  (A keyed pass-through node shows `map[string]any` while its own type – and
    its generic helper – may still be unknown; the work list only ever asks such a node for the
    map side of its helper, and Compile refuses it.) -/
theorem keyed_calls_never_panic (im : Impl) (ord : Ord) (x : XB) (xo : XOp) :
    (stepX srcKFacts srcFacts im ord x xo).2.1 ≠ .panic := by
  have h := key_facts_match
  exact stepX_no_panic srcKFacts (by rw [h]; rfl) (by rw [h]; rfl) srcFacts im ord x xo

/-- **rejects_keyed_node_without_own_type.**  "Pass-through nodes whose type cannot be inferred"
    when a key option hides the missing type: a node with `WithInputKey` / `WithOutputKey` whose
    own type was never inferred (no data predecessor, no data successor, both sides keyed,
    control-only edges) makes Compile answer with an error, and the builder stays as it was. -/
theorem rejects_keyed_node_without_own_type (ord : Ord) (x : XB) (o : COpts) (h : x.keyedUntyped = true) :
    ∃ k, compileX srcKFacts srcFacts ord x o = (x, .fresh k, none) ∨
         compileX srcKFacts srcFacts ord x o = (x, .stored k, none) :=
  compileX_rejects_keyedUntyped srcKFacts (by rw [key_facts_match]; rfl) srcFacts ord x o h

/-- **keyed_model_extends_builder.**  Without key options the keyed model is the builder model:
    same outcomes, same runners, same builder – every theorem above about `run` / `step` speaks
    about the calls of the keyed model too. -/
theorem keyed_model_extends_builder (im : Impl) (ord : Ord) (mt : Ty) (b : Builder) (ops : List Op) :
    runX srcKFacts srcFacts im ord (XB.ofB b mt) (ops.map XOp.plain) =
      (XB.ofB (run srcFacts im ord b ops).1 mt, (run srcFacts im ord b ops).2.1, (run srcFacts im ord b ops).2.2) :=
  runX_plain srcKFacts srcFacts (by decide) im ord mt ops b

/-! ## static values of a Workflow: what a compiled runnable reads (Model/C20Static.lean) -/

/-- the two source facts of the static-value model -/
def srcSFacts : SV.SFacts := ⟨FactsC20.wfStaticValuesCopied, FactsC20.setStaticValueChecksCompiled⟩

/-- Source fact tie: `Workflow.compile` copies `n.staticValues` for the handler closures;
    `SetStaticValue` is (on the source as it is) not guarded by the `compiled` flag. -/
theorem static_facts_match : srcSFacts = Expected.C20.sfacts := by decide

/-- **static_values_frozen.**  "The compiled runnable is unaffected by later attempts", as equality
    of run results: build a Workflow by any declarations `decl` and any calls `ops1`
    (`SetStaticValue`, `AddInput`, Compile, runs), then make any further calls `ops2` – through the
    retained node handles, further Compiles included.  Every runnable that existed after `ops1`
    still exists and answers every input exactly as it did before `ops2`. -/
theorem static_values_frozen (decl : List (String × List SV.SIn)) (inp inp' : SV.KVs)
    (ops1 ops2 : List SV.SOp) :
    let st1 := (SV.runOps srcSFacts inp (SV.SW.new decl, []) ops1).1
    let st2 := (SV.runOps srcSFacts inp st1 ops2).1
    st1.2 <+: st2.2 ∧ ∀ r ∈ st1.2, r.run st2.1 inp' = r.run st1.1 inp' := by
  intro st1 st2
  have hc : srcSFacts.copies = true := by rw [static_facts_match]; rfl
  have h1 : SV.St.Closed st1 := SV.runOps_closed srcSFacts hc inp _ (SV.new_closed decl) ops1
  exact ⟨SV.runOps_runners srcSFacts inp st1 ops2,
    fun r hr => SV.run_closed r (h1.2 r hr) _ _ inp'⟩

/-- **rejects_static_value_on_taken_path.**  "Invalid option combinations" for static values: when
    the recorded inputs have been replayed and some node carries a static value although its whole
    input is mapped, or on a field that an input maps, Compile returns an error (and no runnable),
    at this and – the trie only grows – every later attempt. -/
theorem rejects_static_value_on_taken_path (w : SV.SW) (hp : ∀ m ∈ w.nodes, m.pend = [])
    (n : SV.SNode) (hn : n ∈ w.nodes) (hne : n.static.isEmpty = false)
    (ht : n.trie = .whole ∨ ∃ fs p, n.trie = .fields fs ∧ p ∈ fs ∧ p ∈ n.static.keys) :
    (SV.compile srcSFacts w).2 = none :=
  SV.compile_static_taken srcSFacts w hp n hn hne ht

/-- a Compile that hands out a runnable leaves the Workflow's graph compiled -/
theorem static_compile_sets_compiled (w : SV.SW) (r : SV.SRunner)
    (h : (SV.compile srcSFacts w).2 = some r) : (SV.compile srcSFacts w).1.compiled = true :=
  SV.compile_some_compiled srcSFacts w r h

/-- **workflow_static_values_fixed_partial.**  Full statement ("after a successful Compile the
    graph can no longer be modified", for the static values): once a Workflow is compiled, no call
    sequence changes the static values of any of its nodes, so every later Compile reads what the
    first one read.  Proved for `guarded = true` (`SetStaticValue` looks at the `compiled` flag);
    the source has `false`, see `late_static_value_reaches_next_compile`. -/
theorem workflow_static_values_fixed_partial (F : SV.SFacts) (hg : F.guarded = true) (inp : SV.KVs)
    (st : SV.St) (hc : st.1.compiled = true) (ops : List SV.SOp) :
    (SV.runOps F inp st ops).1.1.statics = st.1.statics ∧ (SV.runOps F inp st ops).1.1.compiled = true :=
  SV.runOps_guarded F hg inp st hc ops

/-! ## one (predecessor, node) pair declared several times (Model/C20Dup.lean) -/

/-- Source fact tie: `addEdgeWithMappings` looks for the new edge among the control edges inside
    `if !noControl { … }` and among the data edges inside `if !noData { … }`, each time before
    the half is recorded – the two scans the builder model's `addEdgeBody` has. -/
theorem edge_dup_scan_facts_match :
    FactsC20.edgeDupScanInControlBlock = true ∧ FactsC20.edgeDupScanInDataBlock = true := by
  decide

/-- **rejects_duplicate_edge_of_any_kind.**  "Duplicate edges", per call and for every kind of
    edge: on an error-free, uncompiled builder a call `addEdgeWithMappings(s, e, noControl, noData)`
    that carries a half – control or data – which the pair (s, e) already has is answered with an
    error, and the error is stored. -/
theorem rejects_duplicate_edge_of_any_kind (im : Impl) (ord : Ord) (b : Builder)
    (he : b.buildError = none) (hc : b.compiled = false) (s e : Key) (nc nd : Bool) (m : Option Nat)
    (hn : (nc && nd) = false)
    (h : (nc = false ∧ (s, e) ∈ b.controlEdges) ∨ (nd = false ∧ (s, e) ∈ b.dataEdges)) :
    ∃ k, (step srcFacts im ord b (.edge s e nc nd m)).2.1 = .fresh k ∧
         (step srcFacts im ord b (.edge s e nc nd m)).1.buildError = some k :=
  step_edge_dup_err srcFacts srcFacts_guarded im ord b he hc s e nc nd m hn h

/-- **rejects_workflow_duplicate_input.**  "Duplicate edges" for the Workflow API, whatever the
    kinds, the order and the position: if the declarations of some node (or of END) name one
    predecessor twice – `i1` somewhere before `i2`, anything in between, before and after – and the
    two kinds share a half (`InKind.clash`: every combination of AddInput / AddDependency /
    WithNoDirectDependency except AddDependency + WithNoDirectDependency), then no Compile of the
    Workflow succeeds, with any options, under every map iteration order, sub-graphs arbitrary. -/
theorem rejects_workflow_duplicate_input (im : Impl) (ord : Ord) (hv : ord.Valid) (chk : Bool) (d : WfDecl)
    (dst : Key) (ins : List WfIn)
    (hwhere : (∃ n ∈ d.nodes, n.key = dst ∧ n.ins = ins) ∨ (dst = END ∧ d.endIns = ins))
    (i1 i2 : WfIn) (hsub : List.Sublist [i1, i2] ins) (hsrc : i1.src = i2.src)
    (hcl : i1.kind.clash i2.kind = true) (cos : List COpts) :
    ∀ oc ∈ (d.lower chk).compiles (srcEnv im ord) cos, oc.isOk = false :=
  wf_dup_rejected (srcEnv im ord) srcFacts_guarded (srcEnv_inCtl im ord) hv chk d dst ins hwhere i1 i2 hsub hsrc hcl cos

/-! ## non-vacuity and negation witnesses -/

def exImpl : Impl := [(.conc 3, 0)]
def lam (k : Key) (i o : Ty) : Op :=
  .node { key := k, passthrough := false, inTy := i, outTy := o, pre := none, post := none, nodeKeyOpt := false }
def pt (k : Key) : Op :=
  .node { key := k, passthrough := true, inTy := .any, outTy := .any, pre := none, post := none, nodeKeyOpt := false }
def copts : COpts := { trigger := .unset, maxSteps := 0, getState := false }
def b0 : Builder := Builder.new .graph (.conc 0) (.conc 0) none

/-- a well-formed graph compiles, then refuses changes, and a second Compile still works -/
example : (run srcFacts exImpl Ord.id b0
    [lam "a" (.conc 0) (.conc 0), .edge START "a" false false none, .edge "a" END false false none,
     .compile copts, lam "b" (.conc 0) (.conc 0), .compile copts]).2.1
    = [.ok, .ok, .ok, .ok, .compiled, .ok] := by decide

/-- an error in the middle sticks, Compile included -/
example : (run srcFacts exImpl Ord.id b0
    [lam "a" (.conc 0) (.conc 0), lam "a" (.conc 0) (.conc 0), .edge START "a" false false none,
     .compile copts]).2.1
    = [.ok, .fresh .dupNode, .stored .dupNode, .stored .dupNode] := by decide

/-- With the append to `g.handlerPreNode` inside compile (the unfixed source), a second
    Compile of a graph with field mappings changes the handler list the *first* runner
    uses: `runnable_unaffected` is false for that value of the fact. -/
theorem runnable_affected_when_compile_mutates :
    let f := { Expected.C20.facts with compileMutates := true }
    let ops := [lam "a" (.conc 0) (.conc 0), .edge START "a" false false (some 0),
                .edge "a" END false false none, .compile copts]
    let st := run f exImpl Ord.id { b0 with cmp := .workflow } ops
    st.2.1 = [.ok, .ok, .ok, .ok] ∧
    st.2.2.map (fun r => (r.preNode, r.preNodeNow (step f exImpl Ord.id st.1 (.compile copts)).1))
      = [([("a", 1)], [("a", 2)])] := by
  decide

/-- Without the node-type check in compile (the unfixed source) a pass-through node that no
    edge ever touched makes Compile panic instead of returning an error. -/
theorem compile_panics_without_type_check :
    let f := { Expected.C20.facts with compileChecksTypes := false }
    (run f exImpl Ord.id b0
      [lam "a" (.conc 0) (.conc 0), pt "p",
       .edge START "a" false false none, .edge "a" END false false none, .compile copts]).2.1
      = [.ok, .ok, .ok, .ok, .panic] := by
  decide

/-- a two-node cycle a → b → a: Kahn's loop rejects it, Compile in all-predecessor mode fails -/
example : (run srcFacts exImpl Ord.id b0
    [lam "a" (.conc 0) (.conc 0), lam "b" (.conc 0) (.conc 0), .edge START "a" false false none,
     .edge "a" "b" false false none, .edge "b" "a" false false none, .edge "b" END false false none,
     .compile { copts with trigger := .allPred }]).2.1
    = [.ok, .ok, .ok, .ok, .ok, .ok, .fresh .dagLoop] := by decide

/-- Without the deferred store the first error would not stick. -/
theorem error_not_sticky_without_store :
    let f := { Expected.C20.facts with nodeG := { Expected.C20.allGuards with storeErr := false } }
    (run f exImpl Ord.id b0 [lam "start" (.conc 0) (.conc 0), lam "a" (.conc 0) (.conc 0)]).2.1
      = [.fresh .reserved, .ok] := by
  decide

/-! ### declarations -/

def wlam (k : Key) (ins : List WfIn) : WfNode := { key := k, body := .plain false (.conc 0) (.conc 0), ins }
def exEnv (inCtl : Bool) : Env := { f := Expected.C20.facts, inCtl, im := exImpl, ord := Ord.id }

/-- `a.AddInputWithOptions(START, nil, WithNoDirectDependency()); End().AddInput("a")` -/
def wfNoEntry : WfDecl :=
  { inT := .conc 0, outT := .conc 0, stateTy := none,
    nodes := [wlam "a" [⟨START, .indirect, none⟩]], endIns := [⟨"a", .input, none⟩], branches := [] }

/-- the same with a real entry edge -/
def wfOk : WfDecl := { wfNoEntry with nodes := [wlam "a" [⟨START, .input, none⟩]] }

/-- the well-formed Workflow compiles (three times), the entry-less one is refused with
    `start node not set` every time; a step limit is refused and leaves the Workflow usable -/
example : (wfOk.lower true).compiles (exEnv true) [copts, copts, copts] = [.ok, .ok, .ok] ∧
    (wfNoEntry.lower true).compiles (exEnv true) [copts, copts] = [.fresh .noStart, .fresh .noStart] ∧
    (wfOk.lower true).compiles (exEnv true) [{ copts with maxSteps := 5 }, copts] =
      [.fresh .maxStepsInDag, .ok] := by decide

/-- …and as a node of a well-formed graph it makes the graph's Compile fail -/
example :
    let g (child : Decl) (co : COpts) : Decl := .mk .graph (.conc 0) (.conc 0) none
      (.sub "w" child co (.ofList [.edge START "w" false false none, .edge "w" END false false none])) [] [] none
    Decl.first (exEnv true) (g (wfOk.lower true) copts) copts = .ok ∧
    Decl.first (exEnv true) (g (wfNoEntry.lower true) copts) copts = .fresh .noStart ∧
    Decl.first (exEnv true) (g (wfOk.lower true) { copts with maxSteps := 7 }) copts = .fresh .maxStepsInDag := by
  decide

/-- With the two appends moved behind the data part of `addEdgeWithMappings` (run for every
    accepted edge), the Workflow without entry edge compiles:
    `rejects_workflow_without_entry_edge` is false for that value of the fact. -/
theorem entry_less_workflow_accepted_when_bookkeeping_hoisted :
    (wfNoEntry.lower true).compiles (exEnv false) [copts] = [.ok] ∧
    ({ wfOk with endIns := [⟨"a", .indirect, none⟩] }.lower true).compiles (exEnv false) [copts] = [.ok] := by
  decide

/-- Workflow[c1 → c2]: pass-through `a` ← START; `b` (any → c0) ← `a`; END ← `b` (dependency),
    END ← `a` (data only).  Which edge types `a` first decides everything: replaying `b`'s input
    first makes `a` an `any` (all later edges are checked at run time, Compile succeeds);
    replaying `a`'s own input first makes it a c1, and the edge into END (c2) is refused. -/
theorem workflow_input_order_matters :
    let d : WfDecl :=
      { inT := .conc 1, outT := .conc 2, stateTy := none,
        nodes := [{ key := "a", body := .plain true .any .any, ins := [⟨START, .input, none⟩] },
                  { key := "b", body := .plain false .any (.conc 0), ins := [⟨"a", .input, none⟩] }],
        endIns := [⟨"b", .dep, none⟩, ⟨"a", .indirect, none⟩], branches := [] }
    Decl.first (exEnv true) (d.lowerBy true [1, 0, 2]) copts = .ok ∧
    Decl.first (exEnv true) (d.lowerBy true [0, 1, 2]) copts = .stored .edgeMismatch ∧
    Decl.first (exEnv true) (d.lowerBy true [2, 0, 1]) copts = .stored .edgeMismatch := by
  decide

/-- `Workflow.compile` on the unrepaired source: a branch naming an end node that no
    Add…Node call declared makes Compile panic (nil entry of `wf.workflowNodes`). -/
theorem workflow_compile_panics_on_undeclared_branch_end :
    let d : WfDecl := { wfOk with branches := [⟨"a", .conc 0, [END, "ghost"]⟩] }
    (d.lower false).compiles (exEnv true) [copts, copts] = [.panic, .panic] ∧
    (d.lower true).compiles (exEnv true) [copts] = [.fresh .branchUnknownEnd] := by
  decide

/-! ### static values -/

def kv (l : List (String × SV.V)) : SV.KVs := l.foldr (fun p r => .cons p.1 p.2 r) .nil
/-- `a` takes field `f0` from START, END takes `a`'s whole output as field `a` -/
def svDecl : List (String × List SV.SIn) :=
  [("a", [⟨"start", [.field "f0" "f0"]⟩]), ("end", [⟨"a", [.to "a"]⟩])]
def svIn : SV.KVs := kv [("f0", .str "x0")]

/-- set, compile, run, overwrite and add through the retained handle, run again, compile again, run:
    the first runnable answers the same three times; the second Compile fails (the paths of the
    static values are taken) – `static_values_frozen` and its hypotheses are not vacuous -/
example :
    (SV.runOps srcSFacts svIn (SV.SW.new svDecl, [])
      [.set "a" "s" "v", .compile, .run 0, .set "a" "s" "changed", .set "a" "extra" "42", .run 0,
       .compile, .run 0, .run 1]).2
    = [.ok, .compiled, .ran (some (kv [("a", .obj (kv [("f0", .str "x0"), ("s", .str "v")]))])),
       .ok, .ok, .ran (some (kv [("a", .obj (kv [("f0", .str "x0"), ("s", .str "v")]))])),
       .error, .ran (some (kv [("a", .obj (kv [("f0", .str "x0"), ("s", .str "v")]))])), .noRunner] := by
  decide

/-- a static value on a path that an input maps is refused, at every Compile -/
example : (SV.runOps srcSFacts svIn (SV.SW.new svDecl, [])
    [.set "a" "f0" "clash", .compile, .compile]).2 = [.ok, .error, .error] := by decide

/-- With the handler closures reading the builder's own map (`value := n.staticValues`), a later
    `SetStaticValue` through the retained handle changes what the compiled runnable answers:
    `static_values_frozen` is false for that value of the fact. -/
theorem runnable_follows_late_static_value_when_aliased :
    (SV.runOps { copies := false, guarded := false } svIn (SV.SW.new svDecl, [])
      [.set "a" "s" "v", .compile, .run 0, .set "a" "s" "changed", .set "a" "extra" "42", .run 0]).2
    = [.ok, .compiled, .ran (some (kv [("a", .obj (kv [("f0", .str "x0"), ("s", .str "v")]))])),
       .ok, .ok,
       .ran (some (kv [("a", .obj (kv [("f0", .str "x0"), ("s", .str "changed"), ("extra", .str "42")]))]))] := by
  decide

/-- The source as it is (`SetStaticValue` without a look at the `compiled` flag): a static value
    set after Compile on a node that had none is compiled into the next runnable – the compiled
    Workflow was modified; with the guard the second runnable is the first one again. -/
theorem late_static_value_reaches_next_compile :
    (SV.runOps { copies := true, guarded := false } svIn (SV.SW.new svDecl, [])
      [.compile, .set "a" "late" "v", .compile, .run 0, .run 1]).2
    = [.compiled, .ok, .compiled, .ran (some (kv [("a", .obj (kv [("f0", .str "x0")]))])),
       .ran (some (kv [("a", .obj (kv [("f0", .str "x0"), ("late", .str "v")]))]))] ∧
    (SV.runOps { copies := true, guarded := true } svIn (SV.SW.new svDecl, [])
      [.compile, .set "a" "late" "v", .compile, .run 0, .run 1]).2
    = [.compiled, .ok, .compiled, .ran (some (kv [("a", .obj (kv [("f0", .str "x0")]))])),
       .ran (some (kv [("a", .obj (kv [("f0", .str "x0")]))]))] := by
  decide

/-! ### one pair declared twice -/

/-- which pairs of kinds are duplicates: all but AddDependency + WithNoDirectDependency -/
example :
    InKind.clash .dep .indirect = false ∧ InKind.clash .indirect .dep = false ∧
    InKind.clash .input .input = true ∧ InKind.clash .input .dep = true ∧ InKind.clash .input .indirect = true ∧
    InKind.clash .dep .input = true ∧ InKind.clash .dep .dep = true ∧
    InKind.clash .indirect .input = true ∧ InKind.clash .indirect .indirect = true := by
  decide

/-- Workflow START → a → END with a second declaration of the pair (START, END) in every
    combination: refused at every Compile, except AddDependency + WithNoDirectDependency (either
    order), which is one control + data connection – `rejects_workflow_duplicate_input` is not
    vacuous and its exception is real -/
example :
    let wf (k1 k2 : InKind) : WfDecl :=
      { inT := .conc 0, outT := .conc 0, stateTy := none, nodes := [wlam "a" [⟨START, .input, none⟩]],
        endIns := [⟨"a", .input, some 1⟩, ⟨START, k1, some 2⟩, ⟨START, k2, some 3⟩], branches := [] }
    ((wf .indirect .input).lower true).compiles (exEnv true) [copts, copts] = [.stored .dupData, .stored .dupData] ∧
    ((wf .input .indirect).lower true).compiles (exEnv true) [copts] = [.stored .dupData] ∧
    ((wf .input .dep).lower true).compiles (exEnv true) [copts] = [.stored .dupControl] ∧
    ((wf .dep .dep).lower true).compiles (exEnv true) [copts] = [.stored .dupControl] ∧
    ((wf .indirect .indirect).lower true).compiles (exEnv true) [copts] = [.stored .dupData] ∧
    ((wf .dep .indirect).lower true).compiles (exEnv true) [copts, copts] = [.ok, .ok] ∧
    ((wf .indirect .dep).lower true).compiles (exEnv true) [copts] = [.ok] := by
  decide

/-- With ONE scan "among the edges of the new edge's own kind" in front of the bookkeeping, a
    control + data edge after a data-only edge of the same pair is accepted (the other order and
    every other combination are still refused): `rejects_duplicate_edge_of_any_kind` is false for
    that shape of `addEdgeWithMappings`. -/
theorem duplicate_accepted_when_scan_is_by_own_kind :
    let ops (nc1 nd1 nc2 nd2 : Bool) : List Op :=
      [lam "a" (.conc 0) (.conc 0), .edge START "a" nc1 nd1 none, .edge START "a" nc2 nd2 none]
    runScan false Expected.C20.facts exImpl Ord.id b0 (ops true false false false) = [.ok, .ok, .ok] ∧
    runScan true Expected.C20.facts exImpl Ord.id b0 (ops true false false false) = [.ok, .ok, .fresh .dupData] ∧
    runScan false Expected.C20.facts exImpl Ord.id b0 (ops false false true false) = [.ok, .ok, .fresh .dupData] ∧
    runScan false Expected.C20.facts exImpl Ord.id b0 (ops false false false false) = [.ok, .ok, .fresh .dupControl] := by
  decide

/-! ### key options -/

def xpt (k : Key) (ik ok : Bool) : XOp :=
  .node { key := k, passthrough := true, inTy := .any, outTy := .any, pre := none, post := none, nodeKeyOpt := false } ik ok
def xlam (k : Key) (i o : Ty) : XOp := .plain (lam k i o)
def xedge (s e : Key) : XOp := .plain (.edge s e false false none)
/-- Graph[map[string]any, map[string]any] -/
def xb0 : XB := XB.ofB (Builder.new .graph (.conc 5) (.conc 5) none) (.conc 5)

/-- a pass-through node with an input key and a data successor is typed by that successor and the
    graph compiles; the same node as a dead end (data predecessor only), with both keys on the
    spine, or without data predecessor under an output key is refused by Compile – every time –
    with `cannot be inferred` -/
example :
    (runX Expected.C20.kfacts Expected.C20.facts exImpl Ord.id xb0
      [xpt "p" true false, xlam "a" (.conc 0) (.conc 5), xedge START "p", xedge "p" "a", xedge "a" END,
       .plain (.compile copts)]).2.1 = [.ok, .ok, .ok, .ok, .ok, .ok] ∧
    (runX Expected.C20.kfacts Expected.C20.facts exImpl Ord.id xb0
      [xlam "a" (.conc 5) (.conc 5), xedge START "a", xedge "a" END, xpt "p" true false, xedge START "p",
       .plain (.compile copts), .plain (.compile copts)]).2.1
        = [.ok, .ok, .ok, .ok, .ok, .fresh .uninferred, .fresh .uninferred] ∧
    (runX Expected.C20.kfacts Expected.C20.facts exImpl Ord.id xb0
      [xpt "p" true true, xedge START "p", xedge "p" END, .plain (.compile copts)]).2.1
        = [.ok, .ok, .ok, .fresh .uninferred] ∧
    (runX Expected.C20.kfacts Expected.C20.facts exImpl Ord.id xb0
      [xlam "a" (.conc 5) (.conc 5), xedge START "a", xedge "a" END, xpt "p" false true, xedge "p" "a",
       .plain (.compile copts)]).2.1 = [.ok, .ok, .ok, .ok, .ok, .fresh .uninferred] := by decide

/-- With `forMapInput` / `forMapOutput` dereferencing their receiver (the unrepaired source) an
    edge next to a still untyped keyed pass-through node makes AddEdge panic:
    `keyed_calls_never_panic` is false for that value of the fact. -/
theorem add_edge_panics_on_untyped_keyed_passthrough :
    let K : KFacts := { Expected.C20.kfacts with helperNilSafe := false }
    (runX K Expected.C20.facts exImpl Ord.id xb0 [xpt "p1" false true, xpt "p2" false false, xedge "p1" "p2"]).2.1
      = [.ok, .ok, .panic] ∧
    (runX K Expected.C20.facts exImpl Ord.id xb0 [xpt "p1" false false, xpt "p2" true false, xedge "p1" "p2"]).2.1
      = [.ok, .ok, .panic] ∧
    (runX Expected.C20.kfacts Expected.C20.facts exImpl Ord.id xb0
      [xpt "p1" false true, xpt "p2" false false, xedge "p1" "p2"]).2.1 = [.ok, .ok, .ok] ∧
    (runX Expected.C20.kfacts Expected.C20.facts exImpl Ord.id xb0
      [xpt "p1" false false, xpt "p2" true false, xedge "p1" "p2"]).2.1 = [.ok, .ok, .ok] := by
  decide

/-- Without the own-type check in compile and with the dereferencing helpers (the unrepaired
    source), START → p (both key options) → END passes every check and Compile panics in
    `compileIfNeeded`, on every attempt; with the check it is an error. -/
theorem compile_panics_on_both_keys_without_own_type_check :
    let ops := [xpt "p" true true, xedge START "p", xedge "p" END, .plain (.compile copts), .plain (.compile copts)]
    (runX { helperNilSafe := false, compileChecksOwnTypes := false } Expected.C20.facts exImpl Ord.id xb0 ops).2.1
      = [.ok, .ok, .ok, .panic, .panic] ∧
    (runX Expected.C20.kfacts Expected.C20.facts exImpl Ord.id xb0 ops).2.1
      = [.ok, .ok, .ok, .fresh .uninferred, .fresh .uninferred] := by
  decide

/-- a graph used as a node: compiled by its parent, frozen – `nested_graphs_frozen` is not vacuous -/
example :
    let inner : Decl := .mk .graph (.conc 0) (.conc 0) none
      (.ofList [lam "a" (.conc 0) (.conc 0), .edge START "a" false false none, .edge "a" END false false none]) [] [] none
    let outer : Decl := .mk .graph (.conc 0) (.conc 0) none
      (.sub "g" inner copts (.ofList [.edge START "g" false false none, .edge "g" END false false none])) [] [] none
    Decl.first (exEnv true) outer copts = .ok ∧
    (Decl.firstB (exEnv true) inner copts).1.compiled = true ∧
    modOutcome (exEnv true) (Decl.firstB (exEnv true) inner copts).1 (lam "late" (.conc 0) (.conc 0)) = .compiled ∧
    modOutcome (exEnv true) (Decl.firstB (exEnv true) inner copts).1 (.edge START "a" false false none) = .compiled ∧
    Decl.again (exEnv true) (fun _ => false) [] outer copts = .ok ∧
    Decl.again (exEnv true) (fun p => p == ["g"]) [] outer copts = .compiled := by decide

/-! ### Translated source: `validateDAG`

`lean/EinoV/Gen/TransC20.lean` is produced on every run by `tools/factgen/gotrans*.go` from the text of
`validateDAG` in compose/graph.go (Kahn's loop over Go maps), against the prelude `Model/GoSem*.lean`.  The
theorems below (proved in `Proofs/TransKahn.lean`) say that the translated text decides exactly what the model's
`validateDAG` decides — so `kahn_sound_complete` / `rejects_cycles` are statements about the code as it is now.
The relation `KahnRel` between a builder and the Go arguments fixes no order: the statements hold for every
stored order of `chanSubscribeTo`, of every `endNodes` map and of every predecessor list.  The Go loop has no
fuel; the translation's fuel is irrelevant from nodes + 1 on (`translated_validateDAG_total`). -/
section TranslatedValidateDAG
open EinoV.GoSem EinoV.TransKahn
variable {V : Type} [Inhabited V]

theorem translated_source_is_current : FactsC20.validateDAGTranslated = true := by decide

/-- the Go constants the translated text compares with are the model's reserved keys -/
theorem translated_constants :
    TransC20.const_START = START ∧ TransC20.const_END = END ∧
    TransC20.const_START = EinoV.Engine.START ∧ TransC20.const_END = EinoV.Engine.END :=
  ⟨const_START_eq, const_END_eq, const_START_engine, const_END_engine⟩

/-- Go's `validateDAG` refines the model's: it returns (no panic, nothing unspecified), and it returns nil
    exactly when the model's verdict — for any iteration order — is "valid" -/
theorem translated_validateDAG_refines (ext : Ext V) (b : Builder) (chans : GoMap (TransC20.chanCall V))
    (preds : GoMap (List String)) (fuel : Nat) (ord : Ord) (hv : ord.Valid) (hk : KeysOK b)
    (hr : KahnRel b chans preds) (hf : b.nodes.length + 1 ≤ fuel) :
    ∃ e, TransC20.validateDAG ext fuel chans preds = GoOutcome.ret e ∧ (e = none ↔ validateDAG b ord = true) :=
  validateDAG_go_refines ext b chans preds fuel ord hv hk hr hf

/-- no nil dereference, no key added to `m` while it is ranged over, and the loop `for hasChanged {…}` stops
    within nodes + 1 rounds: every fuel from there on gives the same result -/
theorem translated_validateDAG_total (ext : Ext V) (b : Builder) (chans : GoMap (TransC20.chanCall V))
    (preds : GoMap (List String)) (fuel : Nat) (hk : KeysOK b) (hr : KahnRel b chans preds)
    (hf : b.nodes.length + 1 ≤ fuel) :
    TransC20.validateDAG ext fuel chans preds ≠ GoOutcome.panic ∧
    TransC20.validateDAG ext fuel chans preds ≠ GoOutcome.unspecified ∧
    ∀ fuel', b.nodes.length + 1 ≤ fuel' →
      TransC20.validateDAG ext fuel' chans preds = TransC20.validateDAG ext fuel chans preds :=
  validateDAG_go_total ext b chans preds fuel hk hr hf

/-- Go's text returns nil exactly when every node can be scheduled, i.e. when no cycle of control edges /
    branch targets reaches any node; a node on a cycle makes it return the error -/
theorem translated_validateDAG_sound_complete (ext : Ext V) (b : Builder) (chans : GoMap (TransC20.chanCall V))
    (preds : GoMap (List String)) (fuel : Nat) (hk : KeysOK b) (hr : KahnRel b chans preds)
    (hf : b.nodes.length + 1 ≤ fuel) :
    ∃ e, TransC20.validateDAG ext fuel chans preds = GoOutcome.ret e ∧
      (e = none ↔ ∀ k ∈ b.nodes.map (·.key), Sched b k) ∧
      (∀ k ∈ b.nodes.map (·.key), PredTC b k k → e = some (GoErr.mk "DAG invalid, node[%s] has loop")) := by
  obtain ⟨e, h1, h2⟩ := validateDAG_go_sound_complete ext b chans preds fuel hk hr hf
  refine ⟨e, h1, h2, fun k hkn hc => ?_⟩
  have h3 := validateDAG_go_rejects_cycles ext b chans preds fuel hk hr hf k hkn hc
  rw [h1] at h3
  exact GoOutcome.ret.inj h3

/-- the hypothesis `closed` of `KahnRel` is needed: a successor outside `chanSubscribeTo` leaves the translated
    semantics (Go would add a key to `m` while ranging over it) -/
example (ext : Ext Unit) :
    TransC20.validateDAG ext 2 [("a", { writeToBranches := [], controls := ["zz"] })] [] = GoOutcome.unspecified := rfl

/-- both verdicts, through the theorem, on Go maps stored in another order than the node list -/
example (ext : Ext Unit) (fuel : Nat) (hf : 4 ≤ fuel) :
    TransC20.validateDAG ext fuel exAcyclicChans exAcyclicPreds = GoOutcome.ret none ∧
    TransC20.validateDAG ext fuel exCyclicChans exCyclicPreds =
      GoOutcome.ret (some (GoErr.mk "DAG invalid, node[%s] has loop")) := by
  obtain ⟨e, h1, h2, _⟩ := translated_validateDAG_sound_complete ext exAcyclic _ _ fuel exAcyclic_ok exAcyclic_rel hf
  obtain ⟨e', h1', _, h3'⟩ := translated_validateDAG_sound_complete ext exCyclic _ _ fuel exCyclic_ok exCyclic_rel hf
  have hv : validateDAG exAcyclic Ord.id = true := by decide
  rw [h1, h1', h2.mpr ((kahn_sound_complete exAcyclic exAcyclic_ok Ord.id Ord.id_valid).mp hv),
    h3' "a" (by decide) (PredTC.step (q := "a") (p := "b") (k := "a") (PredTC.base (by decide) (by decide))
      (by decide) (by decide))]
  exact ⟨rfl, rfl⟩

end TranslatedValidateDAG

end EinoV.C20
