/-
  C05 — Interrupting and resuming a run is equivalent to running it uninterrupted.
  Property theorems.  Model: EinoV/Model/C05.lean (the run loop with interrupts, checkpoints and
  resume, built on Engine.lean).  Source facts: EinoV/Gen/FactsC05.lean (regenerated from /repo).

  Quantification: every runner (any topology, cycles; trigger mode as stated per theorem), every node
  body and state handler (arbitrary functions), every interrupt-before / interrupt-after set, every
  input, every completion order that invents no task, any number of interrupts and resume calls.

  FULL STATEMENT (DESIGN.md §4 C05), kept visible:
    resume_equiv : ∀ r x (interrupt sets at every nesting level, rerun-requesting nodes),
      let h := resumeUntilDone r x
      h.final = (run₀ r x).result ∧ execLog h ~ execLog (run₀ r x)
    where run₀ has interrupts off at every level and no rerun requests, and `~` ignores the aborted
    attempt of a rerun-requesting node.
  PROVED here: the statement for one graph level whose nodes do not themselves interrupt
  (`resume_equiv_single_level`; without side hypothesis in both trigger modes: `resume_equiv_pregel`,
  `resume_equiv_dag`),
  from the core lemmas `loop_from_checkpoint` and `interrupt_is_pause`; for the sub-graph / rerun
  interrupt only what is saved and restored (`sr_checkpoint_partial`, `sr_restore_partial`).
  MISSING for the full statement: (1) the compositional rule for nesting ("if every node body is
  resume-correct then so is the run"): it needs `fold_then_get = get_after_all`, i.e. that reporting the
  other finished tasks before the interrupt and the restored ones after the resume gives the channels
  of the uninterrupted superstep.  In any-predecessor mode reporting commutes; in all-predecessor mode
  the correspondence check shows it to be FALSE on the shipped code for a node reached from the same
  predecessor by an edge and by a branch (the C02 finding: skip and dependency are written in an
  order-dependent way) — recorded as known finding `C05:resume-equiv:edge+branch-same-pred`; outside
  that shape it is a confluence argument like C02's.  (2) rerun nodes, which relate two different node
  behaviours through the user's pre-handler.  (3) the Stream paradigm (`mixed_paradigm_resume`): not
  modelled.  All three are covered by the correspondence check only (harness/props/c05.go compares
  every resumed history, a part of them driven through Stream, with the uninterrupted run).
-/
import EinoV.Model.C05
import EinoV.Model.C05Eager
import EinoV.Model.GraphBuild
import EinoV.Proofs.C05
import EinoV.Proofs.C05Engine
import EinoV.Proofs.C05Resume
import EinoV.Gen.FactsC05
import EinoV.Expected.C05

namespace EinoV.C05
open EinoV.Engine EinoV.Interrupt EinoV.Gen

/-- Source fact tie. -/
theorem facts_match :
    FactsC05.createTasksForwardsStaleCP = Expected.C05.createTasksForwardsStaleCP ∧
    FactsC05.subGraphSavedWithSkipPre = Expected.C05.subGraphSavedWithSkipPre ∧
    FactsC05.rerunInputsSavedZero = Expected.C05.rerunInputsSavedZero ∧
    FactsC05.foldWithoutGet = Expected.C05.foldWithoutGet ∧
    FactsC05.checkpointStartEndPairsSet = Expected.C05.checkpointStartEndPairsSet ∧
    FactsC05.stepCounterRestartsOnResume = true ∧
    FactsC05.resumeBranches = 2 := by decide

/-- the run as the source has it: whether a resumed run's ctx keeps the checkpoint is the extracted
    fact; the C06 fact (tasks computed from START checked) is left arbitrary — every theorem below
    holds for both values -/
def srcCfg (initialChecked : Bool) : Cfg :=
  { initialTasksChecked := initialChecked, fwdStale := FactsC05.createTasksForwardsStaleCP }

theorem srcCfg_fresh (b : Bool) : (srcCfg b).fwdStale = false := by
  show FactsC05.createTasksForwardsStaleCP = false
  decide

variable {V S X : Type}

/-- **loop_from_checkpoint.** Resuming from the checkpoint `handleInterrupt` writes for a loop state
    (channels as they are after `get`, the inputs of the not yet submitted tasks before their
    pre-handlers, the state) continues exactly like the loop from that state: same result, same
    events — nothing completed is re-executed or lost, pending inputs, channel contents and state
    survive.  Only the step counter restarts (`r.base.fuel` is the full budget).
    For every runner, scheduler and loop state produced by a run without inherited checkpoint. -/
theorem loop_from_checkpoint (ops : ValOps V) (b : Bool) (r : IRunner V S X) (sched : ISched V S X)
    (isSub hasID : Bool) (ls : LoopSt V S X)
    (hf : ls.Fresh) (hk : ls.KeysOK r) (hnd : (akeys (initChans r.base)).Nodup) :
    runI ops (srcCfg b) r sched isSub hasID (.inr ls.toCP) = loopI ops r sched isSub hasID r.base.fuel ls := by
  simp only [runI, restore_toCP (srcCfg b) r ls (srcCfg_fresh b) hf hk hnd]

/-- **interrupt_is_pause.** One superstep of the run with interrupt points against the same
    superstep with the interrupt sets empty: same events; same result/failure; and where the
    reference loop goes on with state `ls'`, the interrupted run either goes on with `ls'` too or
    returns an interrupt whose checkpoint is exactly `ls'.toCP` (so that, by `loop_from_checkpoint`,
    the next call continues from `ls'`). -/
theorem interrupt_is_pause (ops : ValOps V) (r : IRunner V S X) (sched : ISched V S X) (Inv : Chans V → Prop)
    (hq : QuietUnder ops r.base Inv) (hnsr : NoSR r) (hsub : SchedSub sched)
    (ls : LoopSt V S X) (hf : ls.Fresh) (hk : ls.KeysOK r) (hinv : Inv ls.cm) :
    (stepI ops r sched ls).1 = (stepI ops r.plain sched ls).1 ∧
    (match (stepI ops r.plain sched ls).2 with
     | .done v => (stepI ops r sched ls).2 = .done v
     | .fail e => (stepI ops r sched ls).2 = .fail e
     | .intr _ _ => False
     | .next ls' => ls'.Fresh ∧ ls'.KeysOK r ∧ Inv ls'.cm ∧
        ((stepI ops r sched ls).2 = .next ls' ∨ ∃ info, (stepI ops r sched ls).2 = .intr ls'.toCP info)) :=
  stepI_sim ops r sched Inv hq hnsr hsub ls hf hk hinv

/-- **resume_equiv_single_level.** For a graph level whose nodes do not themselves interrupt
    (`NoSR`: no rerun request, no nested interrupt), with arbitrary interrupt-before/after sets: if
    the uninterrupted run returns within `n` supersteps (`n` below the step limit — the step counter
    restarts on resume, so nothing is claimed at the limit), then the history of calls with the same
    checkpoint id (enough calls: one per interrupt) ends with the same result or the same error, and
    all node-level events of the history — supersteps, node starts with their inputs (after the
    pre-handler), completions, nested blocks — are, in order, those of the uninterrupted run.
    `QuietUnder Inv` (on channel maps satisfying the run invariant `Inv`, the extra
    `calculateNextTasks` taken on the interrupt path changes nothing and yields no task) is discharged
    for any-predecessor mode in `resume_equiv_pregel` (no invariant needed) and for all-predecessor
    mode in `resume_equiv_dag` (invariant: every channel has a predecessor). -/
theorem resume_equiv_single_level (ops : ValOps V) (b : Bool) (r : IRunner V S X) (sched : ISched V S X)
    (Inv : Chans V → Prop)
    (hnd : (akeys (initChans r.base)).Nodup) (hq : QuietUnder ops r.base Inv) (hinit : Inv (initChans r.base))
    (hnsr : NoSR r) (hsub : SchedSub sched)
    (n calls : Nat) (x : V) (hfin : run₀FinishesIn ops r sched n x) (hn : n ≤ r.base.fuel) (hc : n + 1 ≤ calls) :
    (Out.finalOf (resumeUntilDone ops (srcCfg b) r sched calls x)).bind Res.final? =
        (run₀ ops (srcCfg b) r sched x).res.final? ∧
    (run₀ ops (srcCfg b) r sched x).res.final? ≠ none ∧
    obsEvs (allEvs (resumeUntilDone ops (srcCfg b) r sched calls x)) = obsEvs (run₀ ops (srcCfg b) r sched x).evs :=
  resume_equiv_top ops (srcCfg b) r sched Inv (srcCfg_fresh b) hnd hq hinit hnsr hsub n calls x hfin hn hc

/-- any-predecessor (Pregel) mode: the side hypothesis holds for every runner -/
theorem pregel_secondGetQuiet (ops : ValOps V) (base : Runner V) (hdag : base.dag = false) :
    SecondGetQuiet ops base :=
  fun cm done cm' ts _ h => ⟨trivial, pregel_quiet ops base hdag cm done cm' ts h⟩

/-- all-predecessor (DAG) mode: the side hypothesis holds on channel maps in which every channel
    has at least one control or data predecessor — an invariant of the run -/
theorem dag_quietUnder (ops : ValOps V) (base : Runner V) (hdag : base.dag = true) :
    QuietUnder ops base (AllP HasPred) :=
  fun cm done cm' ts hinv h => dag_quiet ops base hdag cm done cm' ts hinv h

/-- **resume_equiv_pregel.** `resume_equiv_single_level` for every any-predecessor runner (cyclic or
    not), with no side hypothesis on the channels. -/
theorem resume_equiv_pregel (ops : ValOps V) (b : Bool) (r : IRunner V S X) (sched : ISched V S X)
    (hdag : r.base.dag = false)
    (hnd : (akeys (initChans r.base)).Nodup) (hnsr : NoSR r) (hsub : SchedSub sched)
    (n calls : Nat) (x : V) (hfin : run₀FinishesIn ops r sched n x) (hn : n ≤ r.base.fuel) (hc : n + 1 ≤ calls) :
    (Out.finalOf (resumeUntilDone ops (srcCfg b) r sched calls x)).bind Res.final? =
        (run₀ ops (srcCfg b) r sched x).res.final? ∧
    (run₀ ops (srcCfg b) r sched x).res.final? ≠ none ∧
    obsEvs (allEvs (resumeUntilDone ops (srcCfg b) r sched calls x)) = obsEvs (run₀ ops (srcCfg b) r sched x).evs :=
  resume_equiv_single_level ops b r sched (fun _ => True) hnd (pregel_secondGetQuiet ops r.base hdag) trivial
    hnsr hsub n calls x hfin hn hc

/-- **resume_equiv_dag.** `resume_equiv_single_level` for every all-predecessor runner in which every
    node (and END) has at least one predecessor (what `compile` accepts), with no other side hypothesis. -/
theorem resume_equiv_dag (ops : ValOps V) (b : Bool) (r : IRunner V S X) (sched : ISched V S X)
    (hdag : r.base.dag = true) (hpred : AllP HasPred (initChans r.base))
    (hnd : (akeys (initChans r.base)).Nodup) (hnsr : NoSR r) (hsub : SchedSub sched)
    (n calls : Nat) (x : V) (hfin : run₀FinishesIn ops r sched n x) (hn : n ≤ r.base.fuel) (hc : n + 1 ≤ calls) :
    (Out.finalOf (resumeUntilDone ops (srcCfg b) r sched calls x)).bind Res.final? =
        (run₀ ops (srcCfg b) r sched x).res.final? ∧
    (run₀ ops (srcCfg b) r sched x).res.final? ≠ none ∧
    obsEvs (allEvs (resumeUntilDone ops (srcCfg b) r sched calls x)) = obsEvs (run₀ ops (srcCfg b) r sched x).evs :=
  resume_equiv_single_level ops b r sched (AllP HasPred) hnd (dag_quietUnder ops r.base hdag) hpred
    hnsr hsub n calls x hfin hn hc

/-- **fresh_after_resume.** A task created by `createTasks` never receives a nested checkpoint: in a
    call on a fresh input no superstep hands one down, and in a resumed call only the first superstep
    (the restored tasks) does.  True because the resumed run's ctx no longer carries the checkpoint
    (source fact `createTasksForwardsStaleCP = false`). -/
theorem fresh_after_resume (ops : ValOps V) (b : Bool) (r : IRunner V S X) (sched : ISched V S X) (isSub hasID : Bool) :
    (∀ x, StepsFresh (topSteps (runI ops (srcCfg b) r sched isSub hasID (.inl x)).evs)) ∧
    (∀ cp, StepsFresh (topSteps (runI ops (srcCfg b) r sched isSub hasID (.inr cp)).evs).tail) :=
  runI_steps_fresh ops (srcCfg b) r sched isSub hasID (srcCfg_fresh b)

/-- **sr_checkpoint_partial** (sub-graph / rerun interrupt — partial result towards the full
    `resume_equiv`): the checkpoint written when a nested graph interrupted or a node asked to be
    re-run restores exactly the nodes the interrupt reports (RerunNodes / SubGraphs), each with the
    zero input; SkipPreHandler holds exactly the interrupted nested graphs; their checkpoints are
    stored under their keys; the state is the reported state. -/
theorem sr_checkpoint_partial (ops : ValOps V) (r : IRunner V S X) (sched : ISched V S X) (ls : LoopSt V S X)
    (cp : Checkpoint V S X) (info : Info S X) (h : (stepI ops r sched ls).2 = .intr cp info)
    (hsr : info.subs ≠ [] ∨ info.rerun ≠ []) :
    cp.subs = info.subs ∧ cp.skipPre = info.subs.map (·.1) ∧ cp.state = info.state ∧
    (∀ p ∈ cp.inputs, p.2 = ops.zero) ∧
    (∀ k ∈ cp.inputs.map (·.1), k ∈ info.rerun ∨ k ∈ info.subs.map (·.1)) :=
  stepI_sr_shape ops r sched ls cp info h hsr

/-- **sr_restore_partial**: on resume, the tasks rebuilt from such a checkpoint get the zero input;
    the pre-handler is skipped and the nested checkpoint handed down exactly for the nested graphs
    that interrupted (a rerun node runs its pre-handler again, which rebuilds the input from state). -/
theorem sr_restore_partial (zero : V) (inputs : List (Key × V)) (subs : List (Key × X))
    (hz : ∀ p ∈ inputs, p.2 = zero) :
    ∀ t ∈ restoreTasks inputs (subs.map (·.1)) subs,
      t.input = zero ∧ (t.skipPre = true ↔ t.key ∈ subs.map (·.1)) ∧ (t.sub.isSome ↔ t.key ∈ subs.map (·.1)) :=
  restoreTasks_sr zero inputs subs hz

/-! ### non-vacuity and the negation witness -/

def natOps : ValOps Nat := { merge := fun l => some l.sum, zero := 0 }

/-- start → a → b → end and b → a (a cycle left through the step limit or never: here b → end
    is an edge too, so END is reached after b), interrupt-before {b}, interrupt-after {a} -/
def lin : IRunner Nat Nat Unit :=
  { base := compile 10 { nodes := [("a", fun v => .ok v), ("b", fun v => .ok v)],
                         edges := [(START, "a"), ("a", "b"), ("b", END)], branches := [] },
    inodes := [{ key := "a", body := fun v s _ => { res := .done (v + 1) (s + 1) },
                 pre := some (fun v s => (v + s, s)) },
               { key := "b", body := fun v s _ => { res := .done (v * 2) s },
                 post := some (fun v s => (v + s, s + 10)) }],
    intBefore := ["b"], intAfter := ["a"], initState := 5 }

def fixedCfg : Cfg := { initialTasksChecked := true, fwdStale := false }

def finalVal (h : List (Out Nat Nat Unit)) : Option Nat :=
  match Out.finalOf h with | some (.done v) => some v | _ => none
def execsOf (h : List (Out Nat Nat Unit)) : List (Key × Nat) := execLog (allEvs h)

/-- the hypotheses of `resume_equiv_pregel` are satisfiable by a run that does interrupt -/
example : (resumeUntilDone natOps fixedCfg lin ISched.id 10 1).length = 2 := by decide
example : finalVal (resumeUntilDone natOps fixedCfg lin ISched.id 10 1) = some 20 := by decide
example : finalVal [run₀ natOps fixedCfg lin ISched.id 1] = some 20 := by decide
example : execsOf (resumeUntilDone natOps fixedCfg lin ISched.id 10 1) = [("a", 6), ("b", 7)] := by decide
example : execsOf [run₀ natOps fixedCfg lin ISched.id 1] = [("a", 6), ("b", 7)] := by decide
example : lin.base.dag = false := rfl
example : (akeys (initChans lin.base)).Nodup := by decide
example : NoSR lin := by
  intro n hn v s x
  simp only [lin, List.mem_cons, List.not_mem_nil, or_false] at hn
  rcases hn with rfl | rfl <;> exact ⟨fun s' h => by simp at h, fun y s' h => by simp at h⟩
example : SchedSub (ISched.id (V := Nat) (S := Nat) (X := Unit)) := fun _ _ h => h
example : run₀FinishesIn natOps lin ISched.id 2 1 := run₀FinishesIn_of_B _ _ _ _ _ (by decide)
example : (2 : Nat) ≤ lin.base.fuel := by decide

/-- all-predecessor mode: start → a → b, start → b, b → end; interrupt-after {a}: at the interrupt
    b's channel still holds START's output -/
def dagJoin : IRunner Nat Nat Unit :=
  { base := compile 10 { dag := true, nodes := [("a", fun v => .ok v), ("b", fun v => .ok v)],
                         edges := [(START, "a"), ("a", "b"), (START, "b"), ("b", END)], branches := [] },
    inodes := [{ key := "a", body := fun v s _ => { res := .done (v + 1) s } },
               { key := "b", body := fun v s _ => { res := .done (v * 2) s } }],
    intAfter := ["a"], initState := 0 }

/-- the hypotheses of `resume_equiv_dag` are satisfiable by a run that does interrupt -/
example : dagJoin.base.dag = true := rfl
example : AllP HasPred (initChans dagJoin.base) := allP_hasPred_of_all _ (by decide)
example : (akeys (initChans dagJoin.base)).Nodup := by decide
example : (resumeUntilDone natOps fixedCfg dagJoin ISched.id 10 1).length = 2 := by decide
example : finalVal (resumeUntilDone natOps fixedCfg dagJoin ISched.id 10 1) = some 6 := by decide
example : finalVal [run₀ natOps fixedCfg dagJoin ISched.id 1] = some 6 := by decide
example : run₀FinishesIn natOps dagJoin ISched.id 2 1 :=
  run₀FinishesIn_of_B natOps dagJoin ISched.id 2 1 (by decide +kernel)

/-- a cycle through a node that behaves like a nested graph: `s` interrupts inside when it starts
    from an input, and completes when it is resumed from its nested checkpoint; s → s -/
def cyc : IRunner Nat Unit Nat :=
  { base := compile 10 { nodes := [("s", fun v => .ok v)], edges := [(START, "s"), ("s", "s")], branches := [], maxSteps := 3 },
    inodes := [{ key := "s", body := fun v st sub =>
      match sub with
      | some x => { res := .done (v + x) st }
      | none => { res := .subInt 7 st } }],
    initState := () }

def staleCfg : Cfg := { initialTasksChecked := true, fwdStale := true }

/-- supersteps (with the "handed a nested checkpoint" flag) of the call that resumes the first interrupt -/
def secondCallSteps (cfg : Cfg) : List (List (Key × Bool)) :=
  match (runI natOps cfg cyc ISched.id false true (.inl 1)).res with
  | .interrupted cp _ => topSteps (runI natOps cfg cyc ISched.id false true (.inr cp)).evs
  | _ => []

/-- repaired code: the second execution of `s` in the resumed call starts fresh (and interrupts again) -/
example : secondCallSteps fixedCfg = [[("s", true)], [("s", false)]] := by decide

/-- **Negation witness for the code before the repair** (`createTasksForwardsStaleCP = true`): every
    later execution of `s` in the resumed call is handed the old nested checkpoint again — `s` is
    re-run from the stale checkpoint until the step limit. -/
theorem stale_checkpoint_reapplied :
    ¬ StepsFresh (topSteps (match (runI natOps staleCfg cyc ISched.id false true (.inl 1)).res with
        | .interrupted cp _ => runI natOps staleCfg cyc ISched.id false true (.inr cp)
        | _ => { res := .done 0, evs := [] }).evs).tail := by
  have h : topSteps (match (runI natOps staleCfg cyc ISched.id false true (.inl 1)).res with
        | .interrupted cp _ => runI natOps staleCfg cyc ISched.id false true (.inr cp)
        | _ => { res := .done 0, evs := [] }).evs = [[("s", true)], [("s", true)], [("s", true)]] := by decide
  rw [h]
  intro hf
  have := hf [("s", true)] (by simp) ("s", true) (by simp)
  simp at this

/-! ## Eager mode (Workflows): the interrupt site after `tm.waitAll()`

  Model: EinoV/Model/C05Eager.lean (`callLoop`, `secondSite`, `historyE`), reference run:
  `EinoV.Engine.runEager` (Model/C02Workflow.lean).

  FULL STATEMENT for eager mode, kept visible (NOT proved):
    resume_equiv_eager : ∀ r (DagWF r.base) pick x calls, (historyE ops .pending r pick calls x) completes →
      (historyE ops .pending r pick calls x).final = (runEager ops r.base pick' x).result  for every pick'
      ∧ (historyE …).execs ~ (runEager …).submitted                       (as multisets)
  MISSING: that folding the drained tasks without `get` and taking the ready channels at the first
  `calculateNextTasks` after the resume yields the tasks the uninterrupted eager loop submits one
  completion at a time (a confluence argument over `calcNext`, as for C02's run-level theorems).
  What IS machine-checked here: the tie of the source fact, what the repaired site persists, and the
  negation witnesses showing that the two other variants of the site are NOT resume-equivalent
  (replayed on the real code: replays/C05-witness-eager-*.json).  On generated workflows the statement
  is checked on the implementation (harness/props/c05_eager.go) and, for the model's `pending`
  variant, by the oracle under several completion schedules. -/
section Eager
open EinoV.Interrupt.Eager

/-- **Source fact tie for the eager drain site.**  `0` = the shipped code
    (`append(completedTasks, newCompletedTasks...)`, next tasks dropped: the recorded finding, see
    `eager_refold_loses_join` / `eager_refold_loses_carried_ready`), `2` = the repaired site
    (fixes/C05-eager-drain-pending.diff).  `1` (only the drained tasks, next tasks dropped) is the
    regression `eager_drainedOnly_loses_successor` refutes; any other shape is unknown to the model. -/
theorem eager_drain_fact_recognised :
    FactsC05.eagerDrainSave = 0 ∨ FactsC05.eagerDrainSave = 2 := by decide

/-- What the repaired site persists is the paused loop state: the channels after every task collected
    so far (`cm'` already contains the first batch, the drained ones are folded in), the tasks already
    computed but not submitted (`ts`), and the aborting tasks — nothing is dropped, nothing is folded
    twice.  (Definitional; the equivalence with the uninterrupted loop is the unproved part.) -/
theorem eager_second_site_pending_partial (r : Runner V) (cm' : Chans V) (o : Done V) (ts : List (Key × V))
    (d : Drained V) :
    secondSite .pending r cm' o ts d =
      (match foldDone r cm' d.others with
       | .error e => .error e
       | .ok cm2 => .ok { chans := cm2, inputs := ts ++ d.aborting, att := d.att }) := rfl

/-- a resumed call continues the eager loop from exactly what was persisted -/
theorem eager_resume_from_checkpoint (ops : ValOps V) (save : DrainSave) (r : EIRunner V) (pick : Pick V) (cp : ECp V) :
    callE ops save r pick (.inr cp) = callLoop ops save r pick r.base.eagerFuel cp.chans cp.inputs cp.att [] := rfl

/-- START → a, START → j, a → j (join, interrupt-before), START → s (aborts once); j, s → END -/
def wJoin : EIRunner Nat :=
  { base := compileW natOps
      { nodes := [("a", fun v => .ok (v + 1)), ("j", fun v => .ok (v * 2)), ("s", fun v => .ok (v + 10))],
        deps := [.input START "a", .input START "j", .input "a" "j", .input START "s", .input "j" END, .input "s" END],
        branches := [] },
    intBefore := ["j"], aborts := [("s", 1)] }

/-- START → a → b (interrupt-before), START → s (aborts once); b, s → END -/
def wSingle : EIRunner Nat :=
  { base := compileW natOps
      { nodes := [("a", fun v => .ok (v + 1)), ("b", fun v => .ok (v * 2)), ("s", fun v => .ok (v + 10))],
        deps := [.input START "a", .input "a" "b", .input START "s", .input "b" END, .input "s" END],
        branches := [] },
    intBefore := ["b"], aborts := [("s", 1)] }

/-- like `wSingle` with a second aborting sibling r (aborts twice) -/
def wCarried : EIRunner Nat :=
  { base := compileW natOps
      { nodes := [("a", fun v => .ok (v + 1)), ("b", fun v => .ok (v * 2)), ("s", fun v => .ok (v + 10)), ("r", fun v => .ok (v + 100))],
        deps := [.input START "a", .input "a" "b", .input START "s", .input START "r",
                 .input "b" END, .input "s" END, .input "r" END],
        branches := [] },
    intBefore := ["b"], aborts := [("s", 1), ("r", 2)] }

/-- completion schedule: `a` finishes first, otherwise the oldest task -/
def aFirst : Pick Nat := fun l => (l.findIdx? (fun t => t.1 == "a")).getD 0

def okOfE (o : EOutcome Nat) : Option Nat := match o.result with | .ok v => some v | .error _ => none

/-- **Negation witness for the shipped site** (`eagerDrainSave = 0`): a join whose other predecessor
    (START) reported in an earlier step is lost — the run ends with `no tasks to execute`, the
    uninterrupted run returns 17 (replays/C05-witness-eager-join-lost.json on the real code). -/
theorem eager_refold_loses_join :
    (historyE natOps .refold wJoin aFirst 6 1).final.errCls? = some .noTasks ∧
    ¬ ("j" ∈ (historyE natOps .refold wJoin aFirst 6 1).execs.map (·.1)) ∧
    okOfE (runEager natOps wJoin.base aFirst 1) = some 17 := by decide

/-- second manifestation of the shipped site: a node carried *ready* in the channels of the previous
    checkpoint is not a successor of the first batch at all (two aborting siblings;
    replays/C05-witness-eager-carried-ready-lost.json) -/
theorem eager_refold_loses_carried_ready :
    (historyE natOps .refold wCarried aFirst 8 1).final.errCls? = some .noTasks ∧
    ¬ ("b" ∈ (historyE natOps .refold wCarried aFirst 8 1).execs.map (·.1)) ∧
    okOfE (runEager natOps wCarried.base aFirst 1) = some 116 := by decide

/-- **Negation witness for the regression** (`eagerDrainSave = 1`): already the single-predecessor
    successor of the task that finished first is lost (the shipped site gets this one right) -/
theorem eager_drainedOnly_loses_successor :
    (historyE natOps .drainedOnly wSingle aFirst 6 1).final.errCls? = some .noTasks ∧
    ¬ ("b" ∈ (historyE natOps .drainedOnly wSingle aFirst 6 1).execs.map (·.1)) ∧
    (historyE natOps .refold wSingle aFirst 6 1).final.val? = okOfE (runEager natOps wSingle.base aFirst 1) ∧
    okOfE (runEager natOps wSingle.base aFirst 1) = some 15 := by decide

/-- the repaired site is resume-equivalent on all three witnesses: same result, same executions as the
    uninterrupted eager run (non-vacuity: each history does interrupt) -/
theorem eager_pending_equiv_on_witnesses :
    (historyE natOps .pending wJoin aFirst 6 1).final.val? = okOfE (runEager natOps wJoin.base aFirst 1) ∧
    (historyE natOps .pending wSingle aFirst 6 1).final.val? = okOfE (runEager natOps wSingle.base aFirst 1) ∧
    (historyE natOps .pending wCarried aFirst 8 1).final.val? = okOfE (runEager natOps wCarried.base aFirst 1) ∧
    (historyE natOps .pending wJoin aFirst 6 1).execs = [("a", 1), ("j", 3), ("s", 1)] ∧
    (runEager natOps wJoin.base aFirst 1).submitted = [("a", 1), ("s", 1), ("j", 3)] ∧
    (historyE natOps .pending wJoin aFirst 6 1).calls = 2 ∧
    (historyE natOps .pending wCarried aFirst 8 1).calls = 3 := by decide

end Eager

end EinoV.C05
