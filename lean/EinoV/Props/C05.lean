/-
  C05 — Interrupting and resuming a run is equivalent to running it uninterrupted.
  Property theorems.  Model: EinoV/Model/C05.lean (the run loop with interrupts, checkpoints and
  resume, built on Engine.lean).  Source facts: EinoV/Gen/FactsC05.lean (regenerated from /repo).

  Quantification: every runner (any topology, cycles; trigger mode as stated per theorem), every node
  body and state handler (arbitrary functions), every interrupt-before / interrupt-after set, every
  input, every completion order that invents no task, any number of interrupts and resume calls.

  FULL STATEMENT (DESIGN.md §4 C05), kept visible:
    resume_equiv : ∀ r x (interrupt sets at every nesting level, rerun-requesting nodes),
      let h := resumeUntilDone r x
      h.final = (run₀ r x).result ∧ execLog h ~ execLog (run₀ r x)
    where run₀ has interrupts off at every level and no rerun requests, and `~` ignores the aborted
    attempt of a rerun-requesting node.
  PROVED here: the statement for one graph level whose nodes do not themselves interrupt
  (`resume_equiv_single_level`; without side hypothesis in both trigger modes: `resume_equiv_pregel`,
  `resume_equiv_dag`),
  from the core lemmas `loop_from_checkpoint` and `interrupt_is_pause`; for the sub-graph / rerun
  interrupt only what is saved and restored (`sr_checkpoint_partial`, `sr_restore_partial`).
  UPDATE (sections "Nested graphs" and "Rerun nodes" at the end of this file): the compositional rule
  for nesting is now proved — `resume_equiv_nested` / `resume_equiv_nested_bounded` for every nesting
  depth, from `fold_then_get = get_after_all` (`SplitOK`), which is proved for any-predecessor levels
  (`split_rule_pregel`, `fold_then_get_pregel`) and is a stated hypothesis for all-predecessor levels
  (the edge+branch-same-pred counterexample is repaired on the pinned tree: known_findings/C05.json).
  STILL MISSING for the full statement: (1) all-predecessor levels: there `SplitOK` does not hold with
  *equal* channel maps (a channel that waits for further predecessors keeps the values it has in
  arrival order, a channel skipped later keeps values written earlier), only up to an equivalence of
  channel maps that `get` cannot observe — the simulation would have to be carried out up to that
  equivalence (a confluence argument like C02's); (2) rerun nodes, which relate two different node behaviours through the
  user's pre-handler and the state (only what is restored is proved: `rerun_restores_exactly`,
  `rerun_input_rebuilt`); (3) the stream paradigms (`mixed_paradigm_resume`): modelled only as far as they
  differ observably from the value paradigm in the case language — the stream without chunks, section
  "Streams" at the end of this file: the checkpoint round trip of a stream keeps "no chunk" / the merged
  chunks (`checkpoint_preserves_chunkless_stream`, `checkpoint_preserves_observed_stream`, for the
  converter as the source has it), a history whose calls all run in one mode is the `resumeLoop` the
  theorems above speak about (`one_mode_history_is_resume_loop`), so `resume_equiv_*` apply to stream-mode
  histories over a value universe that contains the chunk-less stream; a value-mode call resuming a
  stream-mode checkpoint (or vice versa) has no theorem; (4) failing
  runs with nested interrupts (the error reported depends on the completion order).  These are covered
  by the correspondence check only (harness/props/c05.go compares every resumed history, a part of them
  driven through Stream, with the uninterrupted run).
-/
import EinoV.Model.C05
import EinoV.Model.C05Eager
import EinoV.Model.GraphBuild
import EinoV.Proofs.C05
import EinoV.Proofs.C05Engine
import EinoV.Proofs.C05Resume
import EinoV.Model.C05Nested
import EinoV.Proofs.C05Nested
import EinoV.Proofs.C05NestedEngine
import EinoV.Proofs.C05NestedDepth
import EinoV.Proofs.C06Nested
import EinoV.Proofs.C05NestedExamples
import EinoV.Model.C05Streams
import EinoV.Proofs.C05Streams
import EinoV.Gen.FactsC05
import EinoV.Expected.C05
import EinoV.Proofs.TransCp

namespace EinoV.C05
open EinoV.Engine EinoV.Interrupt EinoV.Gen

/-- Source fact tie. -/
theorem facts_match :
    FactsC05.createTasksForwardsStaleCP = Expected.C05.createTasksForwardsStaleCP ∧
    FactsC05.subGraphSavedWithSkipPre = Expected.C05.subGraphSavedWithSkipPre ∧
    FactsC05.rerunInputsSavedZero = Expected.C05.rerunInputsSavedZero ∧
    FactsC05.foldWithoutGet = Expected.C05.foldWithoutGet ∧
    FactsC05.checkpointStartEndPairsSet = Expected.C05.checkpointStartEndPairsSet ∧
    FactsC05.stepCounterRestartsOnResume = true ∧
    FactsC05.resumeBranches = 2 := by decide

/-- the run as the source has it: whether a resumed run's ctx keeps the checkpoint is the extracted
    fact; the C06 fact (tasks computed from START checked) is left arbitrary — every theorem below
    holds for both values -/
def srcCfg (initialChecked : Bool) : Cfg :=
  { initialTasksChecked := initialChecked, fwdStale := FactsC05.createTasksForwardsStaleCP }

theorem srcCfg_fresh (b : Bool) : (srcCfg b).fwdStale = false := by
  show FactsC05.createTasksForwardsStaleCP = false
  decide

variable {V S X : Type}

/-- **loop_from_checkpoint.** Resuming from the checkpoint `handleInterrupt` writes for a loop state
    (channels as they are after `get`, the inputs of the not yet submitted tasks before their
    pre-handlers, the state) continues exactly like the loop from that state: same result, same
    events — nothing completed is re-executed or lost, pending inputs, channel contents and state
    survive.  Only the step counter restarts (`r.base.fuel` is the full budget).
    For every runner, scheduler and loop state produced by a run without inherited checkpoint. -/
theorem loop_from_checkpoint (ops : ValOps V) (b : Bool) (r : IRunner V S X) (sched : ISched V S X)
    (isSub hasID : Bool) (ls : LoopSt V S X)
    (hf : ls.Fresh) (hk : ls.KeysOK r) (hnd : (akeys (initChans r.base)).Nodup) :
    runI ops (srcCfg b) r sched isSub hasID (.inr ls.toCP) = loopI ops r sched isSub hasID r.base.fuel ls := by
  simp only [runI, restore_toCP (srcCfg b) r ls (srcCfg_fresh b) hf hk hnd]

/-- **interrupt_is_pause.** One superstep of the run with interrupt points against the same
    superstep with the interrupt sets empty: same events; same result/failure; and where the
    reference loop goes on with state `ls'`, the interrupted run either goes on with `ls'` too or
    returns an interrupt whose checkpoint is exactly `ls'.toCP` (so that, by `loop_from_checkpoint`,
    the next call continues from `ls'`). -/
theorem interrupt_is_pause (ops : ValOps V) (r : IRunner V S X) (sched : ISched V S X) (Inv : Chans V → Prop)
    (hq : QuietUnder ops r.base Inv) (hnsr : NoSR r) (hsub : SchedSub sched)
    (ls : LoopSt V S X) (hf : ls.Fresh) (hk : ls.KeysOK r) (hinv : Inv ls.cm) :
    (stepI ops r sched ls).1 = (stepI ops r.plain sched ls).1 ∧
    (match (stepI ops r.plain sched ls).2 with
     | .done v => (stepI ops r sched ls).2 = .done v
     | .fail e => (stepI ops r sched ls).2 = .fail e
     | .intr _ _ => False
     | .next ls' => ls'.Fresh ∧ ls'.KeysOK r ∧ Inv ls'.cm ∧
        ((stepI ops r sched ls).2 = .next ls' ∨ ∃ info, (stepI ops r sched ls).2 = .intr ls'.toCP info)) :=
  stepI_sim ops r sched Inv hq hnsr hsub ls hf hk hinv

/-- **resume_equiv_single_level.** For a graph level whose nodes do not themselves interrupt
    (`NoSR`: no rerun request, no nested interrupt), with arbitrary interrupt-before/after sets: if
    the uninterrupted run returns within `n` supersteps (`n` below the step limit — the step counter
    restarts on resume, so nothing is claimed at the limit), then the history of calls with the same
    checkpoint id (enough calls: one per interrupt) ends with the same result or the same error, and
    all node-level events of the history — supersteps, node starts with their inputs (after the
    pre-handler), completions, nested blocks — are, in order, those of the uninterrupted run.
    `QuietUnder Inv` (on channel maps satisfying the run invariant `Inv`, the extra
    `calculateNextTasks` taken on the interrupt path changes nothing and yields no task) is discharged
    for any-predecessor mode in `resume_equiv_pregel` (no invariant needed) and for all-predecessor
    mode in `resume_equiv_dag` (invariant: every channel has a predecessor). -/
theorem resume_equiv_single_level (ops : ValOps V) (b : Bool) (r : IRunner V S X) (sched : ISched V S X)
    (Inv : Chans V → Prop)
    (hnd : (akeys (initChans r.base)).Nodup) (hq : QuietUnder ops r.base Inv) (hinit : Inv (initChans r.base))
    (hnsr : NoSR r) (hsub : SchedSub sched)
    (n calls : Nat) (x : V) (hfin : run₀FinishesIn ops r sched n x) (hn : n ≤ r.base.fuel) (hc : n + 1 ≤ calls) :
    (Out.finalOf (resumeUntilDone ops (srcCfg b) r sched calls x)).bind Res.final? =
        (run₀ ops (srcCfg b) r sched x).res.final? ∧
    (run₀ ops (srcCfg b) r sched x).res.final? ≠ none ∧
    obsEvs (allEvs (resumeUntilDone ops (srcCfg b) r sched calls x)) = obsEvs (run₀ ops (srcCfg b) r sched x).evs :=
  resume_equiv_top ops (srcCfg b) r sched Inv (srcCfg_fresh b) hnd hq hinit hnsr hsub n calls x hfin hn hc

/-- any-predecessor (Pregel) mode: the side hypothesis holds for every runner -/
theorem pregel_secondGetQuiet (ops : ValOps V) (base : Runner V) (hdag : base.dag = false) :
    SecondGetQuiet ops base :=
  fun cm done cm' ts _ h => ⟨trivial, pregel_quiet ops base hdag cm done cm' ts h⟩

/-- all-predecessor (DAG) mode: the side hypothesis holds on channel maps in which every channel
    has at least one control or data predecessor — an invariant of the run -/
theorem dag_quietUnder (ops : ValOps V) (base : Runner V) (hdag : base.dag = true) :
    QuietUnder ops base (AllP HasPred) :=
  fun cm done cm' ts hinv h => dag_quiet ops base hdag cm done cm' ts hinv h

/-- **resume_equiv_pregel.** `resume_equiv_single_level` for every any-predecessor runner (cyclic or
    not), with no side hypothesis on the channels. -/
theorem resume_equiv_pregel (ops : ValOps V) (b : Bool) (r : IRunner V S X) (sched : ISched V S X)
    (hdag : r.base.dag = false)
    (hnd : (akeys (initChans r.base)).Nodup) (hnsr : NoSR r) (hsub : SchedSub sched)
    (n calls : Nat) (x : V) (hfin : run₀FinishesIn ops r sched n x) (hn : n ≤ r.base.fuel) (hc : n + 1 ≤ calls) :
    (Out.finalOf (resumeUntilDone ops (srcCfg b) r sched calls x)).bind Res.final? =
        (run₀ ops (srcCfg b) r sched x).res.final? ∧
    (run₀ ops (srcCfg b) r sched x).res.final? ≠ none ∧
    obsEvs (allEvs (resumeUntilDone ops (srcCfg b) r sched calls x)) = obsEvs (run₀ ops (srcCfg b) r sched x).evs :=
  resume_equiv_single_level ops b r sched (fun _ => True) hnd (pregel_secondGetQuiet ops r.base hdag) trivial
    hnsr hsub n calls x hfin hn hc

/-- **resume_equiv_dag.** `resume_equiv_single_level` for every all-predecessor runner in which every
    node (and END) has at least one predecessor (what `compile` accepts), with no other side hypothesis. -/
theorem resume_equiv_dag (ops : ValOps V) (b : Bool) (r : IRunner V S X) (sched : ISched V S X)
    (hdag : r.base.dag = true) (hpred : AllP HasPred (initChans r.base))
    (hnd : (akeys (initChans r.base)).Nodup) (hnsr : NoSR r) (hsub : SchedSub sched)
    (n calls : Nat) (x : V) (hfin : run₀FinishesIn ops r sched n x) (hn : n ≤ r.base.fuel) (hc : n + 1 ≤ calls) :
    (Out.finalOf (resumeUntilDone ops (srcCfg b) r sched calls x)).bind Res.final? =
        (run₀ ops (srcCfg b) r sched x).res.final? ∧
    (run₀ ops (srcCfg b) r sched x).res.final? ≠ none ∧
    obsEvs (allEvs (resumeUntilDone ops (srcCfg b) r sched calls x)) = obsEvs (run₀ ops (srcCfg b) r sched x).evs :=
  resume_equiv_single_level ops b r sched (AllP HasPred) hnd (dag_quietUnder ops r.base hdag) hpred
    hnsr hsub n calls x hfin hn hc

/-- **fresh_after_resume.** A task created by `createTasks` never receives a nested checkpoint: in a
    call on a fresh input no superstep hands one down, and in a resumed call only the first superstep
    (the restored tasks) does.  True because the resumed run's ctx no longer carries the checkpoint
    (source fact `createTasksForwardsStaleCP = false`). -/
theorem fresh_after_resume (ops : ValOps V) (b : Bool) (r : IRunner V S X) (sched : ISched V S X) (isSub hasID : Bool) :
    (∀ x, StepsFresh (topSteps (runI ops (srcCfg b) r sched isSub hasID (.inl x)).evs)) ∧
    (∀ cp, StepsFresh (topSteps (runI ops (srcCfg b) r sched isSub hasID (.inr cp)).evs).tail) :=
  runI_steps_fresh ops (srcCfg b) r sched isSub hasID (srcCfg_fresh b)

/-- **sr_checkpoint_partial** (sub-graph / rerun interrupt — partial result towards the full
    `resume_equiv`): the checkpoint written when a nested graph interrupted or a node asked to be
    re-run restores exactly the nodes the interrupt reports (RerunNodes / SubGraphs), each with the
    zero input; SkipPreHandler holds exactly the interrupted nested graphs; their checkpoints are
    stored under their keys; the state is the reported state. -/
theorem sr_checkpoint_partial (ops : ValOps V) (r : IRunner V S X) (sched : ISched V S X) (ls : LoopSt V S X)
    (cp : Checkpoint V S X) (info : Info S X) (h : (stepI ops r sched ls).2 = .intr cp info)
    (hsr : info.subs ≠ [] ∨ info.rerun ≠ []) :
    cp.subs = info.subs ∧ cp.skipPre = info.subs.map (·.1) ∧ cp.state = info.state ∧
    (∀ p ∈ cp.inputs, p.2 = ops.zero) ∧
    (∀ k ∈ cp.inputs.map (·.1), k ∈ info.rerun ∨ k ∈ info.subs.map (·.1)) :=
  stepI_sr_shape ops r sched ls cp info h hsr

/-- **sr_restore_partial**: on resume, the tasks rebuilt from such a checkpoint get the zero input;
    the pre-handler is skipped and the nested checkpoint handed down exactly for the nested graphs
    that interrupted (a rerun node runs its pre-handler again, which rebuilds the input from state). -/
theorem sr_restore_partial (zero : V) (inputs : List (Key × V)) (subs : List (Key × X))
    (hz : ∀ p ∈ inputs, p.2 = zero) :
    ∀ t ∈ restoreTasks inputs (subs.map (·.1)) subs,
      t.input = zero ∧ (t.skipPre = true ↔ t.key ∈ subs.map (·.1)) ∧ (t.sub.isSome ↔ t.key ∈ subs.map (·.1)) :=
  restoreTasks_sr zero inputs subs hz

/-! ### non-vacuity and the negation witness -/

def natOps : ValOps Nat := { merge := fun l => some l.sum, zero := 0 }

/-- start → a → b → end and b → a (a cycle left through the step limit or never: here b → end
    is an edge too, so END is reached after b), interrupt-before {b}, interrupt-after {a} -/
def lin : IRunner Nat Nat Unit :=
  { base := compile 10 { nodes := [("a", fun v => .ok v), ("b", fun v => .ok v)],
                         edges := [(START, "a"), ("a", "b"), ("b", END)], branches := [] },
    inodes := [{ key := "a", body := fun v s _ => { res := .done (v + 1) (s + 1) },
                 pre := some (fun v s => (v + s, s)) },
               { key := "b", body := fun v s _ => { res := .done (v * 2) s },
                 post := some (fun v s => (v + s, s + 10)) }],
    intBefore := ["b"], intAfter := ["a"], initState := 5 }

def fixedCfg : Cfg := { initialTasksChecked := true, fwdStale := false }

def finalVal (h : List (Out Nat Nat Unit)) : Option Nat :=
  match Out.finalOf h with | some (.done v) => some v | _ => none
def execsOf (h : List (Out Nat Nat Unit)) : List (Key × Nat) := execLog (allEvs h)

/-- the hypotheses of `resume_equiv_pregel` are satisfiable by a run that does interrupt -/
example : (resumeUntilDone natOps fixedCfg lin ISched.id 10 1).length = 2 := by decide
example : finalVal (resumeUntilDone natOps fixedCfg lin ISched.id 10 1) = some 20 := by decide
example : finalVal [run₀ natOps fixedCfg lin ISched.id 1] = some 20 := by decide
example : execsOf (resumeUntilDone natOps fixedCfg lin ISched.id 10 1) = [("a", 6), ("b", 7)] := by decide
example : execsOf [run₀ natOps fixedCfg lin ISched.id 1] = [("a", 6), ("b", 7)] := by decide
example : lin.base.dag = false := rfl
example : (akeys (initChans lin.base)).Nodup := by decide
example : NoSR lin := by
  intro n hn v s x
  simp only [lin, List.mem_cons, List.not_mem_nil, or_false] at hn
  rcases hn with rfl | rfl <;> exact ⟨fun s' h => by simp at h, fun y s' h => by simp at h⟩
example : SchedSub (ISched.id (V := Nat) (S := Nat) (X := Unit)) := fun _ _ h => h
example : run₀FinishesIn natOps lin ISched.id 2 1 := run₀FinishesIn_of_B _ _ _ _ _ (by decide)
example : (2 : Nat) ≤ lin.base.fuel := by decide

/-- all-predecessor mode: start → a → b, start → b, b → end; interrupt-after {a}: at the interrupt
    b's channel still holds START's output -/
def dagJoin : IRunner Nat Nat Unit :=
  { base := compile 10 { dag := true, nodes := [("a", fun v => .ok v), ("b", fun v => .ok v)],
                         edges := [(START, "a"), ("a", "b"), (START, "b"), ("b", END)], branches := [] },
    inodes := [{ key := "a", body := fun v s _ => { res := .done (v + 1) s } },
               { key := "b", body := fun v s _ => { res := .done (v * 2) s } }],
    intAfter := ["a"], initState := 0 }

/-- the hypotheses of `resume_equiv_dag` are satisfiable by a run that does interrupt -/
example : dagJoin.base.dag = true := rfl
example : AllP HasPred (initChans dagJoin.base) := allP_hasPred_of_all _ (by decide)
example : (akeys (initChans dagJoin.base)).Nodup := by decide
example : (resumeUntilDone natOps fixedCfg dagJoin ISched.id 10 1).length = 2 := by decide
example : finalVal (resumeUntilDone natOps fixedCfg dagJoin ISched.id 10 1) = some 6 := by decide
example : finalVal [run₀ natOps fixedCfg dagJoin ISched.id 1] = some 6 := by decide
example : run₀FinishesIn natOps dagJoin ISched.id 2 1 :=
  run₀FinishesIn_of_B natOps dagJoin ISched.id 2 1 (by decide +kernel)

/-- a cycle through a node that behaves like a nested graph: `s` interrupts inside when it starts
    from an input, and completes when it is resumed from its nested checkpoint; s → s -/
def cyc : IRunner Nat Unit Nat :=
  { base := compile 10 { nodes := [("s", fun v => .ok v)], edges := [(START, "s"), ("s", "s")], branches := [], maxSteps := 3 },
    inodes := [{ key := "s", body := fun v st sub =>
      match sub with
      | some x => { res := .done (v + x) st }
      | none => { res := .subInt 7 st } }],
    initState := () }

def staleCfg : Cfg := { initialTasksChecked := true, fwdStale := true }

/-- supersteps (with the "handed a nested checkpoint" flag) of the call that resumes the first interrupt -/
def secondCallSteps (cfg : Cfg) : List (List (Key × Bool)) :=
  match (runI natOps cfg cyc ISched.id false true (.inl 1)).res with
  | .interrupted cp _ => topSteps (runI natOps cfg cyc ISched.id false true (.inr cp)).evs
  | _ => []

/-- repaired code: the second execution of `s` in the resumed call starts fresh (and interrupts again) -/
example : secondCallSteps fixedCfg = [[("s", true)], [("s", false)]] := by decide

/-- **Negation witness for the code before the repair** (`createTasksForwardsStaleCP = true`): every
    later execution of `s` in the resumed call is handed the old nested checkpoint again — `s` is
    re-run from the stale checkpoint until the step limit. -/
theorem stale_checkpoint_reapplied :
    ¬ StepsFresh (topSteps (match (runI natOps staleCfg cyc ISched.id false true (.inl 1)).res with
        | .interrupted cp _ => runI natOps staleCfg cyc ISched.id false true (.inr cp)
        | _ => { res := .done 0, evs := [] }).evs).tail := by
  have h : topSteps (match (runI natOps staleCfg cyc ISched.id false true (.inl 1)).res with
        | .interrupted cp _ => runI natOps staleCfg cyc ISched.id false true (.inr cp)
        | _ => { res := .done 0, evs := [] }).evs = [[("s", true)], [("s", true)], [("s", true)]] := by decide
  rw [h]
  intro hf
  have := hf [("s", true)] (by simp) ("s", true) (by simp)
  simp at this

/-! ## Eager mode (Workflows): the interrupt site after `tm.waitAll()`

  Model: EinoV/Model/C05Eager.lean (`callLoop`, `secondSite`, `historyE`), reference run:
  `EinoV.Engine.runEager` (Model/C02Workflow.lean).

  FULL STATEMENT for eager mode, kept visible (NOT proved):
    resume_equiv_eager : ∀ r (DagWF r.base) pick x calls, (historyE ops .pending r pick calls x) completes →
      (historyE ops .pending r pick calls x).final = (runEager ops r.base pick' x).result  for every pick'
      ∧ (historyE …).execs ~ (runEager …).submitted                       (as multisets)
  MISSING: that folding the drained tasks without `get` and taking the ready channels at the first
  `calculateNextTasks` after the resume yields the tasks the uninterrupted eager loop submits one
  completion at a time (a confluence argument over `calcNext`, as for C02's run-level theorems).
  What IS machine-checked here: the tie of the source fact, what the repaired site persists, and the
  negation witnesses showing that the two other variants of the site are NOT resume-equivalent
  (replayed on the real code: replays/C05-witness-eager-*.json).  On generated workflows the statement
  is checked on the implementation (harness/props/c05_eager.go) and, for the model's `pending`
  variant, by the oracle under several completion schedules. -/
section Eager
open EinoV.Interrupt.Eager

/-- **Source fact tie for the eager drain site.**  `0` = the shipped code
    (`append(completedTasks, newCompletedTasks...)`, next tasks dropped: the recorded finding, see
    `eager_refold_loses_join` / `eager_refold_loses_carried_ready`), `2` = the repaired site
    (fixes/C05-eager-drain-pending.diff).  `1` (only the drained tasks, next tasks dropped) is the
    regression `eager_drainedOnly_loses_successor` refutes; any other shape is unknown to the model. -/
theorem eager_drain_fact_recognised :
    FactsC05.eagerDrainSave = 0 ∨ FactsC05.eagerDrainSave = 2 := by decide

/-- What the repaired site persists is the paused loop state: the channels after every task collected
    so far (`cm'` already contains the first batch, the drained ones are folded in), the tasks already
    computed but not submitted (`ts`), and the aborting tasks — nothing is dropped, nothing is folded
    twice.  (Definitional; the equivalence with the uninterrupted loop is the unproved part.) -/
theorem eager_second_site_pending_partial (r : Runner V) (cm' : Chans V) (o : Done V) (ts : List (Key × V))
    (d : Drained V) :
    secondSite .pending r cm' o ts d =
      (match foldDone r cm' d.others with
       | .error e => .error e
       | .ok cm2 => .ok { chans := cm2, inputs := ts ++ d.aborting, att := d.att }) := rfl

/-- a resumed call continues the eager loop from exactly what was persisted -/
theorem eager_resume_from_checkpoint (ops : ValOps V) (save : DrainSave) (r : EIRunner V) (pick : Pick V) (cp : ECp V) :
    callE ops save r pick (.inr cp) = callLoop ops save r pick r.base.eagerFuel cp.chans cp.inputs cp.att [] := rfl

/-- START → a, START → j, a → j (join, interrupt-before), START → s (aborts once); j, s → END -/
def wJoin : EIRunner Nat :=
  { base := compileW natOps
      { nodes := [("a", fun v => .ok (v + 1)), ("j", fun v => .ok (v * 2)), ("s", fun v => .ok (v + 10))],
        deps := [.input START "a", .input START "j", .input "a" "j", .input START "s", .input "j" END, .input "s" END],
        branches := [] },
    intBefore := ["j"], aborts := [("s", 1)] }

/-- START → a → b (interrupt-before), START → s (aborts once); b, s → END -/
def wSingle : EIRunner Nat :=
  { base := compileW natOps
      { nodes := [("a", fun v => .ok (v + 1)), ("b", fun v => .ok (v * 2)), ("s", fun v => .ok (v + 10))],
        deps := [.input START "a", .input "a" "b", .input START "s", .input "b" END, .input "s" END],
        branches := [] },
    intBefore := ["b"], aborts := [("s", 1)] }

/-- like `wSingle` with a second aborting sibling r (aborts twice) -/
def wCarried : EIRunner Nat :=
  { base := compileW natOps
      { nodes := [("a", fun v => .ok (v + 1)), ("b", fun v => .ok (v * 2)), ("s", fun v => .ok (v + 10)), ("r", fun v => .ok (v + 100))],
        deps := [.input START "a", .input "a" "b", .input START "s", .input START "r",
                 .input "b" END, .input "s" END, .input "r" END],
        branches := [] },
    intBefore := ["b"], aborts := [("s", 1), ("r", 2)] }

/-- completion schedule: `a` finishes first, otherwise the oldest task -/
def aFirst : Pick Nat := fun l => (l.findIdx? (fun t => t.1 == "a")).getD 0

def okOfE (o : EOutcome Nat) : Option Nat := match o.result with | .ok v => some v | .error _ => none

/-- **Negation witness for the shipped site** (`eagerDrainSave = 0`): a join whose other predecessor
    (START) reported in an earlier step is lost — the run ends with `no tasks to execute`, the
    uninterrupted run returns 17 (replays/C05-witness-eager-join-lost.json on the real code). -/
theorem eager_refold_loses_join :
    (historyE natOps .refold wJoin aFirst 6 1).final.errCls? = some .noTasks ∧
    ¬ ("j" ∈ (historyE natOps .refold wJoin aFirst 6 1).execs.map (·.1)) ∧
    okOfE (runEager natOps wJoin.base aFirst 1) = some 17 := by decide

/-- second manifestation of the shipped site: a node carried *ready* in the channels of the previous
    checkpoint is not a successor of the first batch at all (two aborting siblings;
    replays/C05-witness-eager-carried-ready-lost.json) -/
theorem eager_refold_loses_carried_ready :
    (historyE natOps .refold wCarried aFirst 8 1).final.errCls? = some .noTasks ∧
    ¬ ("b" ∈ (historyE natOps .refold wCarried aFirst 8 1).execs.map (·.1)) ∧
    okOfE (runEager natOps wCarried.base aFirst 1) = some 116 := by decide

/-- **Negation witness for the regression** (`eagerDrainSave = 1`): already the single-predecessor
    successor of the task that finished first is lost (the shipped site gets this one right) -/
theorem eager_drainedOnly_loses_successor :
    (historyE natOps .drainedOnly wSingle aFirst 6 1).final.errCls? = some .noTasks ∧
    ¬ ("b" ∈ (historyE natOps .drainedOnly wSingle aFirst 6 1).execs.map (·.1)) ∧
    (historyE natOps .refold wSingle aFirst 6 1).final.val? = okOfE (runEager natOps wSingle.base aFirst 1) ∧
    okOfE (runEager natOps wSingle.base aFirst 1) = some 15 := by decide

/-- the repaired site is resume-equivalent on all three witnesses: same result, same executions as the
    uninterrupted eager run (non-vacuity: each history does interrupt) -/
theorem eager_pending_equiv_on_witnesses :
    (historyE natOps .pending wJoin aFirst 6 1).final.val? = okOfE (runEager natOps wJoin.base aFirst 1) ∧
    (historyE natOps .pending wSingle aFirst 6 1).final.val? = okOfE (runEager natOps wSingle.base aFirst 1) ∧
    (historyE natOps .pending wCarried aFirst 8 1).final.val? = okOfE (runEager natOps wCarried.base aFirst 1) ∧
    (historyE natOps .pending wJoin aFirst 6 1).execs = [("a", 1), ("j", 3), ("s", 1)] ∧
    (runEager natOps wJoin.base aFirst 1).submitted = [("a", 1), ("s", 1), ("j", 3)] ∧
    (historyE natOps .pending wJoin aFirst 6 1).calls = 2 ∧
    (historyE natOps .pending wCarried aFirst 8 1).calls = 3 := by decide

end Eager

/-! ## Nested graphs: interrupts inside graph nodes, at every nesting depth

  Model: EinoV/Model/C05Nested.lean — `subBody` (the body of a node that is a compiled graph: the nested
  `runner.run` as a sub-graph, started from the input or from the nested checkpoint the parent stored
  under `SubGraphs[key]`; the body Oracle/C05GraphCase.lean builds for a `"graph"` node, up to the
  input-key / empty-stream wrappers of the keyed family),
  `NR d` (graphs nested `d` deep: nodes are functions or graphs of `NR (d-1)`, each level with its own
  interrupt-before/after sets, state, handlers, completion order), `NR.toI` (the compiled runner),
  `NR.deepPlain` (interrupt sets emptied at every level: the uninterrupted reference), `NR.leafLog` (the
  executions of the function nodes of all levels: node path and input after the pre-handler).
  Proofs: Proofs/C05Nested.lean (one level: `step_sim`, `loop_sim`, `call_sim`, `subBody_sim`),
  Proofs/C05NestedDepth.lean (induction on the depth, the history of calls, the split rule),
  Proofs/C05NestedEngine.lean (the engine facts in any-predecessor mode).

  FULL STATEMENT, kept visible:
    resume_equiv_nested_full : ∀ d (nr : NR d) sched x calls, calls > (number of interrupts the run can take) →
      finalOf (resumeUntilDone (toI nr) sched calls x) = (run₀ (toI (deepPlain nr)) sched x).res   (value or error)
      ∧ leafLog (history) ~ leafLog (run₀ …)
  PROVED (`resume_equiv_nested`, `resume_equiv_nested_bounded`): the statement for every depth, every interrupt-before/after set at
  every level, every topology and handler, every completion order that is a permutation, any number of
  interrupts, whenever the uninterrupted run returns a value and the history is continued until it no
  longer ends in an interrupt; per level under `LevelHyp` (distinct channel keys, the mode invariant, and
  the split rule `SplitOK`).  `SplitOK` is proved for every any-predecessor level with an
  order-insensitive merge and commuting post-handlers (`split_rule_pregel`), and in general from
  `FoldThenGet` + `CalcNextPerm` + `PostsCommute` (`split_rule_of`).
  The number of calls is bounded by the work of the uninterrupted run (`resume_terminates_nested`,
  `resume_equiv_nested_bounded`).
  MISSING for the full statement: (1) runs in which the uninterrupted run fails: which error is
  reported depends on the completion order, and an interrupted graph node fails only after its resume,
  so the history's error is one the uninterrupted run reports under *some* completion order, not under
  the same one; (2) all-predecessor levels: `FoldThenGet` / `CalcNextPerm` hold there only up to an
  equivalence of channel maps that `get` cannot observe (pending values in arrival order, contents of
  channels skipped later), not with equal channel maps as `SplitOK` demands — the theorems below are
  stated for any level satisfying `SplitOK`, which is proved for any-predecessor levels only; (3) executions are compared as
  multisets (`List.Perm`): tasks of a superstep run concurrently and the resumed graph node logs its
  remaining executions in a later call.  Rerun nodes: see the section below. -/
section Nested
open EinoV.Interrupt

variable {V S X : Type}

/-- **nested_call_sim** (one call, every nesting depth).  If the uninterrupted reference — started on
    the same input, or *from the same checkpoint* — returns `v`, then the call of the run with interrupt
    points at every level returns `v` with the same function-node executions, or returns an interrupt
    whose checkpoint (carrying the nested checkpoints of the interrupted graph nodes under their keys) is
    acceptable and from which the reference returns `v`, the reference's executions being those of this
    call plus those of the reference from that checkpoint: "the uninterrupted run = this call, then
    the uninterrupted run from the checkpoint" — and the work left (`NR.work`: supersteps of the
    reference at all levels, plus one per run started on a fresh input) is strictly smaller than before
    the call.  It never fails.  By induction on the depth
    (`NR.call_sim`); the step from a nested runner to the node containing it is `subBody_sim`. -/
theorem nested_call_sim (ops : ValOps V) (b : Bool) (cd : SubCodec V S X)
    (hcd : ∀ cp info, cd.cp (cd.pack cp info) = cp)
    (d : Nat) (nr : NR V S X d) (sched : ISched V S X) (hyp : NR.Hyp ops (srcCfg b) cd d nr sched)
    (isSub hasID s0 h0 : Bool) (v : V) (inp : V ⊕ Checkpoint V S X)
    (hinp : InpOK (srcCfg b) (NR.toI ops (srcCfg b) cd d nr) (NR.xok ops (srcCfg b) cd d nr) inp)
    (href : (runI ops (srcCfg b) (NR.toI ops (srcCfg b) cd d (NR.deepPlain d nr)) sched s0 h0 inp).res = .done v) :
    SimOut ops (srcCfg b) (NR.isFn d nr) (NR.xok ops (srcCfg b) cd d nr) (NR.clog d nr) (NR.wt ops (srcCfg b) cd d nr)
      (NR.toI ops (srcCfg b) cd d nr) (NR.toI ops (srcCfg b) cd d (NR.deepPlain d nr)) sched s0 h0 v
      (levelLog (NR.isFn d nr) (NR.clog d nr)
        (runI ops (srcCfg b) (NR.toI ops (srcCfg b) cd d (NR.deepPlain d nr)) sched s0 h0 inp).evs)
      (NR.work ops (srcCfg b) cd d nr sched inp)
      (runI ops (srcCfg b) (NR.toI ops (srcCfg b) cd d nr) sched isSub hasID inp) :=
  NR.call_sim ops (srcCfg b) cd hcd (srcCfg_fresh b) d nr sched hyp isSub hasID s0 h0 v inp hinp href

/-- **resume_equiv_nested.**  For a graph nested to any depth `d`, with interrupt-before/after sets at
    every level (so that graph nodes interrupt inside, any number of times, and the parent's checkpoint
    carries the nested checkpoints): if the uninterrupted run (interrupt sets emptied at every level)
    returns `v`, then every history of calls with the same checkpoint id that no longer ends in an
    interrupt ends with `v` — it does not fail — and the function nodes of all levels are executed, over
    the whole history, exactly as often and on exactly the inputs (after their pre-handlers) as in the
    uninterrupted run (`List.Perm` of the logs of (node path, input)).  Nothing completed is
    re-executed, nothing is lost.  For every completion order that is a permutation, at every level. -/
theorem resume_equiv_nested (ops : ValOps V) (b : Bool) (cd : SubCodec V S X)
    (hcd : ∀ cp info, cd.cp (cd.pack cp info) = cp)
    (d : Nat) (nr : NR V S X d) (sched : ISched V S X) (hyp : NR.Hyp ops (srcCfg b) cd d nr sched)
    (calls : Nat) (x v : V)
    (href : (run₀ ops (srcCfg b) (NR.toI ops (srcCfg b) cd d (NR.deepPlain d nr)) sched x).res = .done v)
    (res : Res V S X)
    (hfin : Out.finalOf (resumeUntilDone ops (srcCfg b) (NR.toI ops (srcCfg b) cd d nr) sched calls x) = some res)
    (hne : res.final? ≠ none) :
    res = .done v ∧
    (NR.leafLog d nr (run₀ ops (srcCfg b) (NR.toI ops (srcCfg b) cd d (NR.deepPlain d nr)) sched x).evs).Perm
      (NR.leafLog d nr (allEvs (resumeUntilDone ops (srcCfg b) (NR.toI ops (srcCfg b) cd d nr) sched calls x))) :=
  NR.resume_equiv ops (srcCfg b) cd hcd (srcCfg_fresh b) d nr sched hyp calls x v href res hfin hne

/-- **resume_terminates_nested.**  The history completes: the work of the uninterrupted run
    (`NR.work`, a number computed from the reference run alone) bounds the number of interrupts, at
    whatever levels they are taken; a caller that allows more calls than that ends with a result. -/
theorem resume_terminates_nested (ops : ValOps V) (b : Bool) (cd : SubCodec V S X)
    (hcd : ∀ cp info, cd.cp (cd.pack cp info) = cp)
    (d : Nat) (nr : NR V S X d) (sched : ISched V S X) (hyp : NR.Hyp ops (srcCfg b) cd d nr sched)
    (calls : Nat) (x v : V)
    (href : (run₀ ops (srcCfg b) (NR.toI ops (srcCfg b) cd d (NR.deepPlain d nr)) sched x).res = .done v)
    (hc : NR.work ops (srcCfg b) cd d nr sched (.inl x) < calls) :
    ∃ res, Out.finalOf (resumeUntilDone ops (srcCfg b) (NR.toI ops (srcCfg b) cd d nr) sched calls x) = some res ∧
      res.final? ≠ none :=
  NR.resume_terminates ops (srcCfg b) cd hcd (srcCfg_fresh b) d nr sched hyp calls x v href hc

/-- **resume_equiv_nested_bounded.**  Both together, in the shape of `resume_equiv_single_level`: enough
    calls (more than the work of the uninterrupted run), then the history ends with the value of the
    uninterrupted run and executes the function nodes of all levels exactly as the uninterrupted run. -/
theorem resume_equiv_nested_bounded (ops : ValOps V) (b : Bool) (cd : SubCodec V S X)
    (hcd : ∀ cp info, cd.cp (cd.pack cp info) = cp)
    (d : Nat) (nr : NR V S X d) (sched : ISched V S X) (hyp : NR.Hyp ops (srcCfg b) cd d nr sched)
    (calls : Nat) (x v : V)
    (href : (run₀ ops (srcCfg b) (NR.toI ops (srcCfg b) cd d (NR.deepPlain d nr)) sched x).res = .done v)
    (hc : NR.work ops (srcCfg b) cd d nr sched (.inl x) < calls) :
    Out.finalOf (resumeUntilDone ops (srcCfg b) (NR.toI ops (srcCfg b) cd d nr) sched calls x) = some (.done v) ∧
    (NR.leafLog d nr (run₀ ops (srcCfg b) (NR.toI ops (srcCfg b) cd d (NR.deepPlain d nr)) sched x).evs).Perm
      (NR.leafLog d nr (allEvs (resumeUntilDone ops (srcCfg b) (NR.toI ops (srcCfg b) cd d nr) sched calls x))) := by
  obtain ⟨res, h1, h2⟩ := resume_terminates_nested ops b cd hcd d nr sched hyp calls x v href hc
  obtain ⟨h3, h4⟩ := resume_equiv_nested ops b cd hcd d nr sched hyp calls x v href res h1 h2
  exact ⟨by rw [h1, h3], h4⟩

/-- **resume_equiv_nested_pregel.**  `resume_equiv_nested_bounded` with every hypothesis about the engine
    discharged: for a graph nested to any depth whose levels are all any-predecessor (Pregel) levels —
    any topology, cycles, branches, fan-in — with distinct channel keys, completion orders that are
    permutations, commuting post-handlers at every level, and a merge that does not depend on the order
    of its arguments. -/
theorem resume_equiv_nested_pregel (ops : ValOps V) (hm : MergePerm ops) (b : Bool) (cd : SubCodec V S X)
    (hcd : ∀ cp info, cd.cp (cd.pack cp info) = cp)
    (d : Nat) (nr : NR V S X d) (sched : ISched V S X) (hyp : NR.PregelHyp ops (srcCfg b) cd d nr sched)
    (calls : Nat) (x v : V)
    (href : (run₀ ops (srcCfg b) (NR.toI ops (srcCfg b) cd d (NR.deepPlain d nr)) sched x).res = .done v)
    (hc : NR.work ops (srcCfg b) cd d nr sched (.inl x) < calls) :
    Out.finalOf (resumeUntilDone ops (srcCfg b) (NR.toI ops (srcCfg b) cd d nr) sched calls x) = some (.done v) ∧
    (NR.leafLog d nr (run₀ ops (srcCfg b) (NR.toI ops (srcCfg b) cd d (NR.deepPlain d nr)) sched x).evs).Perm
      (NR.leafLog d nr (allEvs (resumeUntilDone ops (srcCfg b) (NR.toI ops (srcCfg b) cd d nr) sched calls x))) :=
  resume_equiv_nested_bounded ops b cd hcd d nr sched (NR.hyp_of_pregel ops hm (srcCfg b) cd d nr sched hyp) calls x v href hc

/-- **nesting_step.**  The inductive step in isolation, for any two runners (not only those of the
    family `NR`): if the calls of a nested runner `c` simulate those of `c₀` (`CallSim`, the statement of
    `nested_call_sim`), then the graph node containing `c` simulates the graph node containing `c₀`
    (`BodySim`, what `call_sim` assumes of the node bodies of the parent level). -/
theorem nesting_step (ops : ValOps V) (cfg : Cfg) (cd : SubCodec V S X) (hcd : ∀ cp info, cd.cp (cd.pack cp info) = cp)
    (isFn : Key → Bool) (XOK : Key → X → Prop) (clog : Key → List (Ev V S X) → Log V)
    (wt : Key → V → S → Option X → Nat)
    (c c₀ : IRunner V S X) (sc : ISched V S X) (k : Key) (h : CallSim ops cfg isFn XOK clog wt c c₀ sc) :
    BodySim (fun p => LsOK c XOK (restore cfg c (cd.cp p))) (fun evs => pfxLog k (levelLog isFn clog evs))
      (fun v _ x => callWt ops cfg wt c₀ sc (subInp cd v x))
      (subBody ops cfg cd c sc) (subBody ops cfg cd c₀ sc) :=
  subBody_sim ops cfg cd hcd isFn XOK clog wt c c₀ sc k h

/-- **split_rule_pregel.**  The per-level hypothesis `SplitOK` ("post-handlers of the tasks finished
    before the nested interrupt, fold without `get`, then the resumed graph nodes and
    `calculateNextTasks` = post-handlers of all and `calculateNextTasks`") holds for every
    any-predecessor level — any topology, cycles, branches, fan-in — when merging does not depend on the
    order of its arguments and the post-handlers of different nodes commute.  Engine part:
    `pregel_fold_then_get`, `pregel_calcNext_perm` (Proofs/C05NestedEngine.lean). -/
theorem split_rule_pregel (ops : ValOps V) (hm : MergePerm ops) (r : IRunner V S X) (hdag : r.base.dag = false)
    (hc : PostsCommute r) : SplitOK ops r :=
  pregel_splitOK ops hm r hdag hc

/-- **split_rule_of.**  In either trigger mode the split rule follows from three facts about the level:
    fold-then-get = get-after-all (`FoldThenGet`), order-insensitivity of one `calculateNextTasks`
    (`CalcNextPerm`), commuting post-handlers. -/
theorem split_rule_of (ops : ValOps V) (r : IRunner V S X) (hf : FoldThenGet ops r.base) (hp : CalcNextPerm ops r.base)
    (hc : PostsCommute r) : SplitOK ops r :=
  splitOK_of ops r hf hp hc

/-- **fold_then_get_pregel.**  The compositional rule of the sub-graph interrupt path, any-predecessor
    mode, every runner and channel map: folding the tasks that finished before the interrupt into the
    channels without `get` and reporting the resumed ones later gives exactly the channels and next tasks
    of reporting all of them at once. -/
theorem fold_then_get_pregel (ops : ValOps V) (base : Runner V) (hdag : base.dag = false) : FoldThenGet ops base :=
  fun cm D1 D2 cm' nx _ h => pregel_fold_then_get ops base hdag cm D1 D2 cm' nx h

/-! ### non-vacuity: nested runners that do interrupt inside, two and three levels deep

  The runners (`inner`: start → a → c → end with interrupt-after {a}, interrupt-before {c}; `outer`:
  start → g, start → p; g, p → j → end where `g` is the graph `inner` and interrupt-before {j}; `outer2`:
  start → h → end, start → q → end where `h` is the graph `outer`, interrupt-after {q}, completion order
  reversed) and the proofs of their hypotheses (`outer_hyp`, `outer2_hyp`) are in
  Proofs/C05NestedExamples.lean. -/
open EinoV.NestedEx (Pay payCodec inner outer outer2 revSched outer_hyp outer2_hyp)

def finalValP (h : List (Out Nat Nat Pay)) : Option Nat :=
  match Out.finalOf h with | some (.done v) => some v | _ => none
/-- 1: the call returned an interrupt -/
def kindsP (h : List (Out Nat Nat Pay)) : List Nat :=
  h.map (fun o => match o.res with | .done _ => 0 | .interrupted .. => 1 | .failed _ => 2)

/-- the hypotheses of `resume_equiv_nested` hold for `outer` (two levels) and `outer2` (three levels); the
    histories do interrupt — inside the nested graphs — and complete with the value of the
    uninterrupted run; the executions are a permutation (not the same order) of the uninterrupted ones -/
example : payCodec.cp (payCodec.pack cp info) = cp := rfl
example : kindsP (resumeUntilDone natOps fixedCfg (NR.toI natOps fixedCfg payCodec 1 outer) ISched.id 10 1) = [1, 1, 0] := by decide
example : finalValP (resumeUntilDone natOps fixedCfg (NR.toI natOps fixedCfg payCodec 1 outer) ISched.id 10 1) = some 120 := by decide
example : finalValP [run₀ natOps fixedCfg (NR.toI natOps fixedCfg payCodec 1 (NR.deepPlain 1 outer)) ISched.id 1] = some 120 := by decide
example : NR.leafLog 1 outer (allEvs (resumeUntilDone natOps fixedCfg (NR.toI natOps fixedCfg payCodec 1 outer) ISched.id 10 1)) =
    [(["g", "a"], 1), (["p"], 1), (["g", "c"], 2), (["j"], 15)] := by decide
example : NR.leafLog 1 outer (run₀ natOps fixedCfg (NR.toI natOps fixedCfg payCodec 1 (NR.deepPlain 1 outer)) ISched.id 1).evs =
    [(["g", "a"], 1), (["g", "c"], 2), (["p"], 1), (["j"], 15)] := by decide
example : kindsP (resumeUntilDone natOps fixedCfg (NR.toI natOps fixedCfg payCodec 2 outer2) revSched 10 1) = [1, 1, 0] := by decide
example : NR.leafLog 2 outer2 (allEvs (resumeUntilDone natOps fixedCfg (NR.toI natOps fixedCfg payCodec 2 outer2) revSched 10 1)) =
    [(["h", "g", "a"], 1), (["h", "p"], 1), (["q"], 1), (["h", "g", "c"], 2), (["h", "j"], 15)] := by decide
example : finalValP (resumeUntilDone natOps fixedCfg (NR.toI natOps fixedCfg payCodec 2 outer2) revSched 10 1) =
    finalValP [run₀ natOps fixedCfg (NR.toI natOps fixedCfg payCodec 2 (NR.deepPlain 2 outer2)) revSched 1] := by decide

/-- all hypotheses of `resume_equiv_nested_bounded` at once, on the three-level runner: any number of calls
    above the bound `NR.work` (which evaluates to 8 here; the history takes 2 interrupts) -/
example (n : Nat) (hn : NR.work natOps (srcCfg true) payCodec 2 outer2 revSched (.inl 1) < n) :
    Out.finalOf (resumeUntilDone natOps (srcCfg true) (NR.toI natOps (srcCfg true) payCodec 2 outer2) revSched n 1) =
      some (.done 1121) :=
  (resume_equiv_nested_bounded natOps true payCodec (fun _ _ => rfl) 2 outer2 revSched outer2_hyp n 1 1121 rfl hn).1

/-- all hypotheses of `resume_equiv_nested` at once, on the three-level runner: whatever the history
    (10 calls allowed) ends with, if it is not an interrupt it is the value of the uninterrupted run -/
example (res : Res Nat Nat Pay)
    (hfin : Out.finalOf (resumeUntilDone natOps (srcCfg true) (NR.toI natOps (srcCfg true) payCodec 2 outer2) revSched 10 1) = some res)
    (hne : res.final? ≠ none) : res = .done 1121 :=
  (resume_equiv_nested natOps true payCodec (fun _ _ => rfl) 2 outer2 revSched outer2_hyp 10 1 1121 rfl res hfin hne).1

end Nested

/-! ## Rerun nodes: a node that asks to be interrupted and re-run

  FULL STATEMENT, kept visible (NOT proved):
    resume_equiv_rerun : a history in which nodes return `InterruptAndRerun` ends like the run of the same
      graph with the rerun requests removed, and executes the same nodes on the same inputs apart from the
      aborted attempts.
  PROVED: what the resume does with such a node — `rerun_restores_exactly` (the checkpoint restores
  exactly the nodes that asked for a rerun and the graph nodes that interrupted inside, each on the
  zero input; the tasks that completed in the interrupted superstep are folded into the channels and
  are not started again) and `rerun_input_rebuilt` (the restored task has no nested checkpoint and its
  pre-handler is *not* skipped: the body starts on what the pre-handler makes of the zero input and the
  restored state — the input it had, if the pre-handler rebuilds it from the state).
  MISSING: the aborted attempt and the re-execution necessarily communicate through the state (in a
  deterministic model a node can only stop asking for a rerun because the state changed), so the
  states of the history and of the run without rerun requests differ by that bookkeeping for ever
  after; the equivalence holds only *up to a relation on states* that every handler and body respects.
  `call_sim` is stated with equal states; its relational version (same structure, `LsOK` with related
  states, handlers and bodies assumed to respect the relation, the rerun node's second execution
  assumed to return what the execution without request returns) is not done.  The correspondence check
  covers it (≈960 rerun histories per quick run, states compared modulo the attempt counters). -/
section Rerun
open EinoV.Interrupt

variable {V S X : Type}

/-- **rerun_restores_exactly.**  When a superstep ends in an interrupt because nodes asked for a rerun
    (or graph nodes interrupted inside): every such node is reported (RerunNodes / SubGraphs with its
    payload); the checkpoint restores exactly these nodes, each on the zero input, with SkipPreHandler
    exactly for the graph nodes — no node that completed in the superstep is started again by the resume
    (its output is already folded into the channels, `sr_checkpoint_partial`).  For every completion
    order that loses no task. -/
theorem rerun_restores_exactly (ops : ValOps V) (r : IRunner V S X) (sched : ISched V S X) (hk : SchedKeeps sched)
    (ls : LoopSt V S X) (cp : Checkpoint V S X) (info : Info S X) (h : (stepI ops r sched ls).2 = .intr cp info) :
    (∀ k s, (k, BodyRes.rerun s) ∈ (runBodies r (runPres r ls.tasks ls.st).1 (runPres r ls.tasks ls.st).2).1 →
      k ∈ info.rerun) ∧
    (∀ k p s, (k, BodyRes.subInt p s) ∈ (runBodies r (runPres r ls.tasks ls.st).1 (runPres r ls.tasks ls.st).2).1 →
      (k, p) ∈ info.subs) ∧
    ((info.subs ≠ [] ∨ info.rerun ≠ []) →
      (∀ k, k ∈ cp.inputs.map (·.1) ↔ (k ∈ info.rerun ∨ k ∈ info.subs.map (·.1))) ∧
      (∀ q ∈ cp.inputs, q.2 = ops.zero) ∧ cp.skipPre = info.subs.map (·.1)) :=
  stepI_sr_complete ops r sched hk ls cp info h

/-- **rerun_input_rebuilt.**  The task the resume builds for a node that asked for a rerun (a restored
    key that is not a SubGraphs key): zero input, pre-handler not skipped, no nested checkpoint; and its
    pre-handler `h` turns it into a task on `(h zero st).1` — the body of the re-execution starts on what
    the pre-handler rebuilds from the restored state (`st`: the state when the pre-handler runs). -/
theorem rerun_input_rebuilt (r : IRunner V S X) (zero : V) (inputs : List (Key × V)) (subs : List (Key × X)) (k : Key)
    (hin : ∀ q ∈ inputs, q.2 = zero) (hnsub : k ∉ subs.map (·.1))
    (n : INode V S X) (h : V → S → V × S) (hn : r.inode? k = some n) (hp : n.pre = some h) :
    (∀ t ∈ restoreTasks inputs (subs.map (·.1)) subs, t.key = k →
      t = { key := k, input := zero, skipPre := false, sub := none }) ∧
    (∀ st, preOne r { key := k, input := zero, skipPre := false, sub := none } st =
      ({ key := k, input := (h zero st).1, skipPre := false, sub := none }, (h zero st).2)) :=
  ⟨restoreTasks_rerun zero inputs (subs.map (·.1)) subs k hin hnsub hnsub,
   fun st => preOne_rerun r k n h hn hp zero st⟩

/-- start → a → t → end; `t` asks for a rerun on its first attempt (attempt counter in the state, second
    component); its pre-handler saves the input in the state (first component) and rebuilds it when it
    is handed the zero input.  `plainBody`: the same graph with the rerun request removed. -/
def rr (plainBody : Bool) : IRunner Nat (Nat × Nat) Unit :=
  { base := compile 10 { nodes := [("a", fun v => .ok v), ("t", fun v => .ok v)],
                         edges := [(START, "a"), ("a", "t"), ("t", END)], branches := [] },
    inodes := [{ key := "a", body := fun v s _ => { res := .done (v + 1) s } },
               { key := "t",
                 pre := some (fun v s => if v == 0 then (s.1, s) else (v, (v, s.2))),
                 body := fun v s _ =>
                   if !plainBody && s.2 < 1 then { res := .rerun (s.1, s.2 + 1) } else { res := .done (v * 2) s } }],
    initState := (0, 0) }

def finalValR (h : List (Out Nat (Nat × Nat) Unit)) : Option Nat :=
  match Out.finalOf h with | some (.done v) => some v | _ => none

/-- the full statement on this instance: same final value; `t` is executed twice on the same input 6
    (the aborted attempt and the re-execution on the rebuilt input), `a` once; the resumed call starts
    with the superstep `[t]` only -/
example : finalValR (resumeUntilDone natOps fixedCfg (rr false) ISched.id 10 5) = some 12 := by decide
example : finalValR [run₀ natOps fixedCfg (rr true) ISched.id 5] = some 12 := by decide
example : execLog (allEvs (resumeUntilDone natOps fixedCfg (rr false) ISched.id 10 5)) = [("a", 5), ("t", 6), ("t", 6)] := by decide
example : execLog (run₀ natOps fixedCfg (rr true) ISched.id 5).evs = [("a", 5), ("t", 6)] := by decide
example : (resumeUntilDone natOps fixedCfg (rr false) ISched.id 10 5).map (fun o => topSteps o.evs) =
    [[[("a", false)], [("t", false)]], [[("t", false)]]] := by decide
example : SchedKeeps (ISched.id (V := Nat) (S := Nat × Nat) (X := Unit)) := fun _ _ h => h

end Rerun

/-! ## Streams: the stream without chunks through a checkpoint

  The stream paradigms (Stream / Collect / Transform) run the same loop on streams. In the graph case
  language they differ observably from the value paradigm in one value only: the stream that is closed
  without any chunk (a filter that lets nothing through). The value paradigm has no such value; a
  checkpoint taken in a stream paradigm has to carry it — as a pending input, as a channel content, at any
  nesting level — and hand it back as what it was. A checkpoint stores values, so every stream goes
  through `defaultStreamConvertPair` (`concatStream` on write, `restoreStream` on read): Model/C05Streams.lean
  `concatS` / `restoreS`, with the answer for the chunk-less stream as source fact `emptyStreamStoredAsNil`.

  PROVED: the round trip keeps "no chunk at all" and otherwise the merged chunks, i.e. everything the case
  language observes of a stream (`checkpoint_preserves_chunkless_stream`,
  `checkpoint_preserves_observed_stream`, for the converter as the source has it); a second round trip
  changes nothing (`checkpoint_round_trip_idempotent`); with the typed zero value stored instead, the
  chunk-less stream comes back as a stream with one zero chunk (`zero_value_checkpoint_loses_chunkless_stream`,
  negation witness); the extension of the value universe by `emptyV` is conservative
  (`mergeE_conservative`), a fan-in drops chunk-less streams (`mergeE_drops_chunkless`); a history whose
  calls all run in one mode is `resumeLoop` (`one_mode_history_is_resume_loop`) — hence
  `resume_equiv_pregel` / `resume_equiv_dag` / `resume_equiv_nested` speak about stream-mode histories
  over a value universe that contains the chunk-less stream (`V` is arbitrary there; the `example`s below
  run such a history).
  NOT PROVED: that the Go run loop on streams is this loop on `absS`-abstractions of the streams (the
  correspondence check: streams family, harness/props/c05_empty.go); histories that mix value-mode and
  stream-mode calls. -/
section Streams
open EinoV.Interrupt.Streams

variable {V S X : Type}

/-- **Source fact tie for the stream converter of checkpoints.** -/
theorem empty_stream_fact_match : FactsC05.emptyStreamStoredAsNil = Expected.C05.emptyStreamStoredAsNil := by decide

/-- **checkpoint_preserves_chunkless_stream.**  Through one checkpoint round trip (written in a stream
    paradigm, read in a stream paradigm; the converter as the source has it) a stream comes back without
    chunks exactly if it had none: "pending inputs, channel contents … survive the round trip" for the one
    value the stream paradigms add. -/
theorem checkpoint_preserves_chunkless_stream (ops : ValOps V) (s cs : Chunks V)
    (h : roundTrip FactsC05.emptyStreamStoredAsNil ops s = some cs) : cs = [] ↔ s = [] := by
  have hf : FactsC05.emptyStreamStoredAsNil = true := by decide
  rw [hf] at h
  exact roundTrip_nil_iff ops s cs h

/-- **checkpoint_preserves_observed_stream.**  … and what a reader observes of the stream — no chunk at
    all (`e`), or the chunks merged — is the same before and after (chunk boundaries other than "none" are
    not preserved: a restored stream has at most one chunk). -/
theorem checkpoint_preserves_observed_stream (ops : ValOps V) (e : V) (s cs : Chunks V)
    (h : roundTrip FactsC05.emptyStreamStoredAsNil ops s = some cs) : absS ops e cs = absS ops e s := by
  have hf : FactsC05.emptyStreamStoredAsNil = true := by decide
  rw [hf] at h
  exact roundTrip_abs ops e s cs h

/-- the round trip fails only for chunks that cannot be merged (whatever is stored for "no chunk") -/
theorem checkpoint_round_trip_fails_iff (ops : ValOps V) (e : V) (s : Chunks V) :
    roundTrip FactsC05.emptyStreamStoredAsNil ops s = none ↔ absS ops e s = none :=
  roundTrip_none_iff ops e _ s

/-- a second round trip (interrupt again before the stream is consumed) changes nothing -/
theorem checkpoint_round_trip_idempotent (ops : ValOps V) (s cs : Chunks V)
    (h : roundTrip FactsC05.emptyStreamStoredAsNil ops s = some cs) :
    roundTrip FactsC05.emptyStreamStoredAsNil ops cs = some cs := by
  have hf : FactsC05.emptyStreamStoredAsNil = true := by decide
  rw [hf] at h ⊢
  exact roundTrip_idem ops s cs h

/-- **Negation witness for the other converter** (`emptyStreamStoredAsNil = false`: the typed zero value
    is stored for a stream without chunks): the chunk-less stream comes back as a stream with one zero
    chunk, which every reader that tells "no chunk" from the zero value observes. -/
theorem zero_value_checkpoint_loses_chunkless_stream (ops : ValOps V) (e : V) (he : e ≠ ops.zero) :
    roundTrip false ops ([] : Chunks V) = some [ops.zero] ∧
    absS ops e [ops.zero] ≠ absS ops e ([] : Chunks V) := by
  refine ⟨rfl, ?_⟩
  simp only [absS, ne_eq, Option.some.injEq]
  exact fun h => he h.symm

/-- **mergeE_conservative.**  On values of the old universe the oracle's merge is `FlatMap.merge`. -/
theorem mergeE_conservative (vs : List FlatMap) (h : ∀ v ∈ vs, isE v = false) : mergeE vs = FlatMap.merge vs :=
  mergeE_of_no_empty vs h

/-- **mergeE_drops_chunkless.**  A fan-in of streams is one stream with the chunks of all: chunk-less
    streams contribute nothing; only chunk-less streams give a chunk-less stream. -/
theorem mergeE_drops_chunkless (vs : List FlatMap) :
    ((∃ v ∈ vs, isE v = false) → mergeE (emptyV :: vs) = mergeE vs) ∧
    (vs ≠ [] → (∀ v ∈ vs, isE v = true) → mergeE vs = some emptyV) :=
  ⟨mergeE_cons_empty vs, mergeE_all_empty vs⟩

/-- **one_mode_history_is_resume_loop.**  A history whose calls all run the graph in the same mode (the
    oracle's `histLoop` with a constant runner) is `resumeLoop`: the resume-equivalence theorems of this
    file apply to it as they stand. -/
theorem one_mode_history_is_resume_loop (ops : ValOps V) (cfg : Cfg) (r : IRunner V S X) (sched : ISched V S X)
    (n i : Nat) (inp : V ⊕ Checkpoint V S X) :
    histLoop ops cfg (fun _ => r) sched n i inp = resumeLoop ops cfg r sched n inp :=
  histLoop_const ops cfg r sched n i inp

/-! non-vacuity: a value universe with the stream without chunks (`none`), a history that carries it
    through two checkpoints as a pending input -/

/-- values `some n`, the stream without chunks `none`; a fan-in drops it -/
def optOps : ValOps (Option Nat) :=
  { merge := fun l => some (match l.filterMap id with | [] => none | ns => some ns.sum), zero := some 0 }

/-- start → e → p → c → end: `e` answers with a stream without chunks, `p` hands on what it gets, `c` reads
    the chunks (none: 100); interrupt-after {e}, interrupt-before {c} -/
def chunkless : IRunner (Option Nat) Nat Unit :=
  { base := compile 10 { nodes := [("e", fun v => .ok v), ("p", fun v => .ok v), ("c", fun v => .ok v)],
                         edges := [(START, "e"), ("e", "p"), ("p", "c"), ("c", END)], branches := [] },
    inodes := [{ key := "e", body := fun _ s _ => { res := .done none (s + 1) } },
               { key := "p", body := fun v s _ => { res := .done v s } },
               { key := "c", body := fun v s _ => { res := .done (some (match v with | none => 100 | some n => n + 1)) s } }],
    intBefore := ["c"], intAfter := ["e"], initState := 0 }

def finalValO (h : List (Out (Option Nat) Nat Unit)) : Option (Option Nat) :=
  match Out.finalOf h with | some (.done v) => some v | _ => none

example : (resumeUntilDone optOps fixedCfg chunkless ISched.id 10 (some 1)).length = 3 := by decide
example : finalValO (resumeUntilDone optOps fixedCfg chunkless ISched.id 10 (some 1)) = some (some 100) := by decide
example : finalValO [run₀ optOps fixedCfg chunkless ISched.id (some 1)] = some (some 100) := by decide
example : execLog (allEvs (resumeUntilDone optOps fixedCfg chunkless ISched.id 10 (some 1))) =
    [("e", some 1), ("p", none), ("c", none)] := by decide
example : execLog (allEvs [run₀ optOps fixedCfg chunkless ISched.id (some 1)]) =
    [("e", some 1), ("p", none), ("c", none)] := by decide
example : run₀FinishesIn optOps chunkless ISched.id 3 (some 1) := run₀FinishesIn_of_B _ _ _ _ _ (by decide)
example : roundTrip true optOps ([] : Chunks (Option Nat)) = some [] := rfl
example : absS optOps none <$> roundTrip false optOps ([] : Chunks (Option Nat)) = some (some (some 0)) := rfl
example : mergeE [emptyV, [("a", "1")]] = some [("a", "1")] := by decide
example : mergeE [emptyV, emptyV] = some emptyV := by decide

end Streams

/-! ### Restoring channels from a checkpoint, translated (Gen/TransCp.lean; gotrans phase 8)

  `(*dagChannel).load`, `(*pregelChannel).load` and `(*channelManager).loadChannels` are re-translated from
  /repo on every run of this property (together with the channel units they stand on: TransC02, TransC01,
  TransMgr).  `c.(*dagChannel)` on a value of the closed interface sum `channel` is a match on the constructor.
  The theorems say that `loadChannels` computes the model's `loadChans` — what `restore` (Model/C05.lean)
  installs in the fresh manager of a resumed run: every channel of the manager that the checkpoint has is
  replaced by the checkpoint's, a key missing from the checkpoint keeps its channel, keys of the checkpoint
  the manager does not have are ignored — with the frame conditions of the translated manager (`Frame`) and
  `ChansOK` kept; a channel of the other kind is the load error.
  Aliasing: the Go `load` assigns the argument's maps to the receiver's fields, so the live channel shares
  its maps with the checkpoint's channel.  Under maps-as-values this is invisible; it would become visible if
  the checkpoint were used again after the run has mutated a restored channel (trusted base, DESIGN §6). -/
section TranslatedLoad
open EinoV.GoSem EinoV.TransMgr EinoV.TransCp EinoV.Gen.TransMgr EinoV.Gen.TransC02 EinoV.Gen.TransC01 EinoV.Gen.TransCp
variable {V : Type} [Inhabited V]

theorem translated_load_source_is_current : EinoV.Gen.FactsC05.checkpointLoadTranslated = true := by decide

/-- `load` takes a channel of the same kind over entirely; a channel of the other kind is the error -/
theorem translated_channel_load_refines (ext : Ext V) (mext : MgrExt V) (x y : dagChannel V)
    (p q : pregelChannel V) :
    dagChannel_load ext mext x (.of_dagChannel y) = (y, none) ∧
    pregelChannel_load ext mext p (.of_pregelChannel q) = (q, none) ∧
    dagChannel_load ext mext x (.of_pregelChannel q)
      = (x, some (GoErr.mk "load dag channel fail, got %T, want *dagChannel")) ∧
    pregelChannel_load ext mext p (.of_dagChannel y)
      = (p, some (GoErr.mk "load pregel channel fail, got %T, want *pregelChannel")) :=
  ⟨dag_load_dag ext mext x y, pregel_load_pregel ext mext p q, dag_load_pregel ext mext x q,
   pregel_load_dag ext mext p y⟩

/-- **`loadChannels` refines `loadChans`** -/
theorem translated_loadChannels_refines (ext : Ext V) (mext : MgrExt V) (dag : Bool) (c : channelManager V)
    (cp : GoMap (channel V)) (hok : ChansOK dag c.channels) (hcp : CpOK dag cp) :
    ∃ c', channelManager_loadChannels ext mext c cp = .ret (c', none) ∧
      toChans c'.channels = EinoV.Interrupt.loadChans (toChans c.channels) (toChans cp) ∧
      Frame c c' ∧ ChansOK dag c'.channels :=
  loadChannels_refines ext mext dag c cp hok hcp

/-- a channel of the other kind under a key of the manager: the error "load channel[%s] fail" (never a panic) -/
theorem translated_loadChannels_kind_mismatch (ext : Ext V) (mext : MgrExt V) (c : channelManager V)
    (cp : GoMap (channel V)) (hnd : TransDag.KeysNodup c.channels) (hbad : c.channels.any (mismatch cp) = true) :
    ∃ c', channelManager_loadChannels ext mext c cp = .ret (c', some (GoErr.mk "load channel[%s] fail: %w")) :=
  loadChannels_kind_mismatch ext mext c cp hnd hbad

/-- non-vacuity: a manager with channels a, b; the checkpoint has b (with a value) and an unknown key z:
    b is replaced, a kept, z ignored -/
example : (match channelManager_loadChannels (V := Nat) { zeroValue := 0, emptyStream := 0, mergeValues := fun _ => (0, none) }
      { edgeHandle := fun _ _ v _ => (v, none), preNodeHandle := fun _ v _ => (v, none) }
      { isStream := false, channels := [("a", .of_pregelChannel { Values := [] }), ("b", .of_pregelChannel { Values := [] })],
        successors := [], dataPredecessors := [], controlPredecessors := [] }
      [("b", .of_pregelChannel { Values := [("x", 7)] }), ("z", .of_pregelChannel { Values := [("y", 9)] })] with
    | .ret r => (toChans r.1.channels).map (fun p => (p.1, p.2.values))
    | _ => []) = [("a", []), ("b", [("x", 7)])] := by decide

end TranslatedLoad

end EinoV.C05
