import EinoV.Model.C08
import EinoV.Model.C08Net
import EinoV.Proofs.C08
import EinoV.Gen.FactsC08
import EinoV.Expected.C08

namespace EinoV.C08
open EinoV.Gen

theorem facts_match :
    FactsC08.receiveN = Expected.C08.receiveN ∧ FactsC08.maxSelectNum = Expected.C08.maxSelectNum := by
  decide

end EinoV.C08
