/-
  C08 — Streams deliver every item exactly once, in order, to every reader.
  Property theorems.  Models: EinoV/Model/C08.lean (components), EinoV/Model/C08Net.lean
  (trees of components, run by the oracle).  Source facts: EinoV/Gen/FactsC08.lean
  (regenerated from /repo/schema/{stream,select}.go on every run).

  Every theorem quantifies over *all* event lists of the component's transition system
  (any interleaving of sends, receives and closes of any number of children / sources);
  an event list is a behaviour iff the run function returns `some` (an event that would
  block, or that the API contract forbids, is not enabled).

  Not proved (stated here so that the gap stays visible):
  * `tree_close_propagates` — ∀ trees built with conv/copy/merge over pipes, after every
    reader the caller holds is closed and every forwarder has noticed, every pipe's reading
    side is closed, exactly once.  Proved per component (`send_reports_closed`,
    `copy_source_closed_once`), shown on instances below, and asserted on every generated
    tree by the harness at tear-down (a tree where the *model* does not close a pipe aborts
    the run as a model error); there is no induction over arbitrary trees.
  * `no_deadlock` for whole trees — only the per-component progress lemmas
    (`pipe_progress`, `copy_progress`, `merge_progress`).
  * "told on its next send" is false through a forwarding goroutine:
    `writer_told_late_through_forwarder` (known finding).
-/
import EinoV.Model.C08
import EinoV.Model.C08Net
import EinoV.Proofs.C08
import EinoV.Gen.FactsC08
import EinoV.Expected.C08

namespace EinoV.C08
open EinoV.Gen

/-- the `parentStreamReader` facts as extracted from the source -/
def copyFactsGen : CopyFacts :=
  { fillOnce := FactsC08.peekFillsUnderOnce, closeIncr := FactsC08.closeIncrements,
    closeAtLen := FactsC08.closeAtLen }

/-! ## source facts -/

/-- The regenerated facts are the values the theorems are proved for and the oracle runs with. -/
theorem facts_match :
    FactsC08.receiveN = Expected.C08.receiveN ∧ FactsC08.maxSelectNum = Expected.C08.maxSelectNum ∧
    copyFactsGen = Expected.C08.copyFacts ∧ FactsC08.closeIdempotent = true ∧
    FactsC08.eofByIdentity = Expected.C08.eofByIdentity := by
  decide

/-! ## end of stream = the sentinel io.EOF, nothing else -/

/-- **eof_test_is_identity.** With the comparisons found in the source (`err == io.EOF` /
    `err != io.EOF` in `parentStreamReader.peek` and in both `toStream` loops, no `errors.Is`
    or `errors.As` on any receive path), what a source returned is taken for the end of the
    stream iff it is the sentinel: an error element is an element, whatever its error value
    wraps or claims (`wraps` arbitrary).  This is what entitles the component models
    (`CopyCore.fill`, `recvAll`) to decide by the constructor of `Res`. -/
theorem eof_test_is_identity (wraps : Nat → Bool) (r : Res) :
    endTest FactsC08.eofByIdentity wraps r = r.isEof := by
  have h : FactsC08.eofByIdentity = true := by decide
  cases r <;> simp [endTest, Res.isEof, h]

/-- **forwarder_forwards_every_element.** A forwarding goroutine passes on every element of
    its source, error elements of either kind included, and nothing after one is lost. -/
theorem forwarder_forwards_every_element (wraps : Nat → Bool) (l : List Item) :
    fwdLoop FactsC08.eofByIdentity wraps l = l := by
  induction l with
  | nil => rfl
  | cons x rest ih => simp [fwdLoop, eof_test_is_identity, Res.isEof, ih]

/-- **copy_passes_every_element.** … and so does a copy: `n` receives over a source that holds
    at least `n` elements return exactly the first `n` of them, whatever they wrap. -/
theorem copy_passes_every_element (wraps : Nat → Bool) (n : Nat) (l : List Item) (hn : n ≤ l.length) :
    peekLoop FactsC08.eofByIdentity wraps n l = (l.take n).map Res.item := by
  induction n generalizing l with
  | zero => simp [peekLoop]
  | succ k ih =>
    cases l with
    | nil => simp at hn
    | cons x rest =>
      simp only [peekLoop, eof_test_is_identity, Res.isEof]
      simp at hn
      simp [ih rest hn]

/-- **receiveN_table.** The table in select.go is indexed by `len(chosenList)`, has
    `maxSelectNum + 1` entries, entry `n` selects over exactly `ss[chosenList[0..n)]` and
    reports the index it received from; above `maxSelectNum` remaining sources
    `multiStreamReader.recv` switches to `reflect.Select`. -/
theorem receiveN_table :
    FactsC08.receiveNByLen = true ∧ FactsC08.reflectAboveMax = true ∧
    FactsC08.receiveN.length = FactsC08.maxSelectNum + 1 ∧
    ∀ n, n ≤ FactsC08.maxSelectNum →
      FactsC08.receiveN[n]? = some ((List.range n).map fun j => (j, j)) := by
  refine ⟨by decide, by decide, by decide, ?_⟩
  have h : ∀ n ∈ List.range (FactsC08.maxSelectNum + 1),
      FactsC08.receiveN[n]? = some ((List.range n).map fun j => (j, j)) := by decide
  intro n hn
  exact h n (by simp; omega)

theorem table_ok : tblOK FactsC08.receiveN FactsC08.maxSelectNum = true := by decide

/-! ## pipe -/

/-- **pipe_fifo.** After any event list on a pipe of any capacity: the items received so
    far followed by the buffered ones are exactly the accepted items, in order (so the
    received sequence is a prefix of the sent one: nothing lost, duplicated or reordered);
    `io.EOF` is returned only after the writer closed and every accepted item was received;
    no item is ever returned after `io.EOF`. -/
theorem pipe_fifo (cap : Nat) (evs : List PEv) (p : Pipe) (h : PHist)
    (hr : Pipe.runH (Pipe.new cap, {}) evs = some (p, h)) :
    h.accepted = h.recvd ++ p.buf ∧ h.recvd <+: h.accepted ∧
    (h.eof = true → p.sendClosed = true ∧ h.recvd = h.accepted) ∧ h.itemAfterEof = false := by
  have inv := (PInv.init cap).run hr
  refine ⟨inv.fifo, ?_, ?_, inv.noItemAfterEof⟩
  · rw [inv.fifo]; exact List.prefix_append _ _
  · intro he
    have := inv.eofClosed he
    refine ⟨this.1, ?_⟩
    have hf : h.accepted = h.recvd ++ p.buf := inv.fifo
    have hb : p.buf = [] := this.2
    rw [hb, List.append_nil] at hf
    exact hf.symm

/-- **send_reports_closed.** Once the reader closed, no `Send` is accepted any more: every
    `Send` (that the contract allows) returns `closed = true` at once, whatever is buffered. -/
theorem send_reports_closed (cap : Nat) (evs : List PEv) (p : Pipe) (h : PHist)
    (hr : Pipe.runH (Pipe.new cap, {}) evs = some (p, h)) :
    h.lateAccept = false ∧
    (p.recvClosed = true → p.sendClosed = false → ∀ i, p.send i = some (p, true)) := by
  refine ⟨((PInv.init cap).run hr).noLate, ?_⟩
  intro hrc hsc i
  simp [Pipe.send, hrc, hsc]

/-- pipe part of *no deadlock*: a `Recv` is enabled as soon as something was sent or the
    writer closed; a `Send` as soon as there is room or the reader closed. -/
theorem pipe_progress (p : Pipe) :
    ((p.buf ≠ [] ∨ p.sendClosed = true) → (p.recv).isSome = true) ∧
    (p.sendClosed = false → (p.buf.length < p.cap ∨ p.recvClosed = true) → ∀ i, (p.send i).isSome = true) := by
  constructor
  · intro h
    unfold Pipe.recv
    cases hb : p.buf with
    | nil => rcases h with h | h <;> simp_all
    | cons x r => simp
  · intro hs h i
    unfold Pipe.send
    rcases h with h | h <;> simp [hs, h]
    split <;> simp

/-! ## convert -/

/-- **convert_itemwise.** Reading a converted stream to the end over a source that delivers
    the items `l` yields exactly `l` mapped item by item, in order, without the items the
    convert function marked `ErrNoValue`; a source error is passed on (never swallowed as
    no-value), an error returned by the convert function is delivered as that item's error. -/
theorem convert_itemwise (g : Nat → ConvOut) (l : List Item) :
    convDrain g l = l.filterMap (convItem g) ∧
    (∀ i, i.err ≠ 0 → convItem g i = some ⟨0, i.err⟩) ∧
    (∀ i, i.err = 0 → g i.chunk = .skip → convItem g i = none) ∧
    (∀ i c e, i.err = 0 → g i.chunk = .fail c e → convItem g i = some ⟨c, e⟩) ∧
    (∀ i v, i.err = 0 → g i.chunk = .val v → convItem g i = some ⟨v, 0⟩) := by
  refine ⟨convDrain_eq g l, ?_, ?_, ?_, ?_⟩ <;> intros <;> simp_all [convItem]

/-! ## copy -/

theorem copyFacts_good : copyFactsGen = goodCopy := by decide

/-- **copy_each_sees_all.** `n ≥ 1` copies over any source reader, any interleaving of
    `Recv`/`Close` of the children and of anything the environment does to the source:
    the items child `i` has received are a prefix of the items read from the source (each
    source item is read once, by whichever child gets there first, and shared); if child `i`
    saw `io.EOF` it has received *all* of them, and the source itself had reported `io.EOF`. -/
theorem copy_each_sees_all {σ : Type} (S : Src σ) (n : Nat) (hn : 0 < n) (s0 : σ)
    (evs : List (CEv σ)) (y : CopySys σ)
    (hr : (CopySys.init n s0).run copyFactsGen S evs = some y) (i : Nat) :
    itemsOf i y.outs <+: y.pulled.filterMap Res.item? ∧
    (eofOf i y.outs = true → itemsOf i y.outs = y.pulled.filterMap Res.item? ∧ Res.eof ∈ y.pulled) := by
  rw [copyFacts_good] at hr
  have inv := (CInv.init n hn s0).run hn S hr
  rw [inv.pulledLog]
  constructor
  · cases hc : y.core.cursors[i]? with
    | none => rw [(inv.outRange i hc).1]; exact List.nil_prefix
    | some o =>
      cases o with
      | none => exact inv.closedPre i hc
      | some k => rw [(inv.cur i k hc).2]; exact List.take_prefix _ _
  · intro he
    have := inv.eofAll i he
    exact ⟨this.2, inv.eofMem.mp this.1⟩

/-- **copy_each_sees_all, finite source.** Over a source that delivers exactly the items `l`
    and then `io.EOF` (and that nobody else touches), a child that saw `io.EOF` has received
    exactly `l` — whatever the other children did in between. -/
theorem copy_reads_whole_source (l : List Item) (n : Nat) (hn : 0 < n)
    (evs : List (CEv (List Item))) (hne : ∀ e ∈ evs, e.isEnv = false) (y : CopySys (List Item))
    (hr : (CopySys.init n l).run copyFactsGen listSrc evs = some y) (i : Nat)
    (he : eofOf i y.outs = true) : itemsOf i y.outs = l := by
  have h1 := (copy_each_sees_all listSrc n hn l evs y hr i).2 he
  have inv : LInv l (CopySys.init n l) := ⟨by simp [CopySys.init], by simp [CopySys.init]⟩
  have h2 := inv.run hne hr
  have h3 := h2.split
  rw [h2.done h1.2, List.append_nil] at h3
  rw [h1.1, h3]

/-- **copy_source_closed_once.** The source is closed at most once, and it has been closed
    exactly when every one of the `n` children is closed (closing a child twice changes
    nothing). -/
theorem copy_source_closed_once {σ : Type} (S : Src σ) (n : Nat) (hn : 0 < n) (s0 : σ)
    (evs : List (CEv σ)) (y : CopySys σ)
    (hr : (CopySys.init n s0).run copyFactsGen S evs = some y) :
    y.core.srcClosed ≤ 1 ∧
    (y.core.srcClosed = 1 ↔ ∀ i, i < n → y.core.cursors[i]? = some none) := by
  rw [copyFacts_good] at hr
  have inv := (CInv.init n hn s0).run hn S hr
  have hc := inv.srcC
  have hl := inv.len
  constructor
  · rw [hc]; split <;> omega
  · rw [hc, inv.cnt, ← hl, ← count_none_eq_length]
    split <;> simp_all

/-- copy part of *no deadlock*: an open child can always receive when its next element is
    already in the shared list, or the end was seen, or the source can deliver. -/
theorem copy_progress {σ : Type} (S : Src σ) (y : CopySys σ) (i k : Nat)
    (hc : y.core.cursors[i]? = some (some k))
    (h : k < y.core.log.length ∨ y.core.eofSeen = true ∨ (S.recv y.src).isSome = true) :
    (y.step copyFactsGen S (.recv i)).isSome = true := by
  rw [copyFacts_good]
  simp only [CopySys.step, CopyCore.peekLocal, goodCopy, hc]
  cases hl : y.core.log[k]? with
  | some it => simp
  | none =>
    have := List.getElem?_eq_none_iff.mp hl
    by_cases he : y.core.eofSeen = true
    · simp [he]
    · rcases h with h | h | h
      · omega
      · exact absurd h he
      · cases hs : S.recv y.src with
        | none => simp [hs] at h
        | some rs => simp [he]

/-! ## merge -/

/-- **merge_per_source_order.** Any number of sources with any capacities, any event list
    (writers sending/closing, selects firing in any order the table allows): for every
    source `k`, what the merged reader delivered from `k`, followed by what is still
    buffered in `k`, is exactly what `k`'s writer got accepted, in order. -/
theorem merge_per_source_order (caps : List Nat) (evs : List MEv) (m : MergeSt)
    (hr : (MergeSt.init caps).run FactsC08.receiveN FactsC08.maxSelectNum evs = some m)
    (k : Nat) (p : Pipe) (hk : m.srcs[k]? = some p) :
    ofSrc k m.acc = ofSrc k m.outs ++ p.buf ∧ ofSrc k m.outs <+: ofSrc k m.acc := by
  have inv := (MInv.init caps).run table_ok hr
  have := inv.fifo k p hk
  exact ⟨this, by rw [this]; exact List.prefix_append _ _⟩

/-- **merge_eof_after_all.** If the merged reader returned `io.EOF`, every source's writer
    had closed and every accepted item of every source had been delivered. -/
theorem merge_eof_after_all (caps : List Nat) (evs : List MEv) (m : MergeSt)
    (hr : (MergeSt.init caps).run FactsC08.receiveN FactsC08.maxSelectNum evs = some m)
    (he : m.eofOut = true) (k : Nat) (p : Pipe) (hk : m.srcs[k]? = some p) :
    p.sendClosed = true ∧ ofSrc k m.outs = ofSrc k m.acc := by
  have inv := (MInv.init caps).run table_ok hr
  have hc := inv.eofEmpty he
  have hd := inv.dropped k p hk (by simp [hc])
  have hf := inv.fifo k p hk
  simp only [hd.2, List.append_nil] at hf
  exact ⟨hd.1, hf.symm⟩

/-- merge part of *no deadlock*: with the select table of the source, every source that is
    still in `chosenList` has a case of its own, so if it is ready (an item buffered, or
    closed) a step of `recv` is enabled; and with no source left `recv` returns `io.EOF`. -/
theorem merge_progress (m : MergeSt) :
    (∀ c sa p, m.chosen[c]? = some sa → m.srcs[sa]? = some p →
        (p.buf ≠ [] ∨ p.sendClosed = true) →
        (m.step FactsC08.receiveN FactsC08.maxSelectNum (.sel c)).isSome = true) ∧
    (m.chosen = [] → (m.step FactsC08.receiveN FactsC08.maxSelectNum .eof).isSome = true) := by
  constructor
  · intro c sa p hc hs hready
    have hlt : c < m.chosen.length := by
      rcases List.getElem?_eq_some_iff.mp hc with ⟨h, _⟩; exact h
    have hcase : (selCases FactsC08.receiveN FactsC08.maxSelectNum m.chosen.length)[c]? = some (c, c) := by
      rw [selCases_ok table_ok]
      simp [List.getElem?_map, List.getElem?_range hlt]
    simp only [MergeSt.step, hcase, hc, hs]
    have := (pipe_progress p).1 hready
    cases hrv : p.recv with
    | none => simp [hrv] at this
    | some pr =>
      obtain ⟨p', r⟩ := pr
      cases r <;> simp
  · intro h
    simp [MergeSt.step, h]

/-! ## trees of readers (the network model the oracle runs) -/

/-- the facts of the network model as extracted from the source -/
def factsGen : Facts :=
  { copy := copyFactsGen, tbl := FactsC08.receiveN, maxSel := FactsC08.maxSelectNum,
    fwdCloses := FactsC08.convForwarderClosesSource && FactsC08.childForwarderClosesSource }

/-- Both forwarding goroutines (`toStream`) close their stream for sending and close their
    source reader when they exit, and leave their loop on `io.EOF` and on `closed`; together
    with `facts_match` the oracle runs the model with exactly the extracted facts. -/
theorem net_facts_match :
    FactsC08.convForwarderClosesSource = true ∧ FactsC08.childForwarderClosesSource = true ∧
    factsGen.copy = Expected.C08.facts.copy ∧ factsGen.tbl = Expected.C08.facts.tbl ∧
    factsGen.maxSel = Expected.C08.facts.maxSel ∧ factsGen.fwdCloses = Expected.C08.facts.fwdCloses := by
  decide

/-- what `Send` on pipe `p` may return after the trace `ops` (one entry per model state that
    explains the trace): 0 may block, 1 false, 2 true, 3 either -/
def sendCodesAfter (F : Facts) (ops : List Op) (p : Nat) : Option (List Nat) :=
  match runOps F 60 [{}] 0 ops with
  | .ok (nets, _) => some (nets.map fun n => sendCode F 60 n p)
  | .error _ => none

def drainBoundsAfter (F : Facts) (ops : List Op) (p : Nat) : Option (List (Option Nat)) :=
  match runOps F 60 [{}] 0 ops with
  | .ok (nets, _) => some (nets.map fun n => drainBound F 60 n p)
  | .error _ => none

/-- copy(3) of merge(convert(pipe 0), pipe 1); two copies closed: both writers still accepted -/
def treeOps : List Op :=
  [.pipe 2, .pipe 0, .conv 0 ⟨100, 2, 0, 3, 1⟩, .merge [2, 1], .copy 4 3, .close 6, .close 7]

/-- **tree_close_propagates (instances only).** In this tree closing the last copy closes
    the merged reader; pipe 1 (merged directly) reports it on the next `Send`. -/
example : sendCodesAfter factsGen treeOps 1 = some [0] ∧
    sendCodesAfter factsGen (treeOps ++ [.close 8]) 1 = some [2] := by decide

/-- **writer_told_late_through_forwarder (negation witness for "told on its next send").**
    Pipe 0 is read through a convert that was merged, i.e. through a forwarding goroutine.
    After the last reader derived from it is closed the model still allows `Send` to return
    `closed = false` (code 3): the forwarder closes the pipe only when it next tries to
    forward.  It is told after at most `cap + 6` more accepted items (`drainBound`).  The
    harness replays this tree on the real code (`mode = fwd-delay`), where the first `Send`
    after the close returns false deterministically. -/
theorem writer_told_late_through_forwarder :
    sendCodesAfter factsGen (treeOps ++ [.close 8]) 0 = some [3] ∧
    drainBoundsAfter factsGen (treeOps ++ [.close 8]) 0 = some [some 8] ∧
    (runOps factsGen 60 [{}] 0 (treeOps ++ [.close 8, .send 0 ⟨7, 7⟩ false, .send 0 ⟨8, 8⟩ true])).toOption.isSome = true := by
  decide

/-- If the forwarders did not close their source the writer would never be told. -/
theorem forwarder_must_close_source :
    drainBoundsAfter { factsGen with fwdCloses := false } (treeOps ++ [.close 8]) 0 = some [none] := by
  decide

/-- a trace through the whole tree: items of both pipes arrive through the merge in either
    order, every copy sees the same sequence, the no-value item (chunk 2) is dropped, the
    convert's own error (chunk 1 ↦ error 101) is delivered -/
example : (runOps factsGen 60 [{}] 0
    [.pipe 2, .pipe 1, .conv 0 ⟨100, 2, 0, 3, 1⟩, .merge [2, 1], .copy 4 2,
     .send 0 ⟨2, 0⟩ false, .send 0 ⟨1, 0⟩ false, .send 1 ⟨50, 0⟩ false,
     .recv 6 (.item ⟨50, 0⟩), .recv 7 (.item ⟨50, 0⟩), .recv 7 (.item ⟨101, 101⟩), .recv 6 (.item ⟨101, 101⟩),
     .closeSend 0, .closeSend 1, .recv 6 .eof, .recv 7 .eof]).toOption.isSome = true := by decide

/-- … and a reordered or duplicated delivery is not a behaviour of the model -/
example : (runOps factsGen 60 [{}] 0
    [.pipe 2, .copy 0 2, .send 0 ⟨1, 0⟩ false, .send 0 ⟨2, 0⟩ false,
     .recv 2 (.item ⟨1, 0⟩), .recv 3 (.item ⟨2, 0⟩)]).toOption.isSome = false := by decide

/-! ## non-vacuity: concrete non-trivial behaviours -/

/-- a capacity-2 pipe: two sends, a receive, the third send, writer close, drain, EOF -/
example : (Pipe.runH (Pipe.new 2, {})
    [.send ⟨1, 0⟩, .send ⟨2, 7⟩, .recv, .send ⟨3, 0⟩, .closeSend, .recv, .recv, .recv]).map
      (fun ph => (ph.2.recvd, ph.2.eof)) = some ([⟨1, 0⟩, ⟨2, 7⟩, ⟨3, 0⟩], true) := by decide

/-- a full pipe blocks the writer; a closed reader is reported -/
example : Pipe.runH (Pipe.new 1, {}) [.send ⟨1, 0⟩, .send ⟨2, 0⟩] = none := by decide
example : (Pipe.runH (Pipe.new 1, {}) [.send ⟨1, 0⟩, .closeRecv, .send ⟨2, 0⟩]).map
    (fun ph => (ph.2.accepted, ph.2.refused)) = some ([⟨1, 0⟩], 1) := by decide

/-- three copies over a list source, interleaved reads, an early close and EOF -/
example : ((CopySys.init 3 [⟨1, 0⟩, ⟨2, 0⟩]).run copyFactsGen listSrc
    [.recv 0, .recv 1, .recv 0, .close 2, .recv 0, .recv 1, .recv 1, .close 0, .close 1]).map
      (fun y => (itemsOf 0 y.outs, itemsOf 1 y.outs, [eofOf 0 y.outs, eofOf 1 y.outs, eofOf 2 y.outs],
                 [y.pulled.length, y.core.srcClosed]))
    = some ([⟨1, 0⟩, ⟨2, 0⟩], [⟨1, 0⟩, ⟨2, 0⟩], [true, true, false], [3, 1]) := by decide

/-- a merge of two sources, both orders of delivery are behaviours -/
example : ((MergeSt.init [1, 1]).run FactsC08.receiveN FactsC08.maxSelectNum
    [.send 0 ⟨1, 0⟩, .send 1 ⟨2, 0⟩, .sel 1, .sel 0, .closeSend 0, .closeSend 1, .sel 0, .sel 0, .eof]).map
      (fun m => (m.outs, m.eofOut)) = some ([(1, ⟨2, 0⟩), (0, ⟨1, 0⟩)], true) := by decide
example : ((MergeSt.init [1, 1]).run FactsC08.receiveN FactsC08.maxSelectNum
    [.send 0 ⟨1, 0⟩, .send 1 ⟨2, 0⟩, .sel 0, .sel 1]).map
      (fun m => m.outs) = some [(0, ⟨1, 0⟩), (1, ⟨2, 0⟩)] := by decide

/-- six sources: above `maxSelectNum` every remaining source can still be selected -/
example : ((MergeSt.init [1, 1, 1, 1, 1, 1]).run FactsC08.receiveN FactsC08.maxSelectNum
    [.send 5 ⟨9, 0⟩, .sel 5, .closeSend 5, .sel 5, .send 4 ⟨8, 0⟩, .sel 4]).map
      (fun m => (m.outs, m.chosen)) = some ([(5, ⟨9, 0⟩), (4, ⟨8, 0⟩)], [0, 1, 2, 3, 4]) := by decide

/-- convert: map, skip, own error, source error -/
example : convDrain (fun v => if v = 2 then .skip else if v = 3 then .fail 30 5 else .val (v + 10))
    [⟨1, 0⟩, ⟨2, 0⟩, ⟨3, 0⟩, ⟨4, 9⟩] = [⟨11, 0⟩, ⟨30, 5⟩, ⟨0, 9⟩] := by
  rw [convDrain_eq]; decide

/-! ## the other values of the facts break the property (negation witnesses) -/

/-- With `errors.Is(err, io.EOF)` in the forwarder an error element that wraps io.EOF (here:
    error 7) ends the forwarding: the element is swallowed and everything after it is lost. -/
theorem forwarder_with_errorsIs_loses_items :
    fwdLoop false (fun e => e % 3 == 1) [⟨1, 0⟩, ⟨0, 7⟩, ⟨3, 0⟩, ⟨0, 9⟩] = [⟨1, 0⟩] ∧
    fwdLoop true (fun e => e % 3 == 1) [⟨1, 0⟩, ⟨0, 7⟩, ⟨3, 0⟩, ⟨0, 9⟩] = [⟨1, 0⟩, ⟨0, 7⟩, ⟨3, 0⟩, ⟨0, 9⟩] := by
  decide

/-- With `!errors.Is(err, io.EOF)` in `peek` a copy returns such an element for ever and never
    reaches the items behind it nor the end of the stream (opaque error 9 does no harm). -/
theorem copy_with_errorsIs_repeats_element :
    peekLoop false (fun e => e % 3 == 1) 4 [⟨1, 0⟩, ⟨0, 7⟩, ⟨3, 0⟩] =
      [.item ⟨1, 0⟩, .item ⟨0, 7⟩, .item ⟨0, 7⟩, .item ⟨0, 7⟩] ∧
    peekLoop false (fun e => e % 3 == 1) 4 [⟨1, 0⟩, ⟨0, 9⟩, ⟨3, 0⟩] =
      [.item ⟨1, 0⟩, .item ⟨0, 9⟩, .item ⟨3, 0⟩, .eof] := by
  decide

/-- Without `sync.Once` around the fill every child reads the source itself: the second
    child misses the first item. -/
theorem copy_without_once_loses_items :
    ((CopySys.init 2 [⟨1, 0⟩, ⟨2, 0⟩]).run { copyFactsGen with fillOnce := false } listSrc
      [.recv 0, .recv 1]).map (fun y => itemsOf 1 y.outs) = some [⟨2, 0⟩] := by decide

/-- If `close` did not count the closed children the source would never be closed. -/
theorem copy_without_count_never_closes_source :
    ((CopySys.init 2 [⟨1, 0⟩]).run { copyFactsGen with closeIncr := false } listSrc
      [.close 0, .close 1]).map (fun y => y.core.srcClosed) = some 0 := by decide

/-- If the counter were compared with anything but the number of children the source would
    be closed while a child still reads. -/
theorem copy_wrong_comparison_closes_early :
    ((CopySys.init 2 [⟨1, 0⟩]).run { copyFactsGen with closeAtLen := false } listSrc
      [.close 0]).map (fun y => (y.core.srcClosed, y.core.cursors)) = some (1, [none, some 0]) := by decide

/-- A select case that reports another index than the one it received from drops an open
    source: the merged reader returns `io.EOF` while source 1 still holds an item. -/
theorem merge_wrong_table_loses_source :
    ((MergeSt.init [1, 1]).run [[], [(0, 0)], [(0, 1), (1, 1)]] 2
      [.send 1 ⟨7, 0⟩, .closeSend 0, .sel 0, .closeSend 1, .sel 0, .eof]).map
      (fun m => (m.eofOut, m.outs, m.srcs.map (·.buf))) = some (true, [], [[], [⟨7, 0⟩]]) := by decide

end EinoV.C08
