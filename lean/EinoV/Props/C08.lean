/-
  C08 — Streams deliver every item exactly once, in order, to every reader.
  Property theorems.  Models: EinoV/Model/C08.lean (components), EinoV/Model/C08Net.lean
  (trees of components, run by the oracle).  Source facts: EinoV/Gen/FactsC08.lean
  (regenerated from /repo/schema/{stream,select}.go on every run).

  Every theorem quantifies over *all* event lists of the component's transition system
  (any interleaving of sends, receives and closes of any number of children / sources);
  an event list is a behaviour iff the run function returns `some` (an event that would
  block, or that the API contract forbids, is not enabled).

  Whole networks (section "whole networks" below; EinoV/Spec/C08Tree.lean, EinoV/Spec/C08Close.lean,
  EinoV/Proofs/C08Tree/*.lean): for EVERY network the constructors can build and EVERY schedule
  * `tree_delivery`, `tree_delivery_prefix` — every held reader that reads to io.EOF received
    exactly a sequence its specification `Den` (`tree_spec`) allows: each item once, in order,
    through every nesting; at every earlier moment it has received a prefix of such a sequence;
  * `tree_close_never_twice`, `tree_close_propagates` — `Close` never closes a source twice; when
    every reader is closed and every forwarder has noticed, every pipe is closed, every cell has
    closed its source exactly once;
  * `tree_no_blocked_writer_after_close`, `tree_eof_progress_partial` — progress, partial (the
    full statement and what is missing are in the comment of that section).
  Still not proved:
  * "told on its next send" is false through a forwarding goroutine:
    `writer_told_late_through_forwarder` (known finding); `tree_close_propagates` therefore has
    the hypothesis that the forwarders have noticed.
  * whole-tree deadlock freedom with open writers (see `tree_eof_progress_partial`).
-/
import EinoV.Model.C08
import EinoV.Model.C08Net
import EinoV.Proofs.C08
import EinoV.Gen.FactsC08
import EinoV.Expected.C08
import EinoV.Spec.C08Tree
import EinoV.Proofs.C08Tree.Delivery
import EinoV.Proofs.C08Tree.Oracle
import EinoV.Proofs.C08Tree.Unfold
import EinoV.Spec.C08Close
import EinoV.Proofs.C08Tree.ClosePropagate
import EinoV.Proofs.C08Tree.Progress
import EinoV.Proofs.C08Tree.Prefix
import EinoV.Model.C08Late
import EinoV.Proofs.C08Late
import EinoV.Model.C08Wide
import EinoV.Proofs.C08Wide

namespace EinoV.C08
open EinoV.Gen

/-- the `parentStreamReader` facts as extracted from the source -/
def copyFactsGen : CopyFacts :=
  { fillOnce := FactsC08.peekFillsUnderOnce, closeIncr := FactsC08.closeIncrements,
    closeAtLen := FactsC08.closeAtLen }

/-! ## source facts -/

/-- The regenerated facts are the values the theorems are proved for and the oracle runs with. -/
theorem facts_match :
    FactsC08.receiveN = Expected.C08.receiveN ∧ FactsC08.maxSelectNum = Expected.C08.maxSelectNum ∧
    copyFactsGen = Expected.C08.copyFacts ∧ FactsC08.closeIdempotent = true ∧
    FactsC08.eofByIdentity = Expected.C08.eofByIdentity := by
  decide

/-! ## end of stream = the sentinel io.EOF, nothing else -/

/-- **eof_test_is_identity.** With the comparisons found in the source (`err == io.EOF` /
    `err != io.EOF` in `parentStreamReader.peek` and in both `toStream` loops, no `errors.Is`
    or `errors.As` on any receive path), what a source returned is taken for the end of the
    stream iff it is the sentinel: an error element is an element, whatever its error value
    wraps or claims (`wraps` arbitrary).  This is what entitles the component models
    (`CopyCore.fill`, `recvAll`) to decide by the constructor of `Res`. -/
theorem eof_test_is_identity (wraps : Nat → Bool) (r : Res) :
    endTest FactsC08.eofByIdentity wraps r = r.isEof := by
  have h : FactsC08.eofByIdentity = true := by decide
  cases r <;> simp [endTest, Res.isEof, h]

/-- **forwarder_forwards_every_element.** A forwarding goroutine passes on every element of
    its source, error elements of either kind included, and nothing after one is lost. -/
theorem forwarder_forwards_every_element (wraps : Nat → Bool) (l : List Item) :
    fwdLoop FactsC08.eofByIdentity wraps l = l := by
  induction l with
  | nil => rfl
  | cons x rest ih => simp [fwdLoop, eof_test_is_identity, Res.isEof, ih]

/-- **copy_passes_every_element.** … and so does a copy: `n` receives over a source that holds
    at least `n` elements return exactly the first `n` of them, whatever they wrap. -/
theorem copy_passes_every_element (wraps : Nat → Bool) (n : Nat) (l : List Item) (hn : n ≤ l.length) :
    peekLoop FactsC08.eofByIdentity wraps n l = (l.take n).map Res.item := by
  induction n generalizing l with
  | zero => simp [peekLoop]
  | succ k ih =>
    cases l with
    | nil => simp at hn
    | cons x rest =>
      simp only [peekLoop, eof_test_is_identity, Res.isEof]
      simp at hn
      simp [ih rest hn]

/-- **receiveN_table.** The table in select.go is indexed by `len(chosenList)`, has
    `maxSelectNum + 1` entries, entry `n` selects over exactly `ss[chosenList[0..n)]` and
    reports the index it received from; above `maxSelectNum` remaining sources
    `multiStreamReader.recv` switches to `reflect.Select`. -/
theorem receiveN_table :
    FactsC08.receiveNByLen = true ∧ FactsC08.reflectAboveMax = true ∧
    FactsC08.receiveN.length = FactsC08.maxSelectNum + 1 ∧
    ∀ n, n ≤ FactsC08.maxSelectNum →
      FactsC08.receiveN[n]? = some ((List.range n).map fun j => (j, j)) := by
  refine ⟨by decide, by decide, by decide, ?_⟩
  have h : ∀ n ∈ List.range (FactsC08.maxSelectNum + 1),
      FactsC08.receiveN[n]? = some ((List.range n).map fun j => (j, j)) := by decide
  intro n hn
  exact h n (by simp; omega)

theorem table_ok : tblOK FactsC08.receiveN FactsC08.maxSelectNum = true := by decide

/-! ## pipe -/

/-- **pipe_fifo.** After any event list on a pipe of any capacity: the items received so
    far followed by the buffered ones are exactly the accepted items, in order (so the
    received sequence is a prefix of the sent one: nothing lost, duplicated or reordered);
    `io.EOF` is returned only after the writer closed and every accepted item was received;
    no item is ever returned after `io.EOF`. -/
theorem pipe_fifo (cap : Nat) (evs : List PEv) (p : Pipe) (h : PHist)
    (hr : Pipe.runH (Pipe.new cap, {}) evs = some (p, h)) :
    h.accepted = h.recvd ++ p.buf ∧ h.recvd <+: h.accepted ∧
    (h.eof = true → p.sendClosed = true ∧ h.recvd = h.accepted) ∧ h.itemAfterEof = false := by
  have inv := (PInv.init cap).run hr
  refine ⟨inv.fifo, ?_, ?_, inv.noItemAfterEof⟩
  · rw [inv.fifo]; exact List.prefix_append _ _
  · intro he
    have := inv.eofClosed he
    refine ⟨this.1, ?_⟩
    have hf : h.accepted = h.recvd ++ p.buf := inv.fifo
    have hb : p.buf = [] := this.2
    rw [hb, List.append_nil] at hf
    exact hf.symm

/-- **send_reports_closed.** Once the reader closed, no `Send` is accepted any more: every
    `Send` (that the contract allows) returns `closed = true` at once, whatever is buffered. -/
theorem send_reports_closed (cap : Nat) (evs : List PEv) (p : Pipe) (h : PHist)
    (hr : Pipe.runH (Pipe.new cap, {}) evs = some (p, h)) :
    h.lateAccept = false ∧
    (p.recvClosed = true → p.sendClosed = false → ∀ i, p.send i = some (p, true)) := by
  refine ⟨((PInv.init cap).run hr).noLate, ?_⟩
  intro hrc hsc i
  simp [Pipe.send, hrc, hsc]

/-- pipe part of *no deadlock*: a `Recv` is enabled as soon as something was sent or the
    writer closed; a `Send` as soon as there is room or the reader closed. -/
theorem pipe_progress (p : Pipe) :
    ((p.buf ≠ [] ∨ p.sendClosed = true) → (p.recv).isSome = true) ∧
    (p.sendClosed = false → (p.buf.length < p.cap ∨ p.recvClosed = true) → ∀ i, (p.send i).isSome = true) := by
  constructor
  · intro h
    unfold Pipe.recv
    cases hb : p.buf with
    | nil => rcases h with h | h <;> simp_all
    | cons x r => simp
  · intro hs h i
    unfold Pipe.send
    rcases h with h | h <;> simp [hs, h]
    split <;> simp

/-! ## convert -/

/-- **convert_itemwise.** Reading a converted stream to the end over a source that delivers
    the items `l` yields exactly `l` mapped item by item, in order, without the items the
    convert function marked `ErrNoValue`; a source error is passed on (never swallowed as
    no-value), an error returned by the convert function is delivered as that item's error. -/
theorem convert_itemwise (g : Nat → ConvOut) (l : List Item) :
    convDrain g l = l.filterMap (convItem g) ∧
    (∀ i, i.err ≠ 0 → convItem g i = some ⟨0, i.err⟩) ∧
    (∀ i, i.err = 0 → g i.chunk = .skip → convItem g i = none) ∧
    (∀ i c e, i.err = 0 → g i.chunk = .fail c e → convItem g i = some ⟨c, e⟩) ∧
    (∀ i v, i.err = 0 → g i.chunk = .val v → convItem g i = some ⟨v, 0⟩) := by
  refine ⟨convDrain_eq g l, ?_, ?_, ?_, ?_⟩ <;> intros <;> simp_all [convItem]

/-! ## copy -/

theorem copyFacts_good : copyFactsGen = goodCopy := by decide

/-- **copy_each_sees_all.** `n ≥ 1` copies over any source reader, any interleaving of
    `Recv`/`Close` of the children and of anything the environment does to the source:
    the items child `i` has received are a prefix of the items read from the source (each
    source item is read once, by whichever child gets there first, and shared); if child `i`
    saw `io.EOF` it has received *all* of them, and the source itself had reported `io.EOF`. -/
theorem copy_each_sees_all {σ : Type} (S : Src σ) (n : Nat) (hn : 0 < n) (s0 : σ)
    (evs : List (CEv σ)) (y : CopySys σ)
    (hr : (CopySys.init n s0).run copyFactsGen S evs = some y) (i : Nat) :
    itemsOf i y.outs <+: y.pulled.filterMap Res.item? ∧
    (eofOf i y.outs = true → itemsOf i y.outs = y.pulled.filterMap Res.item? ∧ Res.eof ∈ y.pulled) := by
  rw [copyFacts_good] at hr
  have inv := (CInv.init n hn s0).run hn S hr
  rw [inv.pulledLog]
  constructor
  · cases hc : y.core.cursors[i]? with
    | none => rw [(inv.outRange i hc).1]; exact List.nil_prefix
    | some o =>
      cases o with
      | none => exact inv.closedPre i hc
      | some k => rw [(inv.cur i k hc).2]; exact List.take_prefix _ _
  · intro he
    have := inv.eofAll i he
    exact ⟨this.2, inv.eofMem.mp this.1⟩

/-- **copy_each_sees_all, finite source.** Over a source that delivers exactly the items `l`
    and then `io.EOF` (and that nobody else touches), a child that saw `io.EOF` has received
    exactly `l` — whatever the other children did in between. -/
theorem copy_reads_whole_source (l : List Item) (n : Nat) (hn : 0 < n)
    (evs : List (CEv (List Item))) (hne : ∀ e ∈ evs, e.isEnv = false) (y : CopySys (List Item))
    (hr : (CopySys.init n l).run copyFactsGen listSrc evs = some y) (i : Nat)
    (he : eofOf i y.outs = true) : itemsOf i y.outs = l := by
  have h1 := (copy_each_sees_all listSrc n hn l evs y hr i).2 he
  have inv : LInv l (CopySys.init n l) := ⟨by simp [CopySys.init], by simp [CopySys.init]⟩
  have h2 := inv.run hne hr
  have h3 := h2.split
  rw [h2.done h1.2, List.append_nil] at h3
  rw [h1.1, h3]

/-- **copy_source_closed_once.** The source is closed at most once, and it has been closed
    exactly when every one of the `n` children is closed (closing a child twice changes
    nothing). -/
theorem copy_source_closed_once {σ : Type} (S : Src σ) (n : Nat) (hn : 0 < n) (s0 : σ)
    (evs : List (CEv σ)) (y : CopySys σ)
    (hr : (CopySys.init n s0).run copyFactsGen S evs = some y) :
    y.core.srcClosed ≤ 1 ∧
    (y.core.srcClosed = 1 ↔ ∀ i, i < n → y.core.cursors[i]? = some none) := by
  rw [copyFacts_good] at hr
  have inv := (CInv.init n hn s0).run hn S hr
  have hc := inv.srcC
  have hl := inv.len
  constructor
  · rw [hc]; split <;> omega
  · rw [hc, inv.cnt, ← hl, ← count_none_eq_length]
    split <;> simp_all

/-- copy part of *no deadlock*: an open child can always receive when its next element is
    already in the shared list, or the end was seen, or the source can deliver. -/
theorem copy_progress {σ : Type} (S : Src σ) (y : CopySys σ) (i k : Nat)
    (hc : y.core.cursors[i]? = some (some k))
    (h : k < y.core.log.length ∨ y.core.eofSeen = true ∨ (S.recv y.src).isSome = true) :
    (y.step copyFactsGen S (.recv i)).isSome = true := by
  rw [copyFacts_good]
  simp only [CopySys.step, CopyCore.peekLocal, goodCopy, hc]
  cases hl : y.core.log[k]? with
  | some it => simp
  | none =>
    have := List.getElem?_eq_none_iff.mp hl
    by_cases he : y.core.eofSeen = true
    · simp [he]
    · rcases h with h | h | h
      · omega
      · exact absurd h he
      · cases hs : S.recv y.src with
        | none => simp [hs] at h
        | some rs => simp [he]

/-! ## merge -/

/-- **merge_per_source_order.** Any number of sources with any capacities, any event list
    (writers sending/closing, selects firing in any order the table allows): for every
    source `k`, what the merged reader delivered from `k`, followed by what is still
    buffered in `k`, is exactly what `k`'s writer got accepted, in order. -/
theorem merge_per_source_order (caps : List Nat) (evs : List MEv) (m : MergeSt)
    (hr : (MergeSt.init caps).run FactsC08.receiveN FactsC08.maxSelectNum evs = some m)
    (k : Nat) (p : Pipe) (hk : m.srcs[k]? = some p) :
    ofSrc k m.acc = ofSrc k m.outs ++ p.buf ∧ ofSrc k m.outs <+: ofSrc k m.acc := by
  have inv := (MInv.init caps).run table_ok hr
  have := inv.fifo k p hk
  exact ⟨this, by rw [this]; exact List.prefix_append _ _⟩

/-- **merge_eof_after_all.** If the merged reader returned `io.EOF`, every source's writer
    had closed and every accepted item of every source had been delivered. -/
theorem merge_eof_after_all (caps : List Nat) (evs : List MEv) (m : MergeSt)
    (hr : (MergeSt.init caps).run FactsC08.receiveN FactsC08.maxSelectNum evs = some m)
    (he : m.eofOut = true) (k : Nat) (p : Pipe) (hk : m.srcs[k]? = some p) :
    p.sendClosed = true ∧ ofSrc k m.outs = ofSrc k m.acc := by
  have inv := (MInv.init caps).run table_ok hr
  have hc := inv.eofEmpty he
  have hd := inv.dropped k p hk (by simp [hc])
  have hf := inv.fifo k p hk
  simp only [hd.2, List.append_nil] at hf
  exact ⟨hd.1, hf.symm⟩

/-- merge part of *no deadlock*: with the select table of the source, every source that is
    still in `chosenList` has a case of its own, so if it is ready (an item buffered, or
    closed) a step of `recv` is enabled; and with no source left `recv` returns `io.EOF`. -/
theorem merge_progress (m : MergeSt) :
    (∀ c sa p, m.chosen[c]? = some sa → m.srcs[sa]? = some p →
        (p.buf ≠ [] ∨ p.sendClosed = true) →
        (m.step FactsC08.receiveN FactsC08.maxSelectNum (.sel c)).isSome = true) ∧
    (m.chosen = [] → (m.step FactsC08.receiveN FactsC08.maxSelectNum .eof).isSome = true) := by
  constructor
  · intro c sa p hc hs hready
    have hlt : c < m.chosen.length := by
      rcases List.getElem?_eq_some_iff.mp hc with ⟨h, _⟩; exact h
    have hcase : (selCases FactsC08.receiveN FactsC08.maxSelectNum m.chosen.length)[c]? = some (c, c) := by
      rw [selCases_ok table_ok]
      simp [List.getElem?_map, List.getElem?_range hlt]
    simp only [MergeSt.step, hcase, hc, hs]
    have := (pipe_progress p).1 hready
    cases hrv : p.recv with
    | none => simp [hrv] at this
    | some pr =>
      obtain ⟨p', r⟩ := pr
      cases r <;> simp
  · intro h
    simp [MergeSt.step, h]

/-! ## trees of readers (the network model the oracle runs) -/

/-- the facts of the network model as extracted from the source -/
def factsGen : Facts :=
  { copy := copyFactsGen, tbl := FactsC08.receiveN, maxSel := FactsC08.maxSelectNum,
    fwdCloses := FactsC08.convForwarderClosesSource && FactsC08.childForwarderClosesSource }

/-- Both forwarding goroutines (`toStream`) close their stream for sending and close their
    source reader when they exit, and leave their loop on `io.EOF` and on `closed`; together
    with `facts_match` the oracle runs the model with exactly the extracted facts. -/
theorem net_facts_match :
    FactsC08.convForwarderClosesSource = true ∧ FactsC08.childForwarderClosesSource = true ∧
    factsGen.copy = Expected.C08.facts.copy ∧ factsGen.tbl = Expected.C08.facts.tbl ∧
    factsGen.maxSel = Expected.C08.facts.maxSel ∧ factsGen.fwdCloses = Expected.C08.facts.fwdCloses := by
  decide

/-- what `Send` on pipe `p` may return after the trace `ops` (one entry per model state that
    explains the trace): 0 may block, 1 false, 2 true, 3 either -/
def sendCodesAfter (F : Facts) (ops : List Op) (p : Nat) : Option (List Nat) :=
  match runOps F 60 [{}] 0 ops with
  | .ok (nets, _) => some (nets.map fun n => sendCode F 60 n p)
  | .error _ => none

def drainBoundsAfter (F : Facts) (ops : List Op) (p : Nat) : Option (List (Option Nat)) :=
  match runOps F 60 [{}] 0 ops with
  | .ok (nets, _) => some (nets.map fun n => drainBound F 60 n p)
  | .error _ => none

/-- copy(3) of merge(convert(pipe 0), pipe 1); two copies closed: both writers still accepted -/
def treeOps : List Op :=
  [.pipe 2, .pipe 0, .conv 0 ⟨100, 2, 0, 3, 1⟩, .merge [2, 1], .copy 4 3, .close 6, .close 7]

/-- an instance of close propagation (the general theorem is `tree_close_propagates` below): in this tree closing the last copy closes
    the merged reader; pipe 1 (merged directly) reports it on the next `Send`. -/
example : sendCodesAfter factsGen treeOps 1 = some [0] ∧
    sendCodesAfter factsGen (treeOps ++ [.close 8]) 1 = some [2] := by decide

/-- **writer_told_late_through_forwarder (negation witness for "told on its next send").**
    Pipe 0 is read through a convert that was merged, i.e. through a forwarding goroutine.
    After the last reader derived from it is closed the model still allows `Send` to return
    `closed = false` (code 3): the forwarder closes the pipe only when it next tries to
    forward.  It is told after at most `cap + 6` more accepted items (`drainBound`).  The
    harness replays this tree on the real code (`mode = fwd-delay`), where the first `Send`
    after the close returns false deterministically. -/
theorem writer_told_late_through_forwarder :
    sendCodesAfter factsGen (treeOps ++ [.close 8]) 0 = some [3] ∧
    drainBoundsAfter factsGen (treeOps ++ [.close 8]) 0 = some [some 8] ∧
    (runOps factsGen 60 [{}] 0 (treeOps ++ [.close 8, .send 0 ⟨7, 7⟩ false, .send 0 ⟨8, 8⟩ true])).toOption.isSome = true := by
  decide

/-- If the forwarders did not close their source the writer would never be told. -/
theorem forwarder_must_close_source :
    drainBoundsAfter { factsGen with fwdCloses := false } (treeOps ++ [.close 8]) 0 = some [none] := by
  decide

/-- a trace through the whole tree: items of both pipes arrive through the merge in either
    order, every copy sees the same sequence, the no-value item (chunk 2) is dropped, the
    convert's own error (chunk 1 ↦ error 101) is delivered -/
example : (runOps factsGen 60 [{}] 0
    [.pipe 2, .pipe 1, .conv 0 ⟨100, 2, 0, 3, 1⟩, .merge [2, 1], .copy 4 2,
     .send 0 ⟨2, 0⟩ false, .send 0 ⟨1, 0⟩ false, .send 1 ⟨50, 0⟩ false,
     .recv 6 (.item ⟨50, 0⟩), .recv 7 (.item ⟨50, 0⟩), .recv 7 (.item ⟨101, 101⟩), .recv 6 (.item ⟨101, 101⟩),
     .closeSend 0, .closeSend 1, .recv 6 .eof, .recv 7 .eof]).toOption.isSome = true := by decide

/-- … and a reordered or duplicated delivery is not a behaviour of the model -/
example : (runOps factsGen 60 [{}] 0
    [.pipe 2, .copy 0 2, .send 0 ⟨1, 0⟩ false, .send 0 ⟨2, 0⟩ false,
     .recv 2 (.item ⟨1, 0⟩), .recv 3 (.item ⟨2, 0⟩)]).toOption.isSome = false := by decide

/-! ## whole networks: every tree of copy / merge / convert, every schedule

  The theorems of this section are about the network model the oracle runs
  (`EinoV/Model/C08Net.lean`): about EVERY network that the constructors `pipe`, `arr`, `conv`,
  `copy n`, `merge` can build (any size, depth, number of copies and sources; constructors and
  traffic interleaved in any way) and EVERY schedule of `Send` / `Close(writer)` / `Recv` /
  `Close(reader)` (`Behaves`, `EinoV/Spec/C08Tree.lean`).  The networks are DAGs whose only
  sharing is through the cells of `Copy`; every edge points to a smaller index, so the
  "structural induction on the tree" is the induction along `Edge` / over the derivations of
  `Den` and `Recv` (`EinoV/Proofs/C08Tree/*.lean`). -/

/-- the source facts are the ones the whole-network theorems are proved for (fact tie) -/
theorem factsGen_good : GoodFacts factsGen := ⟨by decide, by decide, by decide⟩

/-- ... and they are the ones the oracle runs with -/
theorem expected_facts_good : GoodFacts Expected.C08.facts := ⟨by decide, by decide, by decide⟩

/-- **tree_wellformed.** Every network reachable from the empty one by enabled operations is
    well formed: references point to earlier nodes of the right kind, every reader has AT MOST
    ONE consumer (`ShInv.lin`; the children of one `Copy` share its cell and nothing else), the
    readers the caller holds are consumed by nobody, every cursor of a copy lies within the
    shared list.  This is the tree structure the other theorems induct over. -/
theorem tree_wellformed (fuel : Nat) (ops : List Op) (net : Net)
    (h : Behaves factsGen fuel {} ops net) : Inv net :=
  h.inv factsGen_good Inv.empty

/-- **oracle_runs_are_schedules.** The correspondence check is a check of these schedules: every
    candidate state the oracle keeps after accepting a trace (`runOps`, which the harness
    compares the Go implementation with, operation by operation) is reached from the empty
    network by that trace as a schedule (`recvAll` refines the relation `Recv`, every other
    operation is `applyOp` itself). -/
theorem oracle_runs_are_schedules (fuel : Nat) (ops : List Op) (nets' : List Net) (cr : List Nat)
    (h : runOps Expected.C08.facts fuel [{}] 0 ops = .ok (nets', cr)) :
    ∀ n' ∈ nets', Behaves Expected.C08.facts fuel {} ops n' := by
  intro n' hn'
  obtain ⟨n, hn, hb⟩ := runOps_behaves expected_facts_good ops [{}] 0 h n' hn'
  simp at hn; subst hn; exact hb

/-- **tree_spec.** The SPECIFIED item sequence `Den fut net r` of reader `r`, as a function of
    what the sources hold (`buf`, `rest`) and of what their writers will still get accepted
    (`fut`), by recursion over the tree: a pipe delivers its buffer and then the future items;
    an array its items; a converted reader the item-wise image of what its source delivers,
    no-value items dropped (`convItem`); a copy what is left for it of the shared list followed
    by what the source of the cell still delivers (nothing once the cell saw `io.EOF`), the same
    for every copy of the cell whatever the other copies do; a merged reader an interleaving
    (`Inter`: every item of every remaining source exactly once, each source in its own order)
    of what its remaining sources deliver; a forwarding goroutine is transparent. -/
theorem tree_spec (fut : Nat → List Item) (net : Net) (id : Nat) (l : List Item) :
    Den fut net id l ↔ DenBody fut net id l := den_unfold fut net id l

/-- a concrete network: pipe 0 (closed by its writer, items 2 and 3 buffered) under a convert that
    adds 100, copied twice; item 101 is already in the shared list; copy 3 has not read yet,
    copy 4 has read one item -/
def exNet : Net :=
  { nodes := #[.pipe ⟨2, [⟨2, 0⟩, ⟨3, 0⟩], true, false⟩, .conv 0 ⟨100, 0, 0, 0, 0⟩,
               .parent 1 ⟨[⟨101, 0⟩], false, [some 0, some 1], 0, 0⟩, .child 2 0, .child 2 1],
    readers := [3, 4], writers := [] }

/-- the specification is exact: without a merge below it, exactly ONE sequence is specified for a
    reader — here `[101, 102, 103]` for the copy that has read nothing (and nothing else, in no
    other order, with no item twice) -/
example (fut : Nat → List Item) (l : List Item) :
    Den fut exNet 3 l ↔ l = [⟨101, 0⟩, ⟨102, 0⟩, ⟨103, 0⟩] := by
  constructor
  · intro h
    obtain ⟨k, hk, ⟨_, l1, h1, rfl⟩ | ⟨he, _⟩⟩ := Den.child_inv (par := 2) (idx := 0) (src := 1)
      (core := ⟨[⟨101, 0⟩], false, [some 0, some 1], 0, 0⟩) rfl rfl h
    · obtain ⟨l2, h2, rfl⟩ := Den.conv_inv (src := 0) (g := ⟨100, 0, 0, 0, 0⟩) rfl h1
      have h3 := Den.pipe_inv (p := ⟨2, [⟨2, 0⟩, ⟨3, 0⟩], true, false⟩) rfl h2
      subst h3
      simp at hk; subst hk
      simp [convItem, ConvSpec.fn]
    · cases he
  · rintro rfl
    have h0 : Den fut exNet 0 [⟨2, 0⟩, ⟨3, 0⟩] :=
      Den.pipe (p := ⟨2, [⟨2, 0⟩, ⟨3, 0⟩], true, false⟩) rfl
    have h1 : Den fut exNet 1 [⟨102, 0⟩, ⟨103, 0⟩] := by
      have := Den.conv (g := ⟨100, 0, 0, 0, 0⟩) (id := 1) rfl h0
      simpa [convItem, ConvSpec.fn] using this
    exact Den.childOpen (id := 3) (par := 2) (idx := 0) (k := 0)
      (core := ⟨[⟨101, 0⟩], false, [some 0, some 1], 0, 0⟩) rfl rfl rfl rfl h1

/-- **tree_delivery.** In every reachable network `net0`, for every reader `r` the caller holds
    there, under EVERY schedule `ops` that continues from `net0` (sends, writer closes, receives
    and closes of any reader in any order, further constructors on other readers) and in which
    `r` finally reads `io.EOF`: the items `r` was handed during the schedule, in order
    (`gotBy r ops`), are exactly one of the sequences specified for `r` in `net0` with the items
    the writers got accepted during the schedule (`accBy ops`) — every item exactly once, in
    order, through every nesting of copy / merge / convert; nothing is lost, duplicated or
    reordered by whatever happens to the other readers of the network.  Proved for all source
    facts with `GoodFacts` (`factsGen_good`, `expected_facts_good`). -/
theorem tree_delivery {F : Facts} (g : GoodFacts F) (fuel : Nat) (ops0 ops : List Op) (net0 net' : Net) (r : Nat)
    (h0 : Behaves F fuel {} ops0 net0) (hr : r ∈ net0.readers)
    (h : Behaves F fuel net0 (ops ++ [.recv r .eof]) net') :
    Den (accBy ops) net0 r (gotBy r ops) :=
  delivery_core g ops net0 net' r (h0.inv g Inv.empty) hr h

/-- **tree_delivery_prefix.** Delivery at every moment, not only at `io.EOF`: in every reachable
    network, under every schedule `ops` continuing from `net0`, for every reader `r` the caller
    holds before and after it: the items `r` has been handed so far are a PREFIX of one of the
    sequences specified for `r` in `net0` with the items accepted so far — no reader, whether it
    later reads on, closes early or is never read again, is ever handed a wrong, duplicated or
    reordered item.  (`l` = what `r` is still specified to deliver if no further item is accepted;
    it exists because every claimed reader has a specified sequence, `den_exists`.) -/
theorem tree_delivery_prefix {F : Facts} (g : GoodFacts F) (fuel : Nat) (ops0 ops : List Op) (net0 net1 : Net) (r : Nat)
    (h0 : Behaves F fuel {} ops0 net0) (hr : r ∈ net0.readers)
    (h : Behaves F fuel net0 ops net1) (hr1 : r ∈ net1.readers) :
    ∃ l, Den (accBy ops) net0 r (gotBy r ops ++ l) :=
  delivery_prefix g ops net0 net1 r (h0.inv g Inv.empty) (h0.closeInv g Inv.empty closeInv_empty) hr h hr1

/-- the building part of the non-vacuity examples: copy(2) of merge(convert(pipe 0), pipe 1);
    readers 6 and 7 are the copies, node 3 is the forwarding goroutine of the convert -/
def treeOps2 : List Op :=
  [.pipe 2, .pipe 1, .conv 0 ⟨100, 2, 0, 3, 1⟩, .merge [2, 1], .copy 4 2]

/-- non-vacuity of `tree_delivery`: on that tree, a schedule in which both pipes are written,
    both copies read in different orders, the writers close and copy 6 reads `io.EOF` -/
example : ∃ net0 net', Behaves factsGen 60 {} treeOps2 net0 ∧ 6 ∈ net0.readers ∧
    Behaves factsGen 60 net0
      ([.send 0 ⟨2, 0⟩ false, .send 0 ⟨1, 0⟩ false, .send 1 ⟨50, 0⟩ false,
        .recv 6 (.item ⟨50, 0⟩), .recv 7 (.item ⟨50, 0⟩), .recv 7 (.item ⟨101, 101⟩), .recv 6 (.item ⟨101, 101⟩),
        .closeSend 0, .closeSend 1, .recv 7 .eof] ++ [.recv 6 .eof]) net' :=
  twoPhaseOK_spec factsGen_good (by decide)

/-- non-vacuity of `tree_delivery_prefix`: the same tree, copy 7 has read two items and nobody
    has closed anything; copy 6 has read one -/
example : ∃ net0 net1, Behaves factsGen 60 {} treeOps2 net0 ∧ 7 ∈ net0.readers ∧
    Behaves factsGen 60 net0
      [.send 0 ⟨2, 0⟩ false, .send 0 ⟨1, 0⟩ false, .send 1 ⟨50, 0⟩ false,
        .recv 6 (.item ⟨50, 0⟩), .recv 7 (.item ⟨50, 0⟩), .recv 7 (.item ⟨101, 101⟩)] net1 ∧
    7 ∈ net1.readers :=
  heldOK_spec factsGen_good (by decide)

/-- ... and there the conclusion says: copy 6 was handed `[50, 101]`, which is one of the two
    interleavings of pipe 1's `[50]` with the converted `[101]` of pipe 0's `[2, 1]` (item 2 is
    dropped as no-value, item 1 becomes the convert's own error 101) -/
example : gotBy 6 [.send 0 ⟨2, 0⟩ false, .send 0 ⟨1, 0⟩ false, .send 1 ⟨50, 0⟩ false,
        .recv 6 (.item ⟨50, 0⟩), .recv 7 (.item ⟨50, 0⟩), .recv 7 (.item ⟨101, 101⟩), .recv 6 (.item ⟨101, 101⟩),
        .closeSend 0, .closeSend 1, .recv 7 .eof] = [⟨50, 0⟩, ⟨101, 101⟩] ∧
    accBy [.send 0 ⟨2, 0⟩ false, .send 0 ⟨1, 0⟩ false, .send 1 ⟨50, 0⟩ false,
        .recv 6 (.item ⟨50, 0⟩), .closeSend 0] 0 = [⟨2, 0⟩, ⟨1, 0⟩] := by decide

/-! ### close propagation through whole networks

  `Claimed net H k` (`EinoV/Spec/C08Close.lean`): following the unique consumers of node `k`
  downwards through converts and merged readers one reaches a reader the caller holds, a `Copy`
  cell with an open copy, or a forwarding goroutine that has not exited.  The invariant
  `CloseInv` says that the closed flags of the stateful nodes (`recvClosed` of a pipe, the nil
  cursor of a copy, the state of a forwarder) tell exactly that, and that every cell counts its
  closed copies. -/

/-- **tree_close_invariant.** In every reachable network: a pipe's reading side is open iff
    somebody still claims it; a copy's cursor is non-nil iff somebody claims that copy; a
    forwarder whose merged reader is claimed is running (or exited on `io.EOF`), one whose merged
    reader was closed is not running; every cell's `closedNum` is the number of its closed
    copies and it has closed its source (once) iff all of them are closed. -/
theorem tree_close_invariant {F : Facts} (g : GoodFacts F) (fuel : Nat) (ops : List Op) (net : Net)
    (h : Behaves F fuel {} ops net) : CloseInv net :=
  h.closeInv g Inv.empty closeInv_empty

/-- **tree_close_never_twice.** At every point of every schedule, `Close` of any reader the caller
    holds is enabled, through every nesting of copy / merge / convert: the model closes the
    reading side of a pipe only if it is open (`Pipe.closeRecv` is not enabled on a closed one,
    the oracle reports `mismatch:model-double-close`), so no source is ever closed a second
    time — a cell closes its source when, and only when, its last copy closes. -/
theorem tree_close_never_twice {F : Facts} (g : GoodFacts F) (fuel : Nat) (ops : List Op) (net : Net)
    (h : Behaves F fuel {} ops net) (r : Nat) (hr : r ∈ net.readers) (hf : r < fuel) :
    ∃ net', Step F fuel net (.close r) net' := by
  obtain ⟨n1, hc⟩ := close_succeeds g (h.inv g Inv.empty) (h.closeInv g Inv.empty closeInv_empty) hr hf
  refine ⟨{ n1 with readers := n1.readers.erase r }, .other (cr := []) rfl ?_⟩
  simp only [applyOp]
  simp [hr, hc]

/-- ... and a forwarding goroutine whose stream was closed can always notice it (closing its own
    source), whenever it gets to it. -/
theorem tree_forwarder_can_notice {F : Facts} (g : GoodFacts F) (fuel : Nat) (ops : List Op) (net : Net)
    (h : Behaves F fuel {} ops net) (f src : Nat) (hf : net.nodes[f]? = some (.fpipe src .pending))
    (hfu : src < fuel) : ∃ net', resolveOne F fuel net f = some net' :=
  resolve_succeeds g (h.inv g Inv.empty) (h.closeInv g Inv.empty closeInv_empty) hf hfu

/-- **tree_close_propagates.** After ANY schedule on ANY network: if every reader the caller held
    has been closed (none is held any more) and every forwarding goroutine has noticed
    (`pendings net = []`), then the reading side of EVERY pipe of the network is closed — its
    writer is told on its next `Send` (`send_reports_closed`) — every `Copy` cell has closed its
    source exactly once (`srcClosed = 1`, all cursors nil) and every forwarder has exited. -/
theorem tree_close_propagates {F : Facts} (g : GoodFacts F) (fuel : Nat) (ops : List Op) (net : Net)
    (h : Behaves F fuel {} ops net) (hr : net.readers = []) (hp : pendings net = []) :
    (∀ (k : Nat) (p : Pipe), net.nodes[k]? = some (.pipe p) → p.recvClosed = true) ∧
    (∀ (P src : Nat) (core : CopyCore), net.nodes[P]? = some (.parent src core) →
      core.srcClosed = 1 ∧ ∀ idx, idx < core.cursors.length → core.cursors[idx]? = some none) ∧
    (∀ (f src : Nat) (st : FwdSt), net.nodes[f]? = some (.fpipe src st) → st = .ended ∨ st = .stopped) :=
  all_closed (h.inv g Inv.empty) (h.closeInv g Inv.empty closeInv_empty) hr (fun _ _ => pendings_nil hp)

/-- non-vacuity of `tree_close_propagates`: on copy(2) of merge(convert(pipe 0), pipe 1), with
    traffic, both copies are closed and the forwarder of the convert notices when pipe 0's
    writer sends again (the `Send` that is told `closed`) -/
example : ∃ net, Behaves factsGen 60 {}
      (treeOps2 ++ [.send 0 ⟨1, 0⟩ false, .send 1 ⟨50, 0⟩ false, .recv 6 (.item ⟨50, 0⟩),
        .close 6, .close 7, .send 0 ⟨7, 7⟩ true]) net ∧
    net.readers = [] ∧ pendings net = [] :=
  allClosedOK_spec factsGen_good (by decide)

/-- ... while right after the two closes the forwarder has not noticed yet (`pendings = [3]`):
    the hypothesis is needed (`writer_told_late_through_forwarder`) -/
example : (match runOps factsGen 60 [{}] 0 (treeOps2 ++ [.close 6, .close 7]) with
    | .ok (n :: _, _) => (n.readers, pendings n, (getPipe n 0).map (·.recvClosed), (getPipe n 1).map (·.recvClosed))
    | _ => ([], [], none, none)) = ([], [3], some false, some true) := by decide

/-! ### no blocked writer / progress through whole networks (partial)

  FULL STATEMENT (not proved; kept visible):
    tree_progress : ∀ reachable net, (some writer still has something to send ∨ some held reader
      has not seen io.EOF) → some step of the network is enabled (a `Send`, a `Recv` of a held
      reader, or a forwarder noticing), for every tree and every schedule.
  It is FALSE in the network model as it stands, because `Recv` is one atomic step there: a
  convert that drops every buffered item blocks *without consuming* them, so the pipe stays full
  and its writer blocked (`atomic_recv_blocks_behind_dropping_convert`, a negation witness on the
  model, not on the code: the real `streamReaderWithConvert.recv` consumes the dropped items
  before it blocks).  What is proved for every tree and every schedule:
    * `tree_no_blocked_writer_after_close` — once every reader is closed and every forwarder has
      noticed, no `Send` can block: it returns `closed` at once;
    * `tree_eof_progress_partial` — once every writer has closed, every held reader can take a
      `Recv` step, in every network none of whose converts drops items (`NoSkip`), for the
      relational semantics `Recv` (of which the executable `recvAll` is a refinement).
  MISSING for the full statement: (1) a model of `Recv` that is not atomic over dropped items (then
  the `NoSkip` hypothesis and the witness go away); the loop over dropped items needs a
  termination measure = the length of the specified remaining sequence `Den`, i.e. uniqueness of
  `Den` up to permutation; (2) completeness of `recvAll` w.r.t. `Recv` (the closed-source-first
  order of the select loop) to state enabledness for the executable function; (3) the case of open
  writers (a ready source below every blocked reader), which needs the same two ingredients. -/

/-- **tree_no_blocked_writer_after_close.** After any schedule on any network, if every reader has
    been closed and every forwarder has noticed, a `Send` on any pipe whose writer is still open
    does not block and is not accepted: it returns `closed = true` at once. -/
theorem tree_no_blocked_writer_after_close {F : Facts} (g : GoodFacts F) (fuel : Nat) (ops : List Op) (net : Net)
    (h : Behaves F fuel {} ops net) (hr : net.readers = []) (hp : pendings net = [])
    (k : Nat) (p : Pipe) (hk : net.nodes[k]? = some (.pipe p)) (hs : p.sendClosed = false) (it : Item) :
    p.send it = some (p, true) := by
  have hc := (tree_close_propagates g fuel ops net h hr hp).1 k p hk
  simp [Pipe.send, hs, hc]

/-- **tree_eof_progress_partial.** In every reachable network none of whose converts drops items,
    once every writer has closed, every reader the caller holds can take a `Recv` step (an item
    or `io.EOF`): through every nesting of copy / merge / convert no reader is stuck behind a
    closed source, a drained copy, an exited or exiting forwarder (its `Close` of its source
    succeeds, `tree_close_never_twice`).  Partial: see the comment above. -/
theorem tree_eof_progress_partial {F : Facts} (g : GoodFacts F) (fuel : Nat) (ops : List Op) (net : Net)
    (h : Behaves F fuel {} ops net) (hw : AllSendClosed net) (hs : NoSkip net) (r : Nat) (hr : r ∈ net.readers) :
    ∃ obs net', Step F fuel net (.recv r obs) net' := by
  have i := h.inv g Inv.empty
  have p : PHyp net net.readers :=
    ⟨i.sh, i.st, fun r hr => i.rd.free' hr, h.closeInv g Inv.empty closeInv_empty, hw, hs⟩
  obtain ⟨res, net', tr, hrec⟩ := recv_enabled g net.readers (r + 1) r (Nat.lt_succ_self _) net p
    (.of_root (.inl hr)) (i.rd.kind r hr)
  exact ⟨res, net', .recv hr hrec⟩

/-- **atomic_recv_blocks_behind_dropping_convert (negation witness for whole-tree progress in the
    atomic model).** pipe(1) read through a convert that drops everything: after one accepted
    `Send` the pipe is full, the model's `Recv` of the convert is not enabled (`recvAll = []`: it
    would drop the item and then block, and the model does not split the call), and the next
    `Send` may block (`sendCode = 0`). -/
theorem atomic_recv_blocks_behind_dropping_convert :
    (match runOps factsGen 60 [{}] 0 [.pipe 1, .conv 0 ⟨0, 1, 0, 0, 0⟩, .send 0 ⟨5, 0⟩ false] with
     | .ok (n :: _, _) => ((recvAll factsGen 60 n 1).isEmpty, sendCode factsGen 60 n 0, n.readers)
     | _ => (false, 9, [])) = (true, 0, [1]) := by decide

/-- non-vacuity of `tree_eof_progress_partial`: copy(2) of merge(convert(pipe 0), pipe 1) with a
    convert that drops nothing, both writers closed with items still buffered, copy 6 partly read -/
example : ∃ net, Behaves factsGen 60 {}
      [.pipe 2, .pipe 1, .conv 0 ⟨100, 0, 0, 3, 1⟩, .merge [2, 1], .copy 4 2,
       .send 0 ⟨2, 0⟩ false, .send 0 ⟨1, 0⟩ false, .send 1 ⟨50, 0⟩ false, .recv 6 (.item ⟨50, 0⟩),
       .closeSend 0, .closeSend 1] net ∧
    AllSendClosed net ∧ NoSkip net ∧ 6 ∈ net.readers ∧ 7 ∈ net.readers := by
  have h : (match runOps factsGen 60 [{}] 0
      [.pipe 2, .pipe 1, .conv 0 ⟨100, 0, 0, 3, 1⟩, .merge [2, 1], .copy 4 2,
       .send 0 ⟨2, 0⟩ false, .send 0 ⟨1, 0⟩ false, .send 1 ⟨50, 0⟩ false, .recv 6 (.item ⟨50, 0⟩),
       .closeSend 0, .closeSend 1] with
      | .ok (n :: _, _) => allSendClosedB n && noSkipB n && n.readers.contains 6 && n.readers.contains 7
      | _ => false) = true := by decide
  split at h
  · rename_i n rest cr h0
    obtain ⟨m, hm, hb⟩ := runOps_behaves factsGen_good _ _ _ h0 n (by simp)
    simp at hm; subst hm
    simp only [Bool.and_eq_true] at h
    exact ⟨n, hb, allSendClosedB_spec h.1.1.1, noSkipB_spec h.1.1.2, by simpa using h.1.2, by simpa using h.2⟩
  · cases h

/-! ## a reader with history handed to a new consumer (family `late`)

  A reader may be passed to `MergeStreamReaders` / `StreamReaderWithConvert` / `Copy` at any
  moment of its life.  For the network model this is part of `tree_delivery` (the constructors of
  a schedule may come at any point, and `Den` of a copy starts at its cursor: `Den.childOpen`).
  The theorems of this section state it for the component that carries the history — the `Copy`
  cell — in terms of the source sequence, and tie it to the way `MergeStreamReaders` takes a copy
  (source facts `mergeTakes`, `mergeChildViaToStream`, `childRecvIsOwnPeek`, `mergeArrayFromIndex`). -/

/-- the hand-over facts as extracted from the source: a copy given to `MergeStreamReaders` is read
    by a forwarding goroutine (`sr.csr.toStream()`) whose loop calls `csr.recv`, which is
    `csr.parent.peek(csr.index)` -/
def lateFactsGen : LateFacts :=
  { childViaRecv := FactsC08.mergeChildViaToStream && FactsC08.childRecvIsOwnPeek &&
      FactsC08.childForwarderClosesSource,
    arrayFromIndex := FactsC08.mergeArrayFromIndex }

/-- The regenerated hand-over facts are the expected ones; in particular every clause of the
    `switch sr.typ` of `MergeStreamReaders` is the single statement expected for its reader type
    (`mergeTakes`: pipe ↦ its channel, array ↦ `arr[index:]`, merged ↦ its sources, convert and
    copy ↦ their own `toStream()`). -/
theorem late_facts_match :
    lateFactsGen = Expected.C08.lateFacts ∧ FactsC08.mergeTakes = Expected.C08.mergeTakes := by
  decide

/-- **late_handover_delivers_whole_source.** `n ≥ 1` copies of a source that delivers `l`; ANY
    interleaving `evs` of `Recv`s and `Close`s of the copies (siblings reading ahead — pulling items
    out of the source into the shared list —, lagging behind, being closed after reading or unread);
    then copy `i`, still open, is handed to `MergeStreamReaders`.  What the merged reader gets from
    it (`takeOver`: the forwarding goroutine reading the copy to the end) is exactly what copy `i`
    was still owed — the items waiting for it in the shared list followed by what the source still
    holds — so that what `i` received before the hand-over followed by what is delivered after it
    is the whole sequence `l`: nothing that a sibling had read ahead is lost, whether that sibling
    is closed by now or not, and whether `i` is the only copy left or not. -/
theorem late_handover_delivers_whole_source (wraps : Nat → Bool) (l : List Item) (n : Nat) (hn : 0 < n)
    (evs : List (CEv (List Item))) (hne : ∀ e ∈ evs, e.isEnv = false) (y : CopySys (List Item))
    (hr : (CopySys.init n l).run copyFactsGen listSrc evs = some y) (i k : Nat)
    (hc : y.core.cursors[i]? = some (some k)) :
    ∃ rest, takeOver lateFactsGen FactsC08.eofByIdentity wraps copyFactsGen y i = some rest ∧
      rest = y.core.log.drop k ++ y.src ∧ itemsOf i y.outs ++ rest = l := by
  have hv : lateFactsGen.childViaRecv = true := by decide
  have linv : LInv l y :=
    (show LInv l (CopySys.init n l) from ⟨by simp [CopySys.init], by simp [CopySys.init]⟩).run hne hr
  rw [copyFacts_good] at hr ⊢
  have inv := (CInv.init n hn l).run hn listSrc hr
  have hk := inv.cur i k hc
  have hd := drainChild_spec goodCopy rfl (listedFor y.core i + y.src.length + 1) y i k hc hk.1
    (fun he => linv.done (inv.eofMem.mp he)) (by simp [listedFor, hc])
  refine ⟨y.core.log.drop k ++ y.src, ?_, rfl, ?_⟩
  · simp only [takeOver, hv, if_true, hd, Option.map_some, forwarder_forwards_every_element]
  · rw [hk.2, ← List.append_assoc, List.take_append_drop, ← inv.pulledLog]
    exact linv.split

/-- non-vacuity, and the situation itself: five items, copy 0 reads two of them and is closed, copy
    1 — the only one left, nothing read — is handed over: it is owed all five (two from the list) -/
example : ((CopySys.init 2 [⟨1, 0⟩, ⟨2, 0⟩, ⟨3, 0⟩, ⟨4, 0⟩, ⟨5, 0⟩]).run copyFactsGen listSrc
      [.recv 0, .recv 0, .close 0]).bind (fun y =>
        (takeOver lateFactsGen FactsC08.eofByIdentity (fun _ => true) copyFactsGen y 1).map fun r =>
          (y.core.cursors, listedFor y.core 1, y.src, r))
    = some ([none, some 0], 2, [⟨3, 0⟩, ⟨4, 0⟩, ⟨5, 0⟩], [⟨1, 0⟩, ⟨2, 0⟩, ⟨3, 0⟩, ⟨4, 0⟩, ⟨5, 0⟩]) := by decide

/-- **late_array_handover.** An array reader that has delivered `index` items and is then handed
    to `MergeStreamReaders`: delivered before ++ taken over = the array (each item once). -/
theorem late_array_handover (arr : List Item) (index : Nat) :
    arr.take index ++ arrTakeOver lateFactsGen arr index = arr := by
  have h : lateFactsGen.arrayFromIndex = true := by decide
  simp [arrTakeOver, h]

/-- the network model the oracle runs says the same on this situation: after the late merge
    (copy 3 of pipe 0 merged with pipe 4; sibling 2 had read items 1 and 2 and was closed) the
    merged reader 6 delivers item 1 first … -/
example : (runOps factsGen 60 [{}] 0
    [.pipe 5, .send 0 ⟨1, 0⟩ false, .send 0 ⟨2, 0⟩ false, .send 0 ⟨3, 0⟩ false, .copy 0 2,
     .recv 2 (.item ⟨1, 0⟩), .recv 2 (.item ⟨2, 0⟩), .close 2, .pipe 1, .merge [3, 4],
     .recv 6 (.item ⟨1, 0⟩), .recv 6 (.item ⟨2, 0⟩), .recv 6 (.item ⟨3, 0⟩)]).toOption.isSome = true := by decide

/-- … and a delivery that starts behind the items the closed sibling had read is not a behaviour -/
example : (runOps factsGen 60 [{}] 0
    [.pipe 5, .send 0 ⟨1, 0⟩ false, .send 0 ⟨2, 0⟩ false, .send 0 ⟨3, 0⟩ false, .copy 0 2,
     .recv 2 (.item ⟨1, 0⟩), .recv 2 (.item ⟨2, 0⟩), .close 2, .pipe 1, .merge [3, 4],
     .recv 6 (.item ⟨3, 0⟩)]).toOption.isSome = false := by decide

/-! ## merged readers of any width: the two descriptions of "live source" (family `wide`)

  Delivery through a merged reader of ANY number of sources is `merge_per_source_order`,
  `merge_eof_after_all`, `merge_progress` (component model, `caps` an arbitrary list, both sides of
  `maxSelectNum`) and `tree_delivery` (network model: `Inter` over all remaining sources).  Those
  models describe the `reflect.Select` path as a select over `chosenList` (`selCases` above `maxSel`).
  The code keeps a second structure there, `itemsCases`, indexed by SOURCE INDEX.  The theorems of
  this section show that with the bookkeeping found in the source the two agree after every sequence
  of ends, for every width, so that the abstraction is sound: exactly the live sources are polled. -/

/-- the bookkeeping facts as extracted from `multiStreamReader.recv` / `newMultiStreamReader` -/
def wideFactsGen : WideFacts :=
  { disableByIndex := FactsC08.reflectDisablesChosenIndex && FactsC08.chosenRemovedByValue &&
      FactsC08.itemsCasesPerSource }

theorem wide_facts_match : wideFactsGen = Expected.C08.wideFacts := by decide

/-- **wide_polls_exactly_live.** A merged reader of ANY number `n` of sources; the ends of the
    sources `ends` are noticed one after the other, in ANY order (ascending, descending, with gaps,
    below and above `maxSelectNum` live sources).  Then: the sources a `Recv` polls are exactly the
    sources in `chosenList`; those are exactly the sources that have not ended; hence an item
    waiting in ANY source that has not ended is delivered even when every other source is silent;
    and `chosenList` is empty — `Recv` returns io.EOF — iff every source has ended. -/
theorem wide_polls_exactly_live (n : Nat) (ends : List Nat) (w : WideSt)
    (hr : (WideSt.init n).run wideFactsGen FactsC08.maxSelectNum ends = some w) :
    (∀ s, s ∈ w.polled FactsC08.maxSelectNum ↔ s ∈ w.chosen) ∧
    (∀ s, s ∈ w.chosen ↔ s < n ∧ s ∉ ends) ∧
    (∀ s, s < n → s ∉ ends → w.delivers FactsC08.maxSelectNum s = true) ∧
    (w.chosen = [] ↔ ∀ s, s < n → s ∈ ends) := by
  have hf : wideFactsGen = ⟨true⟩ := by decide
  rw [hf] at hr
  obtain ⟨inv, _, _, hc⟩ := WInv.run ends (WInv.init n FactsC08.maxSelectNum) hr
  have hch : ∀ s, s ∈ w.chosen ↔ s < n ∧ s ∉ ends := by
    intro s; rw [hc s]; simp [WideSt.init]
  refine ⟨inv.polled_iff, hch, ?_, ?_⟩
  · intro s hs he
    simp only [WideSt.delivers, List.contains_iff_mem]
    exact (inv.polled_iff s).mpr ((hch s).mpr ⟨hs, he⟩)
  · constructor
    · intro h0 s hs
      refine Classical.byContradiction fun hn => ?_
      have := (hch s).mpr ⟨hs, hn⟩
      simp [h0] at this
    · intro hall
      refine List.eq_nil_iff_forall_not_mem.mpr fun s hs => ?_
      have := (hch s).mp hs
      exact this.2 (hall s this.1)

/-- … and every order is a behaviour (the statement above is not vacuous for any order): noticing
    the end of a source that has not ended is always enabled. -/
theorem wide_every_end_order_is_a_run (n : Nat) (ends : List Nat) (hnd : ends.Nodup)
    (hlt : ∀ s ∈ ends, s < n) :
    ∃ w, (WideSt.init n).run wideFactsGen FactsC08.maxSelectNum ends = some w := by
  have hf : wideFactsGen = ⟨true⟩ := by decide
  rw [hf]
  exact WInv.run_enabled ends (WInv.init n FactsC08.maxSelectNum) hnd
    (fun s hs => by simpa [WideSt.init] using hlt s hs)

/-- **wide_model_select_is_the_polled_set.** The select of the component / network model (`selCases`
    with the extracted table: one case `(c, c)` per position `c` of `chosenList`) ranges over exactly
    the sources the code polls — below and above `maxSelectNum`. -/
theorem wide_model_select_is_the_polled_set (n : Nat) (ends : List Nat) (w : WideSt)
    (hr : (WideSt.init n).run wideFactsGen FactsC08.maxSelectNum ends = some w) (s : Nat) :
    s ∈ w.polled FactsC08.maxSelectNum ↔
      ∃ c, (c, c) ∈ selCases FactsC08.receiveN FactsC08.maxSelectNum w.chosen.length ∧ w.chosen[c]? = some s := by
  rw [(wide_polls_exactly_live n ends w hr).1 s, selCases_ok table_ok]
  constructor
  · intro hs
    obtain ⟨c, hc, he⟩ := List.getElem_of_mem hs
    exact ⟨c, by simp [hc], by simp [List.getElem?_eq_getElem hc, he]⟩
  · rintro ⟨c, _, hc⟩
    exact List.mem_of_getElem? hc

/-- eight sources, 0 and then 2 have ended (six live: the reflect path): every one of the six is
    polled, 0 and 2 are not -/
example : ((WideSt.init 8).run wideFactsGen FactsC08.maxSelectNum [0, 2]).map
    (fun w => (w.chosen, w.armed, w.polled FactsC08.maxSelectNum))
    = some ([1, 3, 4, 5, 6, 7], [false, true, false, true, true, true, true, true], [1, 3, 4, 5, 6, 7]) := by decide

/-! ## non-vacuity: concrete non-trivial behaviours -/

/-- a capacity-2 pipe: two sends, a receive, the third send, writer close, drain, EOF -/
example : (Pipe.runH (Pipe.new 2, {})
    [.send ⟨1, 0⟩, .send ⟨2, 7⟩, .recv, .send ⟨3, 0⟩, .closeSend, .recv, .recv, .recv]).map
      (fun ph => (ph.2.recvd, ph.2.eof)) = some ([⟨1, 0⟩, ⟨2, 7⟩, ⟨3, 0⟩], true) := by decide

/-- a full pipe blocks the writer; a closed reader is reported -/
example : Pipe.runH (Pipe.new 1, {}) [.send ⟨1, 0⟩, .send ⟨2, 0⟩] = none := by decide
example : (Pipe.runH (Pipe.new 1, {}) [.send ⟨1, 0⟩, .closeRecv, .send ⟨2, 0⟩]).map
    (fun ph => (ph.2.accepted, ph.2.refused)) = some ([⟨1, 0⟩], 1) := by decide

/-- three copies over a list source, interleaved reads, an early close and EOF -/
example : ((CopySys.init 3 [⟨1, 0⟩, ⟨2, 0⟩]).run copyFactsGen listSrc
    [.recv 0, .recv 1, .recv 0, .close 2, .recv 0, .recv 1, .recv 1, .close 0, .close 1]).map
      (fun y => (itemsOf 0 y.outs, itemsOf 1 y.outs, [eofOf 0 y.outs, eofOf 1 y.outs, eofOf 2 y.outs],
                 [y.pulled.length, y.core.srcClosed]))
    = some ([⟨1, 0⟩, ⟨2, 0⟩], [⟨1, 0⟩, ⟨2, 0⟩], [true, true, false], [3, 1]) := by decide

/-- a merge of two sources, both orders of delivery are behaviours -/
example : ((MergeSt.init [1, 1]).run FactsC08.receiveN FactsC08.maxSelectNum
    [.send 0 ⟨1, 0⟩, .send 1 ⟨2, 0⟩, .sel 1, .sel 0, .closeSend 0, .closeSend 1, .sel 0, .sel 0, .eof]).map
      (fun m => (m.outs, m.eofOut)) = some ([(1, ⟨2, 0⟩), (0, ⟨1, 0⟩)], true) := by decide
example : ((MergeSt.init [1, 1]).run FactsC08.receiveN FactsC08.maxSelectNum
    [.send 0 ⟨1, 0⟩, .send 1 ⟨2, 0⟩, .sel 0, .sel 1]).map
      (fun m => m.outs) = some [(0, ⟨1, 0⟩), (1, ⟨2, 0⟩)] := by decide

/-- six sources: above `maxSelectNum` every remaining source can still be selected -/
example : ((MergeSt.init [1, 1, 1, 1, 1, 1]).run FactsC08.receiveN FactsC08.maxSelectNum
    [.send 5 ⟨9, 0⟩, .sel 5, .closeSend 5, .sel 5, .send 4 ⟨8, 0⟩, .sel 4]).map
      (fun m => (m.outs, m.chosen)) = some ([(5, ⟨9, 0⟩), (4, ⟨8, 0⟩)], [0, 1, 2, 3, 4]) := by decide

/-- convert: map, skip, own error, source error -/
example : convDrain (fun v => if v = 2 then .skip else if v = 3 then .fail 30 5 else .val (v + 10))
    [⟨1, 0⟩, ⟨2, 0⟩, ⟨3, 0⟩, ⟨4, 9⟩] = [⟨11, 0⟩, ⟨30, 5⟩, ⟨0, 9⟩] := by
  rw [convDrain_eq]; decide

/-! ## the other values of the facts break the property (negation witnesses) -/

/-- With `errors.Is(err, io.EOF)` in the forwarder an error element that wraps io.EOF (here:
    error 7) ends the forwarding: the element is swallowed and everything after it is lost. -/
theorem forwarder_with_errorsIs_loses_items :
    fwdLoop false (fun e => e % 3 == 1) [⟨1, 0⟩, ⟨0, 7⟩, ⟨3, 0⟩, ⟨0, 9⟩] = [⟨1, 0⟩] ∧
    fwdLoop true (fun e => e % 3 == 1) [⟨1, 0⟩, ⟨0, 7⟩, ⟨3, 0⟩, ⟨0, 9⟩] = [⟨1, 0⟩, ⟨0, 7⟩, ⟨3, 0⟩, ⟨0, 9⟩] := by
  decide

/-- With `!errors.Is(err, io.EOF)` in `peek` a copy returns such an element for ever and never
    reaches the items behind it nor the end of the stream (opaque error 9 does no harm). -/
theorem copy_with_errorsIs_repeats_element :
    peekLoop false (fun e => e % 3 == 1) 4 [⟨1, 0⟩, ⟨0, 7⟩, ⟨3, 0⟩] =
      [.item ⟨1, 0⟩, .item ⟨0, 7⟩, .item ⟨0, 7⟩, .item ⟨0, 7⟩] ∧
    peekLoop false (fun e => e % 3 == 1) 4 [⟨1, 0⟩, ⟨0, 9⟩, ⟨3, 0⟩] =
      [.item ⟨1, 0⟩, .item ⟨0, 9⟩, .item ⟨3, 0⟩, .eof] := by
  decide

/-- Without `sync.Once` around the fill every child reads the source itself: the second
    child misses the first item. -/
theorem copy_without_once_loses_items :
    ((CopySys.init 2 [⟨1, 0⟩, ⟨2, 0⟩]).run { copyFactsGen with fillOnce := false } listSrc
      [.recv 0, .recv 1]).map (fun y => itemsOf 1 y.outs) = some [⟨2, 0⟩] := by decide

/-- If `close` did not count the closed children the source would never be closed. -/
theorem copy_without_count_never_closes_source :
    ((CopySys.init 2 [⟨1, 0⟩]).run { copyFactsGen with closeIncr := false } listSrc
      [.close 0, .close 1]).map (fun y => y.core.srcClosed) = some 0 := by decide

/-- If the counter were compared with anything but the number of children the source would
    be closed while a child still reads. -/
theorem copy_wrong_comparison_closes_early :
    ((CopySys.init 2 [⟨1, 0⟩]).run { copyFactsGen with closeAtLen := false } listSrc
      [.close 0]).map (fun y => (y.core.srcClosed, y.core.cursors)) = some (1, [none, some 0]) := by decide

/-- A select case that reports another index than the one it received from drops an open
    source: the merged reader returns `io.EOF` while source 1 still holds an item. -/
theorem merge_wrong_table_loses_source :
    ((MergeSt.init [1, 1]).run [[], [(0, 0)], [(0, 1), (1, 1)]] 2
      [.send 1 ⟨7, 0⟩, .closeSend 0, .sel 0, .closeSend 1, .sel 0, .eof]).map
      (fun m => (m.eofOut, m.outs, m.srcs.map (·.buf))) = some (true, [], [[], [⟨7, 0⟩]]) := by decide

/-- If `MergeStreamReaders` took the channel behind the copies instead of reading the copy through
    its own receive path (say, because the copy is the only one still open), the items a sibling
    had read ahead — which exist only in the shared list — would be lost: here 1 and 2. -/
theorem handover_bypassing_cursor_loses_read_ahead :
    ((CopySys.init 2 [⟨1, 0⟩, ⟨2, 0⟩, ⟨3, 0⟩, ⟨4, 0⟩, ⟨5, 0⟩]).run copyFactsGen listSrc
      [.recv 0, .recv 0, .close 0]).bind (fun y =>
        (takeOver { lateFactsGen with childViaRecv := false } FactsC08.eofByIdentity (fun _ => true) copyFactsGen y 1).map
          fun r => (itemsOf 1 y.outs, r))
    = some ([], [⟨3, 0⟩, ⟨4, 0⟩, ⟨5, 0⟩]) := by decide

/-- If an array reader were merged as its whole array instead of `arr[index:]`, the items already
    delivered would be delivered again. -/
theorem array_handover_ignoring_index_repeats_items :
    [⟨1, 0⟩, ⟨2, 0⟩, ⟨3, 0⟩].take 1 ++
      arrTakeOver { lateFactsGen with arrayFromIndex := false } [⟨1, 0⟩, ⟨2, 0⟩, ⟨3, 0⟩] 1
    = [(⟨1, 0⟩ : Item), ⟨1, 0⟩, ⟨2, 0⟩, ⟨3, 0⟩] := by decide

/-- If the case were switched off at the POSITION of the ended source in `chosenList` instead of at
    its index: eight sources, 0 ends, then 2 (position 1 among the live ones) — the case of source 1,
    which is still open, is switched off and that of source 2 stays on: an item in source 1 is not
    delivered while six sources are live.  In the order 2, 0 nothing goes wrong. -/
theorem wide_disable_by_position_starves_live_source :
    ((WideSt.init 8).run { disableByIndex := false } FactsC08.maxSelectNum [0, 2]).map
      (fun w => (w.chosen, w.armed, w.delivers FactsC08.maxSelectNum 1))
      = some ([1, 3, 4, 5, 6, 7], [false, false, true, true, true, true, true, true], false) ∧
    ((WideSt.init 8).run { disableByIndex := false } FactsC08.maxSelectNum [2, 0]).map
      (fun w => (w.chosen, w.delivers FactsC08.maxSelectNum 1)) = some ([1, 3, 4, 5, 6, 7], true) := by
  decide

end EinoV.C08
