/-
  C07 — A graph that compiles cannot hit a type mismatch between concretely typed nodes.
  Property theorems.  Models: EinoV/Model/C20Builder.lean (builder, shared with C20),
  EinoV/Model/C07.lean (run).  Source facts: EinoV/Gen/FactsC07.lean.
-/
import EinoV.Model.C20Builder
import EinoV.Model.C07
import EinoV.Proofs.C07
import EinoV.Gen.FactsC07
import EinoV.Expected.C07

namespace EinoV.C07
open EinoV.Gen EinoV.Build

/-- model configuration read off the source (the guards and the compile facts belong to C20
    and are taken at their expected value here) -/
def srcFacts : Facts :=
  { Expected.C20.facts with
    branchGuarded := FactsC07.branchPassthroughGuarded,
    branchPropagates := FactsC07.branchPropagates }

/-- Source fact tie. -/
theorem facts_match :
    srcFacts = Expected.C20.facts ∧
    FactsC07.checkAssignableShape = Expected.C07.checkAssignableShape ∧
    FactsC07.updateInferConds = Expected.C07.updateInferConds ∧
    FactsC07.branchMayInstallsConverter = true ∧ FactsC07.edgeMayInstallsConverter = true := by
  decide

end EinoV.C07
