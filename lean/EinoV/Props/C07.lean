/-
  C07 — A graph that compiles cannot hit a type mismatch between concretely typed nodes.
  Property theorems.  Models: EinoV/Model/C20Builder.lean (builder, shared with C20),
  EinoV/Model/C07.lean (run).  Source facts: EinoV/Gen/FactsC07.lean.
-/
import EinoV.Model.C20Builder
import EinoV.Model.C07
import EinoV.Model.C07Types
import EinoV.Proofs.C07
import EinoV.Proofs.C20Ends
import EinoV.Gen.FactsC07
import EinoV.Expected.C07

namespace EinoV.C07
open EinoV.Gen EinoV.Build

/-- model configuration read off the source (the guards and the compile facts belong to C20
    and are taken at their expected value here) -/
def srcFacts : Facts :=
  { Expected.C20.facts with
    branchGuarded := FactsC07.branchPassthroughGuarded,
    branchPropagates := FactsC07.branchPropagates }

/-- Source fact tie: addBranch types a pass-through start node only while its type is
    unknown and then runs the work list; checkAssignable is the decision list the model
    transcribes; updateToValidateMap infers only into unknown types; both `may` sites install
    the run-time converter. -/
theorem facts_match :
    srcFacts = Expected.C20.facts ∧
    FactsC07.checkAssignableShape = Expected.C07.checkAssignableShape ∧
    FactsC07.updateInferConds = Expected.C07.updateInferConds ∧
    FactsC07.branchMayInstallsConverter = true ∧ FactsC07.edgeMayInstallsConverter = true := by
  decide

/-! ## the assignability table -/

/-- **assignable_table.** The three answers of `checkAssignable` agree with Go assignability
    of values: `must` ⇒ every value of the upstream type fits downstream; `may` is only
    answered for an interface upstream; between two concrete types the answer is `must` iff
    the types are equal, `mustNot` otherwise, and then no value fits. -/
theorem assignable_table (im : Impl) (ht : ImplTrans im) (A B : Ty) :
    (checkAssignable im (some A) (some B) = .must → ∀ d, dynOk im d A = true → dynOk im d B = true) ∧
    (checkAssignable im (some A) (some B) = .may → A.isIface = true) ∧
    (∀ a b, A = .conc a → B = .conc b →
      checkAssignable im (some A) (some B) = (if a = b then .must else .mustNot) ∧
      ∀ d, dynOk im d A = true → (dynOk im d B = true ↔ a = b)) := by
  refine ⟨fun h d hd => must_sound im ht A B h d hd, may_upstream_iface im A B, ?_⟩
  intro a b ha hb; subst ha; subst hb
  exact concrete_table im a b

/-! ## eino's rule and Go's assignability (defined types, unnamed literals, channel directions) -/

/-- **eino_rule_within_go.** Whatever eino's rule declares assignable for sure is assignable
    in Go, for every description of the concrete types: the rule only ever asks for less
    than `reflect.Type.AssignableTo`. -/
theorem eino_rule_within_go (u : Univ) (im : Impl) (A B : Ty)
    (h : checkAssignable im (some A) (some B) = .must) : goAssignable u im A B = true := by
  have h' : B = A ∨ (B.isIface = true ∧ implements im A B = true) := by
    simp only [checkAssignable] at h
    by_cases h1 : B = A
    · exact Or.inl h1
    · by_cases h2 : (B.isIface && implements im A B) = true
      · right; simpa using h2
      · rw [if_neg h1, if_neg h2] at h
        split at h
        · split at h <;> simp at h
        · simp at h
  rcases h' with rfl | ⟨hi, hm⟩
  · cases B <;> simp [goAssignable, goAssignableConc]
  · cases A <;> cases B <;> simp_all [goAssignable, Ty.isIface]

/-- **relaxed_rule_unsound_exactly.** The converse fails, and exactly there the rule must not
    be relaxed: if the check answered "assignable for sure" whenever Go's `AssignableTo` holds
    (`relaxedCheck`), then between two concrete types it would accept a connection on which
    the receiving type assertion `v.(B)` fails – for *every* value of the upstream type – iff
    the types are distinct and Go-assignable: a defined type against the unnamed literal with
    the identical underlying type (either direction), or a bidirectional channel against a
    directional one.  (With eino's own rule, `assignable_table`: `must` ⇒ the assertion
    succeeds.) -/
theorem relaxed_rule_unsound_exactly (u : Univ) (im : Impl) (a b : Nat) :
    (relaxedCheck u im (some (.conc a)) (some (.conc b)) = .must ∧ dynOk im a (.conc b) = false) ↔
    (a ≠ b ∧ goAssignableConc u a b = true) := by
  have ht := (concrete_table im a b).1
  simp only [relaxedCheck, goAssignable, dynOk, ht]
  by_cases hab : a = b
  · subst hab; simp
  · have : (b == a) = false := by simp; exact fun h => hab h.symm
    simp [hab, this]

/-! ## what compiles is sound -/

/-- **compiled_edges_sound.** For every sequence of public Graph-API calls (nodes with any
    types and handlers, AddEdge, AddBranch with any number of end nodes, Compile – in any
    order, failing calls included), every `implements` relation and every Go map iteration
    order: each runnable that a Compile hands out has all its data edges, all its branch
    conditions and all its branch → end-node connections validated – assignable for sure, or
    possibly assignable *with* the run-time converter installed. -/
theorem compiled_edges_sound (im : Impl) (ord : Ord) (hv : ord.Valid)
    (cmp : Cmp) (inT outT : Ty) (st : Option Nat) (ops : List Op)
    (hops : ∀ op ∈ ops, op.isGraphApi = true) :
    ∀ r ∈ (run srcFacts im ord (Builder.new cmp inT outT st) ops).2.2, SoundRunner im r :=
  run_runners_sound srcFacts (by decide) (by decide) im ord hv ops _ hops (Inv.new im cmp inT outT st)

/-- …in particular: a data edge of a compiled graph whose two declared types are both
    concrete connects equal types. -/
theorem compiled_concrete_edges_equal (im : Impl) (ord : Ord) (hv : ord.Valid)
    (cmp : Cmp) (inT outT : Ty) (st : Option Nat) (ops : List Op)
    (hops : ∀ op ∈ ops, op.isGraphApi = true)
    (r : Runner) (hr : r ∈ (run srcFacts im ord (Builder.new cmp inT outT st) ops).2.2)
    (s e : Key) (he : (s, e) ∈ r.dataEdges) (a b : Nat)
    (ha : r.outOf s = some (.conc a)) (hb : r.inOf e = some (.conc b)) : a = b := by
  have hs := (compiled_edges_sound im ord hv cmp inT outT st ops hops r hr).edges (s, e) he
  unfold SoundConn at hs
  rw [ha, hb, (concrete_table im a b).1] at hs
  by_cases h : a = b
  · exact h
  · simp [h] at hs

/-- **inference_order_free.**  Which calls are accepted – hence which graphs compile at all –
    does not depend on Go's map iteration orders (work list, branch end nodes, Kahn's
    counters): two runs of the same Graph-API call sequence under any two orders agree on the
    outcome class of every call.  (Proved once for C20 and C07: Proofs/C20Order, C20Ends.) -/
theorem inference_order_free (im : Impl) (ord ord' : Ord) (hv : ord.Valid) (hv' : ord'.Valid)
    (cmp : Cmp) (inT outT : Ty) (st : Option Nat) (ops : List Op)
    (hops : ∀ op ∈ ops, op.isGraphApi = true) :
    (run srcFacts im ord (Builder.new cmp inT outT st) ops).2.1.map Outcome.cls =
    (run srcFacts im ord' (Builder.new cmp inT outT st) ops).2.1.map Outcome.cls :=
  run_order_free srcFacts ⟨rfl, rfl, rfl⟩ (by decide) (by decide) (by decide) im ord ord' hv hv' ops _ _ hops
    (Or.inl ⟨Sim.refl _ rfl, Inv_new im cmp inT outT st, Inv_new im cmp inT outT st, KeysOK_new cmp inT outT st⟩)

/-- **run_no_type_panic.** No run of such a runnable – whatever the node bodies return
    (within their declared output types), whatever the branch conditions choose, whatever the
    dynamic type of the input – reaches a failing `input.(T)` assertion of a node, a state
    handler, a branch condition or the final output conversion. -/
theorem run_no_type_panic (im : Impl) (ht : ImplTrans im) (ord : Ord) (hv : ord.Valid)
    (cmp : Cmp) (inT outT : Ty) (st : Option Nat) (ops : List Op)
    (hops : ∀ op ∈ ops, op.isGraphApi = true)
    (r : Runner) (hr : r ∈ (run srcFacts im ord (Builder.new cmp inT outT st) ops).2.2)
    (c : Code) (hc : CodeOk im r c) (fuel : Nat) (d0 : Dyn) (hd : dynOk im d0 r.inT = true) :
    runGraph im r c fuel d0 ≠ .panic :=
  runGraph_no_panic ht (compiled_edges_sound im ord hv cmp inT outT st ops hops r hr) hc fuel d0 hd

/-- **may_edge_errors_iff.** On a data edge of such a runnable, a value that fits the
    upstream type makes the framework report an ordinary error exactly when the upstream type
    is an interface and the value's dynamic type is not assignable to the downstream type. -/
theorem may_edge_errors_iff (im : Impl) (ht : ImplTrans im) (ord : Ord) (hv : ord.Valid)
    (cmp : Cmp) (inT outT : Ty) (st : Option Nat) (ops : List Op)
    (hops : ∀ op ∈ ops, op.isGraphApi = true)
    (r : Runner) (hr : r ∈ (run srcFacts im ord (Builder.new cmp inT outT st) ops).2.2)
    (s e : Key) (he : (s, e) ∈ r.dataEdges) (A B : Ty) (ho : r.outOf s = some A) (hi : r.inOf e = some B)
    (d : Dyn) (hd : dynOk im d A = true) :
    convert im r s e d = .typeErr ↔ (A.isIface = true ∧ dynOk im d B = false) :=
  convert_typeErr_iff ht ((compiled_edges_sound im ord hv cmp inT outT st ops hops r hr).edges (s, e) he) ho hi hd

/-! ## non-vacuity, the menu relation, negation witnesses -/

/-- the relation of the harness menu: c3 implements i0 and i1, c4 implements i0, i1 ⊇ i0 -/
def menuImpl : Impl := [(.conc 3, 0), (.conc 3, 1), (.conc 4, 0), (.iface 1, 0)]

theorem menuImpl_trans : ImplTrans menuImpl := by
  intro t u v hu h1 h2
  cases v with
  | any => rfl
  | conc c => simp [implements] at h2
  | iface j =>
    cases u with
    | conc c => simp [Ty.isIface] at hu
    | any =>
      simp [implements, menuImpl] at h2
    | iface i =>
      simp only [implements, menuImpl, Bool.or_eq_true, beq_iff_eq, List.contains_eq_mem,
        List.mem_cons, Prod.mk.injEq, List.mem_nil_iff, or_false, decide_eq_true_eq] at h1 h2 ⊢
      rcases h2 with h2 | h2
      · cases h2; exact h1
      · rcases h2 with ⟨h2, rfl⟩ | ⟨h2, rfl⟩ | ⟨h2, rfl⟩ | ⟨h2, rfl⟩
        all_goals first | (simp at h2; done) | skip
        -- u = iface 1, v = iface 0
        cases h2
        rcases h1 with h1 | h1
        · subst h1; simp
        · rcases h1 with ⟨rfl, h⟩ | ⟨rfl, h⟩ | ⟨rfl, h⟩ | ⟨rfl, h⟩ <;> simp_all

def lam (k : Key) (i o : Ty) : Op :=
  .node { key := k, passthrough := false, inTy := i, outTy := o, pre := none, post := none, nodeKeyOpt := false }
def pt (k : Key) : Op :=
  .node { key := k, passthrough := true, inTy := .any, outTy := .any, pre := none, post := none, nodeKeyOpt := false }
def edge (s e : Key) : Op := .edge s e false false none
def copts : COpts := { trigger := .unset, maxSteps := 0, getState := false }

/-- a(any→any) → p (pass-through, inferred any) → b(i0→c0): the edge p→b is a `may` edge;
    the graph compiles; a value implementing i0 runs through, another one is an ordinary error -/
def exOps : List Op :=
  [lam "a" .any .any, pt "p", lam "b" (.iface 0) (.conc 0),
   edge START "a", edge "a" "p", edge "p" "b", edge "b" END, .compile copts]

def exCode (ret : Dyn) : Code := { body := fun k _ => if k = "a" then ret else 0, pick := fun _ _ _ => END }

example : (run srcFacts menuImpl Ord.id (Builder.new .graph .any (.conc 0) none) exOps).2.1
    = [.ok, .ok, .ok, .ok, .ok, .ok, .ok, .ok] := by decide

example : (run srcFacts menuImpl Ord.id (Builder.new .graph .any (.conc 0) none) exOps).2.2.map
      (fun r => (runGraph menuImpl r (exCode 3) 20 1, runGraph menuImpl r (exCode 1) 20 1))
    = [(.ok, .typeErr)] := by decide

example : ∀ op ∈ exOps, op.isGraphApi = true := by decide

/-- the defect of the unfixed source: with the unguarded assignment in addBranch,
    a(c0→c0) → p, then a branch on p with an int (c1) condition: the graph compiles and the
    run panics in the branch's type assertion -/
theorem unguarded_branch_panics :
    let f := { Expected.C20.facts with branchGuarded := false }
    let ops := [lam "a" (.conc 0) (.conc 0), lam "b" (.conc 1) (.conc 0), lam "c" (.conc 1) (.conc 0), pt "p",
      edge START "a", edge "a" "p", .branch "p" (.conc 1) ["b", "c"] false, edge "b" END, edge "c" END,
      .compile copts]
    let st := run f menuImpl Ord.id (Builder.new .graph (.conc 0) (.conc 0) none) ops
    st.2.1 = [.ok, .ok, .ok, .ok, .ok, .ok, .ok, .ok, .ok, .ok] ∧
    st.2.2.map (fun r => runGraph menuImpl r { body := fun _ _ => 0, pick := fun _ _ _ => "b" } 20 0) = [.panic] := by
  decide

/-- with the guard the same AddBranch call is refused -/
theorem guarded_branch_rejected :
    (run Expected.C20.facts menuImpl Ord.id (Builder.new .graph (.conc 0) (.conc 0) none)
      [lam "a" (.conc 0) (.conc 0), pt "p", edge START "a", edge "a" "p",
       .branch "p" (.conc 1) ["b", "c"] false]).2.1
    = [.ok, .ok, .ok, .ok, .fresh .branchMismatch] := by decide

/-- second defect: when addBranch does not run the work list after typing a pass-through
    start node (zero end nodes), the result of the same call sequence depends on Go's map
    iteration order: one order installs the converter (ordinary error), the other leaves the
    edge unchecked and the run panics -/
def revOrd : Ord := { Ord.id with keys := fun _ l => l.reverse }

theorem unpropagated_branch_order_dependent :
    let f := { Expected.C20.facts with branchPropagates := false }
    let ops := [pt "p", pt "e1", pt "e2", edge "p" "e1", edge "p" "e2",
      .branch "e1" (.conc 0) [] false, .branch "e2" .any [] false,
      edge START "p", edge "e2" END, .compile copts]
    let go (o : Ord) := (run f menuImpl o (Builder.new .graph .any .any none) ops).2.2.map
      (fun r => runGraph menuImpl r { body := fun _ d => d, pick := fun _ _ _ => "" } 20 1)
    go Ord.id = [.panic] ∧ go revOrd = [.typeErr] := by
  decide

/-! ## defined types over unnamed members of the menu -/

/-- the connections of the harness menu (14 concrete types) that Go's rule accepts beyond
    identity: map[string]any ↔ MyMap, []int ↔ Ints, func(int) int ↔ Fn, chan int → <-chan int
    (and not string ↔ MyStr: both named).  The harness checks the same table against
    reflect (oracle query "universe"). -/
theorem menu_go_only_pairs :
    ((List.range menuConcrete).flatMap fun a =>
      ((List.range menuConcrete).filter fun b => a != b && goAssignableConc menuUniv a b).map fun b => (a, b))
    = [(5, 6), (6, 5), (7, 8), (8, 7), (10, 11), (11, 10), (12, 13)] := by decide

/-- eino's rule refuses such a connection wherever it is attempted: a data edge in either
    direction, through a pass-through node typed from upstream or from downstream, as a branch
    condition, START → END between channel directions -/
theorem named_unnamed_rejected :
    (run srcFacts menuImpl Ord.id (Builder.new .graph (.conc 6) (.conc 5) none)
      [lam "b" (.conc 5) (.conc 5), edge START "b"]).2.1 = [.ok, .fresh .edgeMismatch] ∧
    (run srcFacts menuImpl Ord.id (Builder.new .graph (.conc 5) (.conc 6) none)
      [lam "b" (.conc 6) (.conc 6), edge START "b"]).2.1 = [.ok, .fresh .edgeMismatch] ∧
    (run srcFacts menuImpl Ord.id (Builder.new .graph (.conc 6) (.conc 5) none)
      [pt "p", lam "b" (.conc 5) (.conc 5), edge START "p", edge "p" "b"]).2.1
      = [.ok, .ok, .ok, .fresh .edgeMismatch] ∧
    (run srcFacts menuImpl Ord.id (Builder.new .graph (.conc 6) (.conc 5) none)
      [pt "p", lam "b" (.conc 5) (.conc 5), edge "p" "b", edge START "p"]).2.1
      = [.ok, .ok, .ok, .fresh .edgeMismatch] ∧
    (run srcFacts menuImpl Ord.id (Builder.new .graph (.conc 6) (.conc 6) none)
      [lam "x" (.conc 6) (.conc 6), lam "y" (.conc 6) (.conc 6), .branch START (.conc 5) ["x", "y"] false]).2.1
      = [.ok, .ok, .fresh .branchMismatch] ∧
    (run srcFacts menuImpl Ord.id (Builder.new .graph (.conc 12) (.conc 13) none)
      [edge START END]).2.1 = [.fresh .edgeMismatch] := by decide

/-- what the relaxed rule would let through: `relaxedCheck` answers `must` for
    MyMap → map[string]any; the graph a(MyMap→MyMap) → b(map→map) with that edge accepted
    (no converter: the answer was "for sure") panics in b's `input.(map[string]any)` -/
theorem relaxed_rule_graph_panics :
    relaxedCheck menuUniv menuImpl (some (.conc 6)) (some (.conc 5)) = .must ∧
    (run srcFacts menuImpl Ord.id (Builder.new .graph (.conc 6) (.conc 5) none)
      [lam "a" (.conc 6) (.conc 6), lam "b" (.conc 5) (.conc 5), edge START "a", edge "b" END, .compile copts]).2.2.map
      (fun r => runGraph menuImpl { r with dataEdges := r.dataEdges ++ [("a", "b")] }
        { body := fun k _ => if k = "a" then 6 else 5, pick := fun _ _ _ => END } 20 6) = [.panic] := by
  decide

end EinoV.C07
