/-
  C07 — A graph that compiles cannot hit a type mismatch between concretely typed nodes.
  Property theorems.  Models: EinoV/Model/C20Builder.lean (builder, shared with C20),
  EinoV/Model/C07.lean (run), EinoV/Model/C20Wf.lean + EinoV/Model/C07Wf.lean (Workflow
  declarations, their replay at Compile, DAG runs).  Source facts: EinoV/Gen/FactsC07.lean.
-/
import EinoV.Model.C20Builder
import EinoV.Model.C07
import EinoV.Model.C07Types
import EinoV.Model.C07Wf
import EinoV.Proofs.C07
import EinoV.Proofs.C07Wf
import EinoV.Proofs.C20Ends
import EinoV.Gen.FactsC07
import EinoV.Expected.C07

namespace EinoV.C07
open EinoV.Gen EinoV.Build

/-- model configuration read off the source (the guards and the compile facts belong to C20
    and are taken at their expected value here) -/
def srcFacts : Facts :=
  { Expected.C20.facts with
    branchGuarded := FactsC07.branchPassthroughGuarded,
    branchPropagates := FactsC07.branchPropagates }

/-- Source fact tie: addBranch types a pass-through start node only while its type is
    unknown and then runs the work list; checkAssignable is the decision list the model
    transcribes; updateToValidateMap infers only into unknown types; both `may` sites install
    the run-time converter; addBranch checks the condition type before it looks at `skipData`
    (the model's `addBranchBody` does: a Workflow branch is checked like any other). -/
theorem facts_match :
    srcFacts = Expected.C20.facts ∧
    FactsC07.checkAssignableShape = Expected.C07.checkAssignableShape ∧
    FactsC07.updateInferConds = Expected.C07.updateInferConds ∧
    FactsC07.branchMayInstallsConverter = true ∧ FactsC07.edgeMayInstallsConverter = true ∧
    FactsC07.branchCheckedWithoutData = true := by
  decide

/-! ## the assignability table -/

/-- **assignable_table.** The three answers of `checkAssignable` agree with Go assignability
    of values: `must` ⇒ every value of the upstream type fits downstream; `may` is only
    answered for an interface upstream; between two concrete types the answer is `must` iff
    the types are equal, `mustNot` otherwise, and then no value fits. -/
theorem assignable_table (im : Impl) (ht : ImplTrans im) (A B : Ty) :
    (checkAssignable im (some A) (some B) = .must → ∀ d, dynOk im d A = true → dynOk im d B = true) ∧
    (checkAssignable im (some A) (some B) = .may → A.isIface = true) ∧
    (∀ a b, A = .conc a → B = .conc b →
      checkAssignable im (some A) (some B) = (if a = b then .must else .mustNot) ∧
      ∀ d, dynOk im d A = true → (dynOk im d B = true ↔ a = b)) := by
  refine ⟨fun h d hd => must_sound im ht A B h d hd, may_upstream_iface im A B, ?_⟩
  intro a b ha hb; subst ha; subst hb
  exact concrete_table im a b

/-! ## eino's rule and Go's assignability (defined types, unnamed literals, channel directions) -/

/-- **eino_rule_within_go.** Whatever eino's rule declares assignable for sure is assignable
    in Go, for every description of the concrete types: the rule only ever asks for less
    than `reflect.Type.AssignableTo`. -/
theorem eino_rule_within_go (u : Univ) (im : Impl) (A B : Ty)
    (h : checkAssignable im (some A) (some B) = .must) : goAssignable u im A B = true := by
  have h' : B = A ∨ (B.isIface = true ∧ implements im A B = true) := by
    simp only [checkAssignable] at h
    by_cases h1 : B = A
    · exact Or.inl h1
    · by_cases h2 : (B.isIface && implements im A B) = true
      · right; simpa using h2
      · rw [if_neg h1, if_neg h2] at h
        split at h
        · split at h <;> simp at h
        · simp at h
  rcases h' with rfl | ⟨hi, hm⟩
  · cases B <;> simp [goAssignable, goAssignableConc]
  · cases A <;> cases B <;> simp_all [goAssignable, Ty.isIface]

/-- **relaxed_rule_unsound_exactly.** The converse fails, and exactly there the rule must not
    be relaxed: if the check answered "assignable for sure" whenever Go's `AssignableTo` holds
    (`relaxedCheck`), then between two concrete types it would accept a connection on which
    the receiving type assertion `v.(B)` fails – for *every* value of the upstream type – iff
    the types are distinct and Go-assignable: a defined type against the unnamed literal with
    the identical underlying type (either direction), or a bidirectional channel against a
    directional one.  (With eino's own rule, `assignable_table`: `must` ⇒ the assertion
    succeeds.) -/
theorem relaxed_rule_unsound_exactly (u : Univ) (im : Impl) (a b : Nat) :
    (relaxedCheck u im (some (.conc a)) (some (.conc b)) = .must ∧ dynOk im a (.conc b) = false) ↔
    (a ≠ b ∧ goAssignableConc u a b = true) := by
  have ht := (concrete_table im a b).1
  simp only [relaxedCheck, goAssignable, dynOk, ht]
  by_cases hab : a = b
  · subst hab; simp
  · have : (b == a) = false := by simp; exact fun h => hab h.symm
    simp [hab, this]

/-! ## what compiles is sound -/

/-- **compiled_edges_sound.** For every sequence of public Graph-API calls (nodes with any
    types and handlers, AddEdge, AddBranch with any number of end nodes, Compile – in any
    order, failing calls included), every `implements` relation and every Go map iteration
    order: each runnable that a Compile hands out has all its data edges, all its branch
    conditions and all its branch → end-node connections validated – assignable for sure, or
    possibly assignable *with* the run-time converter installed. -/
theorem compiled_edges_sound (im : Impl) (ord : Ord) (hv : ord.Valid)
    (cmp : Cmp) (inT outT : Ty) (st : Option Nat) (ops : List Op)
    (hops : ∀ op ∈ ops, op.isGraphApi = true) :
    ∀ r ∈ (run srcFacts im ord (Builder.new cmp inT outT st) ops).2.2, SoundRunner im r :=
  run_runners_sound srcFacts (by decide) (by decide) im ord hv ops _ hops (Inv.new im cmp inT outT st)

/-- …in particular: a data edge of a compiled graph whose two declared types are both
    concrete connects equal types. -/
theorem compiled_concrete_edges_equal (im : Impl) (ord : Ord) (hv : ord.Valid)
    (cmp : Cmp) (inT outT : Ty) (st : Option Nat) (ops : List Op)
    (hops : ∀ op ∈ ops, op.isGraphApi = true)
    (r : Runner) (hr : r ∈ (run srcFacts im ord (Builder.new cmp inT outT st) ops).2.2)
    (s e : Key) (he : (s, e) ∈ r.dataEdges) (a b : Nat)
    (ha : r.outOf s = some (.conc a)) (hb : r.inOf e = some (.conc b)) : a = b := by
  have hs := (compiled_edges_sound im ord hv cmp inT outT st ops hops r hr).edges (s, e) he
  unfold SoundConn at hs
  rw [ha, hb, (concrete_table im a b).1] at hs
  by_cases h : a = b
  · exact h
  · simp [h] at hs

/-- **inference_order_free.**  Which calls are accepted – hence which graphs compile at all –
    does not depend on Go's map iteration orders (work list, branch end nodes, Kahn's
    counters): two runs of the same Graph-API call sequence under any two orders agree on the
    outcome class of every call.  (Proved once for C20 and C07: Proofs/C20Order, C20Ends.) -/
theorem inference_order_free (im : Impl) (ord ord' : Ord) (hv : ord.Valid) (hv' : ord'.Valid)
    (cmp : Cmp) (inT outT : Ty) (st : Option Nat) (ops : List Op)
    (hops : ∀ op ∈ ops, op.isGraphApi = true) :
    (run srcFacts im ord (Builder.new cmp inT outT st) ops).2.1.map Outcome.cls =
    (run srcFacts im ord' (Builder.new cmp inT outT st) ops).2.1.map Outcome.cls :=
  run_order_free srcFacts ⟨rfl, rfl, rfl⟩ (by decide) (by decide) (by decide) im ord ord' hv hv' ops _ _ hops
    (Or.inl ⟨Sim.refl _ rfl, Inv_new im cmp inT outT st, Inv_new im cmp inT outT st, KeysOK_new cmp inT outT st⟩)

/-- **run_no_type_panic.** No run of such a runnable – whatever the node bodies return
    (within their declared output types), whatever the branch conditions choose, whatever the
    dynamic type of the input – reaches a failing `input.(T)` assertion of a node, a state
    handler, a branch condition or the final output conversion. -/
theorem run_no_type_panic (im : Impl) (ht : ImplTrans im) (ord : Ord) (hv : ord.Valid)
    (cmp : Cmp) (inT outT : Ty) (st : Option Nat) (ops : List Op)
    (hops : ∀ op ∈ ops, op.isGraphApi = true)
    (r : Runner) (hr : r ∈ (run srcFacts im ord (Builder.new cmp inT outT st) ops).2.2)
    (c : Code) (hc : CodeOk im r c) (fuel : Nat) (d0 : Dyn) (hd : dynOk im d0 r.inT = true) :
    runGraph im r c fuel d0 ≠ .panic :=
  runGraph_no_panic ht (compiled_edges_sound im ord hv cmp inT outT st ops hops r hr) hc fuel d0 hd

/-- **may_edge_errors_iff.** On a data edge of such a runnable, a value that fits the
    upstream type makes the framework report an ordinary error exactly when the upstream type
    is an interface and the value's dynamic type is not assignable to the downstream type. -/
theorem may_edge_errors_iff (im : Impl) (ht : ImplTrans im) (ord : Ord) (hv : ord.Valid)
    (cmp : Cmp) (inT outT : Ty) (st : Option Nat) (ops : List Op)
    (hops : ∀ op ∈ ops, op.isGraphApi = true)
    (r : Runner) (hr : r ∈ (run srcFacts im ord (Builder.new cmp inT outT st) ops).2.2)
    (s e : Key) (he : (s, e) ∈ r.dataEdges) (A B : Ty) (ho : r.outOf s = some A) (hi : r.inOf e = some B)
    (d : Dyn) (hd : dynOk im d A = true) :
    convert im r s e d = .typeErr ↔ (A.isIface = true ∧ dynOk im d B = false) :=
  convert_typeErr_iff ht ((compiled_edges_sound im ord hv cmp inT outT st ops hops r hr).edges (s, e) he) ho hi hd

/-! ## non-vacuity, the menu relation, negation witnesses -/

/-- the relation of the harness menu: c3 implements i0 and i1, c4 implements i0, i1 ⊇ i0 -/
def menuImpl : Impl := [(.conc 3, 0), (.conc 3, 1), (.conc 4, 0), (.iface 1, 0)]

theorem menuImpl_trans : ImplTrans menuImpl := by
  intro t u v hu h1 h2
  cases v with
  | any => rfl
  | conc c => simp [implements] at h2
  | iface j =>
    cases u with
    | conc c => simp [Ty.isIface] at hu
    | any =>
      simp [implements, menuImpl] at h2
    | iface i =>
      simp only [implements, menuImpl, Bool.or_eq_true, beq_iff_eq, List.contains_eq_mem,
        List.mem_cons, Prod.mk.injEq, List.mem_nil_iff, or_false, decide_eq_true_eq] at h1 h2 ⊢
      rcases h2 with h2 | h2
      · cases h2; exact h1
      · rcases h2 with ⟨h2, rfl⟩ | ⟨h2, rfl⟩ | ⟨h2, rfl⟩ | ⟨h2, rfl⟩
        all_goals first | (simp at h2; done) | skip
        -- u = iface 1, v = iface 0
        cases h2
        rcases h1 with h1 | h1
        · subst h1; simp
        · rcases h1 with ⟨rfl, h⟩ | ⟨rfl, h⟩ | ⟨rfl, h⟩ | ⟨rfl, h⟩ <;> simp_all

def lam (k : Key) (i o : Ty) : Op :=
  .node { key := k, passthrough := false, inTy := i, outTy := o, pre := none, post := none, nodeKeyOpt := false }
def pt (k : Key) : Op :=
  .node { key := k, passthrough := true, inTy := .any, outTy := .any, pre := none, post := none, nodeKeyOpt := false }
def edge (s e : Key) : Op := .edge s e false false none
def copts : COpts := { trigger := .unset, maxSteps := 0, getState := false }

/-- a(any→any) → p (pass-through, inferred any) → b(i0→c0): the edge p→b is a `may` edge;
    the graph compiles; a value implementing i0 runs through, another one is an ordinary error -/
def exOps : List Op :=
  [lam "a" .any .any, pt "p", lam "b" (.iface 0) (.conc 0),
   edge START "a", edge "a" "p", edge "p" "b", edge "b" END, .compile copts]

def exCode (ret : Dyn) : Code := { body := fun k _ => if k = "a" then ret else 0, pick := fun _ _ _ => END }

example : (run srcFacts menuImpl Ord.id (Builder.new .graph .any (.conc 0) none) exOps).2.1
    = [.ok, .ok, .ok, .ok, .ok, .ok, .ok, .ok] := by decide

example : (run srcFacts menuImpl Ord.id (Builder.new .graph .any (.conc 0) none) exOps).2.2.map
      (fun r => (runGraph menuImpl r (exCode 3) 20 1, runGraph menuImpl r (exCode 1) 20 1))
    = [(.ok, .typeErr)] := by decide

example : ∀ op ∈ exOps, op.isGraphApi = true := by decide

/-- the defect of the unfixed source: with the unguarded assignment in addBranch,
    a(c0→c0) → p, then a branch on p with an int (c1) condition: the graph compiles and the
    run panics in the branch's type assertion -/
theorem unguarded_branch_panics :
    let f := { Expected.C20.facts with branchGuarded := false }
    let ops := [lam "a" (.conc 0) (.conc 0), lam "b" (.conc 1) (.conc 0), lam "c" (.conc 1) (.conc 0), pt "p",
      edge START "a", edge "a" "p", .branch "p" (.conc 1) ["b", "c"] false, edge "b" END, edge "c" END,
      .compile copts]
    let st := run f menuImpl Ord.id (Builder.new .graph (.conc 0) (.conc 0) none) ops
    st.2.1 = [.ok, .ok, .ok, .ok, .ok, .ok, .ok, .ok, .ok, .ok] ∧
    st.2.2.map (fun r => runGraph menuImpl r { body := fun _ _ => 0, pick := fun _ _ _ => "b" } 20 0) = [.panic] := by
  decide

/-- with the guard the same AddBranch call is refused -/
theorem guarded_branch_rejected :
    (run Expected.C20.facts menuImpl Ord.id (Builder.new .graph (.conc 0) (.conc 0) none)
      [lam "a" (.conc 0) (.conc 0), pt "p", edge START "a", edge "a" "p",
       .branch "p" (.conc 1) ["b", "c"] false]).2.1
    = [.ok, .ok, .ok, .ok, .fresh .branchMismatch] := by decide

/-- second defect: when addBranch does not run the work list after typing a pass-through
    start node (zero end nodes), the result of the same call sequence depends on Go's map
    iteration order: one order installs the converter (ordinary error), the other leaves the
    edge unchecked and the run panics -/
def revOrd : Ord := { Ord.id with keys := fun _ l => l.reverse }

theorem unpropagated_branch_order_dependent :
    let f := { Expected.C20.facts with branchPropagates := false }
    let ops := [pt "p", pt "e1", pt "e2", edge "p" "e1", edge "p" "e2",
      .branch "e1" (.conc 0) [] false, .branch "e2" .any [] false,
      edge START "p", edge "e2" END, .compile copts]
    let go (o : Ord) := (run f menuImpl o (Builder.new .graph .any .any none) ops).2.2.map
      (fun r => runGraph menuImpl r { body := fun _ d => d, pick := fun _ _ _ => "" } 20 1)
    go Ord.id = [.panic] ∧ go revOrd = [.typeErr] := by
  decide

/-! ## Workflows: branches without data flow, control-only and data-only inputs, DAG runs -/

/-- what a Workflow is evaluated with: the facts read off the source, either placement of the
    entry / exit bookkeeping, any `implements` relation, any map iteration order -/
def wfEnv (inCtl : Bool) (im : Impl) (ord : Ord) : Env := { f := srcFacts, inCtl, im, ord }

/-- **workflow_branch_mismatch_rejected.** The compile-time clause for branch conditions does
    not depend on whether the branch carries data: when `checkAssignable` says that the
    condition's input type can never take what the start node produces (in particular: two
    different concrete types), `addBranch` refuses the branch – for a Graph / Chain branch
    (`skipData = false`) and for the branch of a Workflow (`skipData = true`, replayed by
    `Workflow.compile`) alike, and with the same error. -/
theorem workflow_branch_mismatch_rejected (im : Impl) (ord : Ord) (b : Builder) (s : Key) (t : Ty)
    (ends : List Key)
    (hmis : checkAssignable im ((branchStartTyped srcFacts b s t).nodeOut s) (some t) = .mustNot) :
    (∀ skip, (addBranch srcFacts im ord b s t ends skip).2 ≠ .ok) ∧
    (b.buildError = none → b.compiled = false → s ≠ END → (b.hasNode s = true ∨ s = START) →
      ends.length ≠ 1 → ∀ skip, (addBranch srcFacts im ord b s t ends skip).2 = .fresh .branchMismatch) := by
  constructor
  · intro skip
    have hbody : ∃ k, addBranchBody srcFacts im ord b s t ends skip = .error k := by
      by_cases h1 : s = END
      · exact ⟨.endAsStart, by simp [addBranchBody, h1]⟩
      · by_cases h2 : (!b.hasNode s && s != START) = true
        · exact ⟨.branchUnknownStart, by simp only [addBranchBody, h1, ↓reduceIte, h2]⟩
        · by_cases h3 : ends.length = 1
          · exact ⟨.branchSingle, by simp only [addBranchBody, h1, ↓reduceIte, h2, h3]; simp⟩
          · exact ⟨.branchMismatch, (addBranchBody_mismatch_iff srcFacts im ord b s t ends skip).mpr ⟨h1, h2, h3, hmis⟩⟩
    obtain ⟨k, hk⟩ := hbody
    unfold addBranch guarded
    rw [hk]
    split
    · simp
    · split
      · simp
      · simp
  · intro hbe hcomp h1 hn h3 skip
    have h2 : ¬ (!b.hasNode s && s != START) = true := by
      rcases hn with hn | hn
      · simp [hn]
      · simp [hn]
    have hk := (addBranchBody_mismatch_iff srcFacts im ord b s t ends skip).mpr ⟨h1, h2, h3, hmis⟩
    unfold addBranch guarded
    rw [hk]
    simp [hbe, hcomp]

/-- between two concrete types the check of the previous theorem is the identity test: a
    Workflow branch whose condition is declared on `conc c` while its start node is declared
    to produce `conc a ≠ conc c` is refused. -/
theorem workflow_concrete_branch_rejected (im : Impl) (ord : Ord) (b : Builder) (s : Key) (a c : Nat)
    (ends : List Key) (hne : a ≠ c) (hout : (branchStartTyped srcFacts b s (.conc c)).nodeOut s = some (.conc a)) :
    (addBranch srcFacts im ord b s (.conc c) ends true).2 ≠ .ok := by
  apply (workflow_branch_mismatch_rejected im ord b s (.conc c) ends ?_).1 true
  rw [hout, (concrete_table im a c).1]
  simp [hne]

/-- **workflow_compiled_sound.** For every Workflow – nodes with any types, AddInput,
    AddDependency, data-only inputs, branches with any end nodes, inputs of END, in any order;
    no field mappings, no sub-graph nodes looked into – every `implements` relation and every Go
    map iteration order: the runnable its Compile hands out has all data connections and all
    branch conditions validated – assignable for sure, or possibly assignable *with* the
    run-time check installed. -/
theorem workflow_compiled_sound (inCtl ec : Bool) (im : Impl) (ord : Ord) (hv : ord.Valid)
    (d : WfDecl) (hu : d.unmapped = true) (co : COpts) (w : WRunner)
    (h : (wfCompile (wfEnv inCtl im ord) ec d co).2 = some w) : SoundRunner im w.r :=
  wfCompile_sound (wfEnv inCtl im ord) (show srcFacts.branchGuarded = true by decide)
    (show srcFacts.branchPropagates = true by decide) hv ec d hu co w h

/-- …and what `wfCompile` answers is what the declaration layer of C20 answers for the first
    Compile of the lowered Workflow (`WfDecl.lower`: branches replayed with `skipData`, then the
    recorded inputs). -/
theorem workflow_compile_is_lowering (E : Env) (ec : Bool) (d : WfDecl) (co : COpts) (hp : d.plain = true) :
    (wfCompile E ec d co).1 = Decl.first E (d.lower ec) co :=
  wfCompile_eq_first E ec d co hp

/-- a branch condition of a compiled Workflow whose type and whose start node's output type
    are both concrete is declared on that very type. -/
theorem workflow_concrete_branch_equal (inCtl ec : Bool) (im : Impl) (ord : Ord) (hv : ord.Valid)
    (d : WfDecl) (hu : d.unmapped = true) (co : COpts) (w : WRunner)
    (h : (wfCompile (wfEnv inCtl im ord) ec d co).2 = some w)
    (p : Nat × BranchRec × Bool) (hp : p ∈ w.r.branchTable) (a c : Nat)
    (ha : w.r.outOf p.2.1.src = some (.conc a)) (hc : p.2.1.inTy = .conc c) : a = c := by
  have hs := ((workflow_compiled_sound inCtl ec im ord hv d hu co w h).br _ (mem_branchTable hp)).1
  unfold SoundBrR at hs
  rw [ha, hc, (concrete_table im a c).1] at hs
  by_cases hac : a = c
  · exact hac
  · simp [hac] at hs

/-- **workflow_run_no_type_panic.** No Invoke and no Stream run of such a runnable – whatever
    the node bodies return within their declared output types, whatever the conditions choose,
    whichever nodes get skipped, whatever the dynamic type of the input – reaches a failing
    type assertion of a node, a branch condition or the final output. -/
theorem workflow_run_no_type_panic (inCtl ec : Bool) (im : Impl) (ht : ImplTrans im) (ord : Ord) (hv : ord.Valid)
    (d : WfDecl) (hu : d.unmapped = true) (co : COpts) (w : WRunner)
    (h : (wfCompile (wfEnv inCtl im ord) ec d co).2 = some w)
    (mode : Mode) (c : Code) (hc : CodeOk im w.r c) (fuel : Nat) (d0 : Dyn) (hd : dynOk im d0 w.r.inT = true) :
    (wfRun mode im w c fuel d0).1 ≠ .panic :=
  wfRun_no_panic ht (workflow_compiled_sound inCtl ec im ord hv d hu co w h) hc fuel d0 hd

/-- **workflow_checks_error_iff.** In a compiled Workflow a value that fits the upstream type
    makes a run-time check report its ordinary error exactly when the upstream type is an
    interface and the value's dynamic type is not assignable downstream – on a data connection
    (`convert`) and in front of a branch condition (`arriveBranch`), where the condition's own
    assertion is never the one to fail. -/
theorem workflow_checks_error_iff (inCtl ec : Bool) (im : Impl) (ht : ImplTrans im) (ord : Ord) (hv : ord.Valid)
    (d : WfDecl) (hu : d.unmapped = true) (co : COpts) (w : WRunner)
    (h : (wfCompile (wfEnv inCtl im ord) ec d co).2 = some w) :
    (∀ s e, (s, e) ∈ w.r.dataEdges → ∀ A B, w.r.outOf s = some A → w.r.inOf e = some B →
      ∀ dv, dynOk im dv A = true →
        (convert im w.r s e dv = .typeErr ↔ (A.isIface = true ∧ dynOk im dv B = false))) ∧
    (∀ p ∈ w.r.branchTable, ∀ A, w.r.outOf p.2.1.src = some A → ∀ dv, dynOk im dv A = true →
      (arriveBranch im p.2.1.inTy p.2.2 dv = .typeErr ↔ (A.isIface = true ∧ dynOk im dv p.2.1.inTy = false)) ∧
      arriveBranch im p.2.1.inTy p.2.2 dv ≠ .panic) := by
  have hr := workflow_compiled_sound inCtl ec im ord hv d hu co w h
  exact ⟨fun s e he A B ho hi dv hdv => convert_typeErr_iff ht (hr.edges (s, e) he) ho hi hdv,
    fun p hp A ho dv hdv => arriveBranch_typeErr_iff ht (hr.br _ (mem_branchTable hp)).1 ho hdv⟩

/-! ### the Workflows of the seeded change C07-12, in the model -/

def wlam (k : Key) (i o : Ty) (ins : List WfIn) : WfNode := { key := k, body := .plain false i o, ins }

/-- a(string → `aOut`) ← START;  b(`aOut` → string) ← data of a, no control;  a branch on a with a
    condition on string and end nodes {b, END};  END ← b -/
def demoWf (aOut : Ty) : WfDecl :=
  { inT := .conc 0, outT := .conc 0, stateTy := none,
    nodes := [wlam "a" (.conc 0) aOut [{ src := START, kind := .input, mapped := none }],
              wlam "b" aOut (.conc 0) [{ src := "a", kind := .indirect, mapped := none }]],
    endIns := [{ src := "b", kind := .input, mapped := none }],
    branches := [{ src := "a", ty := .conc 0, ends := ["b", END] }] }

def demoCode (ret : Dyn) : Code := { body := fun k _ => if k = "a" then ret else 0, pick := fun _ _ _ => "b" }

def demoEnv : Env := wfEnv true menuImpl Ord.id

/-- a produces int, the condition wants string: Compile refuses (the error of the replayed
    `addBranch` is the stored one) -/
theorem workflow_demo_concrete_rejected :
    (wfCompile demoEnv true (demoWf (.conc 1)) copts).1 = .stored .branchMismatch := by decide

/-- a produces `any`: the Workflow compiles with the run-time check installed; a string runs
    through, an int is an ordinary error – in Invoke and in Stream -/
theorem workflow_demo_interface_checked :
    (wfCompile demoEnv true (demoWf .any) copts).1 = .ok ∧
    ((wfCompile demoEnv true (demoWf .any) copts).2.map fun w =>
      [wfRun .invoke menuImpl w (demoCode 0) 8 0, wfRun .stream menuImpl w (demoCode 0) 8 0,
       wfRun .invoke menuImpl w (demoCode 1) 8 0, wfRun .stream menuImpl w (demoCode 1) 8 0])
      = some [(.ok, false, false), (.ok, false, false), (.typeErr, false, false), (.typeErr, false, false)] := by decide

/-- (negation witness) what the check buys: the same runnable with the run-time check of its
    branch taken away – what a Compile that does not look at branches without data flow would
    hand out – panics in the condition's assertion when a returns an int -/
theorem workflow_unchecked_branch_panics :
    ((wfCompile demoEnv true (demoWf .any) copts).2.map fun w =>
      let w' : WRunner := { w with r := { w.r with preBranch := w.r.preBranch.map fun p => (p.1, false) } }
      [wfRun .invoke menuImpl w' (demoCode 1) 8 0, wfRun .stream menuImpl w' (demoCode 1) 8 0])
      = some [(.panic, false, false), (.panic, false, false)] := by decide

/-- Invoke reports a failed check when the producer completes, Stream when the stream is read:
    a(any → any, returns an int) feeds b(string) over a checked edge, and a branch on a picks c
    instead of b.  Invoke fails; in Stream b is skipped, nobody reads the stream, the run
    succeeds. -/
theorem workflow_stream_check_is_lazy :
    let d : WfDecl :=
      { inT := .any, outT := .conc 0, stateTy := none,
        nodes := [wlam "a" .any .any [{ src := START, kind := .input, mapped := none }],
                  wlam "b" (.conc 0) (.conc 0) [{ src := "a", kind := .indirect, mapped := none }],
                  wlam "c" .any (.conc 0) [{ src := "b", kind := .dep, mapped := none },
                                           { src := START, kind := .indirect, mapped := none }]],
        endIns := [{ src := "c", kind := .input, mapped := none }],
        branches := [{ src := "a", ty := .any, ends := ["b", "c"] }] }
    let code : Code := { body := fun k _ => if k = "a" then 1 else 0, pick := fun _ _ _ => "c" }
    (wfCompile demoEnv true d copts).2.map (fun w =>
      [wfRun .invoke menuImpl w code 8 0, wfRun .stream menuImpl w code 8 0])
      = some [(.typeErr, false, false), (.ok, false, false)] := by decide

/-! ## state handlers, input / output keys -/

/-- **state_handler_types_identical.** No run-time check stands between a state handler and its
    node, so the connection is validated by identity, not by assignability: `addNode` accepts
    a node with a pre (post) handler only if the handler is declared on the node's input
    (output) type itself – on `any` for a pass-through node.  (A handler on an interface for a
    node on a concrete type, or the reverse, is refused although `checkAssignable` would say
    must / may.) -/
theorem state_handler_types_identical (b : Builder) (n : NodeSpec)
    (h : (addNode srcFacts b n).2 = .ok) :
    (∀ hp, n.pre = some hp → hp.ty = (if n.passthrough then .any else n.inTy)) ∧
    (∀ hp, n.post = some hp → hp.ty = (if n.passthrough then .any else n.outTy)) := by
  have hck : addNodeCheck b n = none := by
    unfold addNode guarded at h
    split at h
    · simp at h
    · split at h
      · simp at h
      · rcases hc : addNodeCheck b n with _ | k
        · rfl
        · simp [hc] at h
  unfold addNodeCheck at hck
  repeat' split at hck
  all_goals first | (simp at hck; done) | skip
  all_goals
    constructor
    all_goals
      intro hp hpe
      simp_all
  all_goals first | done | (split <;> simp_all)

/-- the declared type of a node that carries `WithInputKey` is `map[string]any` (c5), whatever
    the lambda or graph inside takes: a string producer in front of it is refused, a map producer
    accepted, an `any` producer accepted with the run-time check – which then lets a map through
    and reports an ordinary error for a string. -/
theorem keyed_node_is_map_typed :
    let keyed : Op := lam "s" (.conc 5) (.conc 0)   -- how the oracle reads {in: string, inKey: true}
    (run srcFacts menuImpl Ord.id (Builder.new .graph (.conc 0) (.conc 0) none) [keyed, edge START "s"]).2.1
      = [.ok, .fresh .edgeMismatch] ∧
    (run srcFacts menuImpl Ord.id (Builder.new .graph (.conc 5) (.conc 0) none)
      [keyed, edge START "s", edge "s" END, .compile copts]).2.1 = [.ok, .ok, .ok, .ok] ∧
    (run srcFacts menuImpl Ord.id (Builder.new .graph .any (.conc 0) none)
      [keyed, edge START "s", edge "s" END, .compile copts]).2.2.map
        (fun r => (runGraph menuImpl r { body := fun _ _ => 0, pick := fun _ _ _ => END } 20 5,
                   runGraph menuImpl r { body := fun _ _ => 0, pick := fun _ _ _ => END } 20 0))
      = [(.ok, .typeErr)] := by decide

/-! ## defined types over unnamed members of the menu -/

/-- the connections of the harness menu (14 concrete types) that Go's rule accepts beyond
    identity: map[string]any ↔ MyMap, []int ↔ Ints, func(int) int ↔ Fn, chan int → <-chan int
    (and not string ↔ MyStr: both named).  The harness checks the same table against
    reflect (oracle query "universe"). -/
theorem menu_go_only_pairs :
    ((List.range menuConcrete).flatMap fun a =>
      ((List.range menuConcrete).filter fun b => a != b && goAssignableConc menuUniv a b).map fun b => (a, b))
    = [(5, 6), (6, 5), (7, 8), (8, 7), (10, 11), (11, 10), (12, 13)] := by decide

/-- eino's rule refuses such a connection wherever it is attempted: a data edge in either
    direction, through a pass-through node typed from upstream or from downstream, as a branch
    condition, START → END between channel directions -/
theorem named_unnamed_rejected :
    (run srcFacts menuImpl Ord.id (Builder.new .graph (.conc 6) (.conc 5) none)
      [lam "b" (.conc 5) (.conc 5), edge START "b"]).2.1 = [.ok, .fresh .edgeMismatch] ∧
    (run srcFacts menuImpl Ord.id (Builder.new .graph (.conc 5) (.conc 6) none)
      [lam "b" (.conc 6) (.conc 6), edge START "b"]).2.1 = [.ok, .fresh .edgeMismatch] ∧
    (run srcFacts menuImpl Ord.id (Builder.new .graph (.conc 6) (.conc 5) none)
      [pt "p", lam "b" (.conc 5) (.conc 5), edge START "p", edge "p" "b"]).2.1
      = [.ok, .ok, .ok, .fresh .edgeMismatch] ∧
    (run srcFacts menuImpl Ord.id (Builder.new .graph (.conc 6) (.conc 5) none)
      [pt "p", lam "b" (.conc 5) (.conc 5), edge "p" "b", edge START "p"]).2.1
      = [.ok, .ok, .ok, .fresh .edgeMismatch] ∧
    (run srcFacts menuImpl Ord.id (Builder.new .graph (.conc 6) (.conc 6) none)
      [lam "x" (.conc 6) (.conc 6), lam "y" (.conc 6) (.conc 6), .branch START (.conc 5) ["x", "y"] false]).2.1
      = [.ok, .ok, .fresh .branchMismatch] ∧
    (run srcFacts menuImpl Ord.id (Builder.new .graph (.conc 12) (.conc 13) none)
      [edge START END]).2.1 = [.fresh .edgeMismatch] := by decide

/-- what the relaxed rule would let through: `relaxedCheck` answers `must` for
    MyMap → map[string]any; the graph a(MyMap→MyMap) → b(map→map) with that edge accepted
    (no converter: the answer was "for sure") panics in b's `input.(map[string]any)` -/
theorem relaxed_rule_graph_panics :
    relaxedCheck menuUniv menuImpl (some (.conc 6)) (some (.conc 5)) = .must ∧
    (run srcFacts menuImpl Ord.id (Builder.new .graph (.conc 6) (.conc 5) none)
      [lam "a" (.conc 6) (.conc 6), lam "b" (.conc 5) (.conc 5), edge START "a", edge "b" END, .compile copts]).2.2.map
      (fun r => runGraph menuImpl { r with dataEdges := r.dataEdges ++ [("a", "b")] }
        { body := fun k _ => if k = "a" then 6 else 5, pick := fun _ _ _ => END } 20 6) = [.panic] := by
  decide

end EinoV.C07
