/-
  C13 — Node failures surface as identifiable, unwrappable errors; panics are contained.
  Property theorems.  Model: EinoV/Model/C13.lean.  Source facts: EinoV/Gen/FactsC13.lean
  (regenerated from /repo on every run).
-/
import EinoV.Model.C13
import EinoV.Model.C13Fwd
import EinoV.Proofs.C13
import EinoV.Proofs.C13Fwd
import EinoV.Gen.FactsC13
import EinoV.Expected.C13
import EinoV.Proofs.TransC13

namespace EinoV.C13
open EinoV.Gen

/-! ## property theorems (instantiated with the facts regenerated from /repo) -/

/-- Source fact tie: the regenerated facts are the ones the theorems below are proved for. -/
theorem facts_match : FactsC13.internalErrorHasUnwrap = Expected.C13.internalErrorHasUnwrap ∧
    FactsC13.failedTaskReportedAsIs = Expected.C13.failedTaskReportedAsIs ∧
    FactsC13.stateLockSites.all (·.2) = Expected.C13.stateLocksReleasedByDefer ∧
    FactsC13.stateLockSites.any (fun s => s.1 == "compose/state.go:ProcessState#0") = true ∧
    FactsC13.executorRecoverHandlerClean = Expected.C13.executorRecoverHandlerClean ∧
    FactsC13.goSites.all (·.2) = Expected.C13.execRecovers ∧
    FactsC13.loopReportsCtxErr = Expected.C13.loopReportsCtxErr ∧
    FactsC13.convForwarderRecovers = Expected.C13.convForwarderRecovers ∧
    FactsC13.childForwarderRecovers = Expected.C13.childForwarderRecovers ∧
    FactsC13.errorTextMemoised = Expected.C13.errorTextMemoised ∧
    FactsC13.drainedTaskErrorChecked = Expected.C13.drainedTaskErrorChecked := by
  decide

/-- the facts of the step model as regenerated from /repo: every framework goroutine site
    recovers (`goSites`, which contains `taskManager.submit`'s `go t.executor`; `executor`
    itself is that function), the executor's deferred handler is clean, every state-mutex
    `Lock()` in compose/state.go is released by `defer` -/
def srcExec : ExecFacts :=
  { recovers := FactsC13.goSites.all (·.2),
    handlerClean := FactsC13.executorRecoverHandlerClean,
    unlockByDefer := FactsC13.stateLockSites.all (·.2) }

theorem srcExec_eq : srcExec = ⟨true, true, true⟩ := by decide

/-- **orig_recoverable (errors.Is half).** Whatever the nesting depth, node keys and
    paradigm adaptors a failure travels through, everything `errors.Is` could match in the
    error the node body returned is still matched in the error the outermost run returns. -/
theorem orig_recoverable (levels : List Level) (e : GoErr) (t : Nat) :
    errorsIs FactsC13.internalErrorHasUnwrap
      (failThrough FactsC13.internalErrorHasUnwrap levels e) t
    = errorsIs FactsC13.internalErrorHasUnwrap e t := by
  have hf : FactsC13.internalErrorHasUnwrap = true := by decide
  rw [hf]; exact (failThrough_all levels e t).1

/-- **orig_recoverable (node path half).** The returned error names exactly the path of
    node keys from the outermost graph down to the failing node. -/
theorem node_path_named (levels : List Level) (e : GoErr) (h : userErr e = true) :
    nodePath (failThrough FactsC13.internalErrorHasUnwrap levels e) = levels.map (·.key) := by
  have hf : FactsC13.internalErrorHasUnwrap = true := by decide
  rw [hf]
  have := (failThrough_all levels e 0).2.2 (userErr_not_interrupt h)
  rw [this]; simp [nodePath, userErr_no_internal h]

/-- **several_failures_one_is_reported.** When several tasks of one step fail, whatever the
    collection order: the error of the step is the wrapped error of *one of the failed tasks*
    (`wrapGraphNodeError(key, err)`), so `errors.Is` / `errors.As` reach that task's original
    error and the node path names that task. -/
theorem several_failures_one_is_reported (tasks : List (Key × Option GoErr))
    (h : ∃ k e, (k, some e) ∈ tasks) :
    ∃ k e, (k, some e) ∈ tasks ∧
      reportStep FactsC13.internalErrorHasUnwrap FactsC13.failedTaskReportedAsIs tasks =
        some (wrapNode FactsC13.internalErrorHasUnwrap k e) := by
  have hf : FactsC13.failedTaskReportedAsIs = true := by decide
  rw [hf]
  induction tasks with
  | nil => obtain ⟨k, e, hm⟩ := h; simp at hm
  | cons t rest ih =>
    obtain ⟨k0, r0⟩ := t
    cases r0 with
    | some e0 => exact ⟨k0, e0, by simp, by simp [reportStep]⟩
    | none =>
      obtain ⟨k, e, hm⟩ := h
      have hm' : (k, some e) ∈ rest := by
        rcases List.mem_cons.mp hm with h1 | h1
        · cases h1
        · exact h1
      obtain ⟨k', e', h1, h2⟩ := ih ⟨k, e, hm'⟩
      exact ⟨k', e', List.mem_cons_of_mem _ h1, by simpa [reportStep] using h2⟩

/-- negation witness: an aggregated, text-only error of two failures matches neither original -/
theorem aggregated_failures_not_recoverable :
    (reportStep true false [("a", some (.leaf 1)), ("b", some (.leaf 2))]).map (fun e => (errorsIs true e 1, errorsIs true e 2)) =
      some (false, false) := by decide

/-- **sentinels_match.** A graph-level failure (`ErrExceedMaxSteps`, `ctx.Err()` wrapped
    with `%w`) raised at any nesting depth is matchable with `errors.Is` on the error the
    outermost run returns, and the path names the nested graph it came from. -/
theorem sentinels_match (levels : List Level) (e : GoErr) (t : Nat) :
    errorsIs FactsC13.internalErrorHasUnwrap
      (graphFailThrough FactsC13.internalErrorHasUnwrap levels e) t
    = errorsIs FactsC13.internalErrorHasUnwrap e t := by
  have hf : FactsC13.internalErrorHasUnwrap = true := by decide
  rw [hf]; unfold graphFailThrough
  rw [(failThrough_all levels _ t).1]; simp [newGraphRunError, errorsIs]

theorem sentinel_path (levels : List Level) (e : GoErr) (h : userErr e = true) :
    nodePath (graphFailThrough FactsC13.internalErrorHasUnwrap levels e) = levels.map (·.key) := by
  have hf : FactsC13.internalErrorHasUnwrap = true := by decide
  rw [hf]; unfold graphFailThrough
  have hi : isInterrupt true (newGraphRunError e) = false := by
    simp [newGraphRunError, isInterrupt, userErr_not_interrupt h]
  rw [(failThrough_all levels _ 0).2.2 hi]; simp [nodePath, newGraphRunError, asInternal]

/-- **interrupt_passthrough.** Interrupts are never wrapped (they stay recognisable). -/
theorem interrupt_passthrough (levels : List Level) :
    isInterrupt FactsC13.internalErrorHasUnwrap
      (failThrough FactsC13.internalErrorHasUnwrap levels .interrupt) = true := by
  have hf : FactsC13.internalErrorHasUnwrap = true := by decide
  rw [hf, (failThrough_all levels .interrupt 0).2.1]; rfl

/-- **panic_is_error.** Every goroutine the framework starts for user code (`go`
    statements found in compose/, schema/ by factgen) carries a deferred `recover`, and a
    goroutine with one turns a panicking body into that task's error, never a crash. -/
theorem panic_is_error :
    (∀ s ∈ FactsC13.goSites, s.2 = true) ∧
    (∀ b, runInGoroutine true b ≠ .processCrash) := by
  refine ⟨by decide, ?_⟩
  intro b; cases b <;> simp [runInGoroutine]

/-- **panic_at_any_site_is_task_error.** Whatever the other tasks of the step did before and
    do afterwards (every script, every interleaving): a task that is still running and panics —
    inside a critical section on the graph state (`ProcessState`, a state handler: `useState
    (some i)`) or anywhere else in its body (`panicBody i`) — is handed back to the step loop
    with the panic as its error; it does not escape and the task does not stay unfinished. -/
theorem panic_at_any_site_is_task_error (pre post : List (Key × Act)) (k : Key) (a : Act) (i : Nat)
    (hr : (runEvents srcExec pre).tasks k = .running)
    (ha : a = .useState (some i) ∨ a = .panicBody i) :
    (runEvents srcExec (pre ++ (k, a) :: post)).tasks k = .finished (some (.panicE i)) := by
  rw [srcExec_eq] at hr ⊢
  rw [runEvents_eq, runFrom_append]
  have hl := (runEvents_good pre).1
  rw [runEvents_eq] at hl hr
  have h1 := stepEv_panic (runFrom ⟨true, true, true⟩ .init pre) k a i hl hr ha
  have := runFrom_finished_stable ⟨true, true, true⟩ post _ k _ h1
  simpa [runFrom] using this

/-- **step_never_hangs_or_crashes.** For every set of tasks, every script (any number of
    critical sections on the state, panicking or not, panics in bodies, error returns) and
    every interleaving: the state mutex is never left locked, no task waits for ever, no panic
    escapes, and the step comes to `reported` — with `reportStep` of the finished tasks, so
    `several_failures_one_is_reported` applies to it — "never kills the process, hangs the run". -/
theorem step_never_hangs_or_crashes (order : List Key) (evs : List (Key × Act)) :
    (runEvents srcExec evs).leaked = false ∧
    (∀ k, (runEvents srcExec evs).tasks k ≠ .blocked ∧ (runEvents srcExec evs).tasks k ≠ .escaped) ∧
    stepResult srcExec FactsC13.internalErrorHasUnwrap FactsC13.failedTaskReportedAsIs order evs =
      .reported (reportStep FactsC13.internalErrorHasUnwrap FactsC13.failedTaskReportedAsIs
        (finishedOf (runEvents srcExec evs) order)) := by
  rw [srcExec_eq]
  obtain ⟨g1, g2⟩ := runEvents_good evs
  refine ⟨g1, fun k => ?_, stepResult_reported_of_good _ _ _ order evs g2⟩
  have := g2 k
  constructor <;> intro h <;> rw [h] at this <;> exact this

/-- **panicking_task_fails_the_step.** A task of the step that panics at any site makes the
    step fail with the wrapped error of one of the failed tasks (so the run returns an error
    naming a failed node — the panic is not swallowed). -/
theorem panicking_task_fails_the_step (order : List Key) (pre post : List (Key × Act)) (k : Key) (a : Act) (i : Nat)
    (hk : k ∈ order)
    (hr : (runEvents srcExec pre).tasks k = .running)
    (ha : a = .useState (some i) ∨ a = .panicBody i) :
    ∃ k' e', (k', some e') ∈ finishedOf (runEvents srcExec (pre ++ (k, a) :: post)) order ∧
      stepResult srcExec FactsC13.internalErrorHasUnwrap FactsC13.failedTaskReportedAsIs order (pre ++ (k, a) :: post) =
        .reported (some (wrapNode FactsC13.internalErrorHasUnwrap k' e')) := by
  have hfin := panic_at_any_site_is_task_error pre post k a i hr ha
  have hmem : (k, some (GoErr.panicE i)) ∈ finishedOf (runEvents srcExec (pre ++ (k, a) :: post)) order := by
    unfold finishedOf
    rw [List.mem_filterMap]
    exact ⟨k, hk, by rw [hfin]⟩
  obtain ⟨k', e', h1, h2⟩ := several_failures_one_is_reported _ ⟨k, _, hmem⟩
  refine ⟨k', e', h1, ?_⟩
  rw [(step_never_hangs_or_crashes order _).2.2, h2]


/-! ## the context of the run ends: deadline, cancellation, a cause of the caller's own -/

/-- **ctx_end_matchable.** However the context of the run ended (`cancel()`, an expired deadline /
    timeout, a context type of the caller with its own `Err()` value), in whichever nested graph
    the step loop notices it (`endAt`, every nesting depth and key list), `errors.Is` on the error
    the outermost run returns matches EXACTLY the value `ctx.Err()` returned — the cause is
    identifiable: a timeout is `context.DeadlineExceeded` and not `context.Canceled`, and vice
    versa — "context cancellation [is] matchable the same way". -/
theorem ctx_end_matchable (levels : List Level) (endAt : Nat) (c : CtxEnd) (t : Nat) :
    errorsIs FactsC13.internalErrorHasUnwrap
      (ctxEndThrough FactsC13.internalErrorHasUnwrap FactsC13.loopReportsCtxErr levels endAt c) t
    = (c.id == t) := by
  have hf : FactsC13.internalErrorHasUnwrap = true := by decide
  have hc : FactsC13.loopReportsCtxErr = true := by decide
  rw [hf, hc]; unfold ctxEndThrough graphFailThrough
  rw [(failThrough_all _ _ t).1]
  simp [newGraphRunError, errorsIs, loopCtxError]

/-- **ctx_end_path.** … and the node path names the nested graph whose loop noticed it. -/
theorem ctx_end_path (levels : List Level) (endAt : Nat) (c : CtxEnd) :
    nodePath (ctxEndThrough FactsC13.internalErrorHasUnwrap FactsC13.loopReportsCtxErr levels endAt c)
    = (levels.take endAt).map (·.key) := by
  unfold ctxEndThrough
  exact sentinel_path _ _ (by simp [loopCtxError, userErr])

/-- negation witness (the seeded change C13-41): a loop that reports a fixed cancellation sentinel
    makes an expired deadline look like a cancellation — `DeadlineExceeded` is not matched,
    `Canceled` is — while a real cancellation is reported exactly as before. -/
theorem deadline_misreported_with_fixed_sentinel :
    errorsIs true (ctxEndThrough true false [⟨"sub", []⟩] 1 .deadline) deadlineId = false ∧
    errorsIs true (ctxEndThrough true false [⟨"sub", []⟩] 1 .deadline) canceledId = true ∧
    ctxEndThrough true false [⟨"sub", []⟩] 1 .canceled = ctxEndThrough true true [⟨"sub", []⟩] 1 .canceled := by decide

/-! ## what the caller reads: the text of the error, whoever read it on the way out -/

/-- **text_names_node_path.** Whatever happened to the error between the failing body and the
    caller — any number of enclosing graphs prepending their key to the same error object, any
    number of readers of `err.Error()` at any inner level (logging `OnError` handlers), any number
    of `fmt.Errorf("…: %w", err)` layers (a lambda or tool that runs a compiled graph) in any
    order — the path the TEXT of the returned error names is the path its `nodePath` field holds. -/
theorem text_names_node_path (hops : List Hop) (e : GoErr) :
    textPath (travel FactsC13.internalErrorHasUnwrap FactsC13.errorTextMemoised hops e)
    = nodePath (travel FactsC13.internalErrorHasUnwrap FactsC13.errorTextMemoised hops e).err := by
  have hm : FactsC13.errorTextMemoised = false := by decide
  rw [hm]; exact textPath_travel_noMemo _ hops e

/-- **text_path_is_key_path.** … and for a user error that path is exactly the keys of the
    enclosing graphs, outermost first — "the run returns an error that names the failing node path
    (through nested graphs)", as a caller holding only the public API can read it. -/
theorem text_path_is_key_path (hops : List Hop) (e : GoErr) (h : userErr e = true) :
    textPath (travel FactsC13.internalErrorHasUnwrap FactsC13.errorTextMemoised hops e)
    = (hopKeys hops).reverse := by
  rw [text_names_node_path]
  have hf : FactsC13.internalErrorHasUnwrap = true := by decide
  have hm : FactsC13.errorTextMemoised = false := by decide
  rw [hf, hm]; unfold travel
  rw [(foldl_hop_path hops _ (userErr_not_interrupt h)).1]
  simp [nodePath, userErr_no_internal h]

/-- … and observers change nothing else either: `errors.Is` is as on the original error -/
theorem observed_orig_recoverable (hops : List Hop) (e : GoErr) (t : Nat) :
    errorsIs FactsC13.internalErrorHasUnwrap
      (travel FactsC13.internalErrorHasUnwrap FactsC13.errorTextMemoised hops e).err t
    = errorsIs FactsC13.internalErrorHasUnwrap e t := by
  have hf : FactsC13.internalErrorHasUnwrap = true := by decide
  rw [hf]; exact errorsIs_travel _ hops e t

/-- negation witness (the seeded change C13-51): with a memoised text, one reader at the innermost
    level freezes the text at `[leaf]` while the field (and `errors.Is`) go on to the full path; the
    same hops without memoisation name the full path; without a reader memoisation does no harm. -/
theorem stale_text_with_memoised_error :
    textPath (travel true true [.wrap "leaf", .observe, .wrap "mid", .wrap "outer"] (.leaf 1)) = ["leaf"] ∧
    nodePath (travel true true [.wrap "leaf", .observe, .wrap "mid", .wrap "outer"] (.leaf 1)).err = ["outer", "mid", "leaf"] ∧
    textPath (travel true false [.wrap "leaf", .observe, .wrap "mid", .wrap "outer"] (.leaf 1)) = ["outer", "mid", "leaf"] ∧
    textPath (travel true true [.wrap "step", .rewrap, .wrap "tools"] (.leaf 1)) = ["step"] ∧
    textPath (travel true true [.wrap "leaf", .wrap "mid", .wrap "outer"] (.leaf 1)) = ["outer", "mid", "leaf"] := by decide

/-! ## an interrupt and a node failure meet in the eager loop -/

/-- **failure_beats_interrupt.** Eager mode (Workflow): the loop takes the tasks one at a time
    in completion order and, at an interrupt point (a task asks for a rerun, a nested graph
    interrupted, an interrupt-after / interrupt-before node is reached: any `point`), drains the
    tasks still in flight.  For EVERY completion order: if some task of the run really failed
    (returned an error that is not an interrupt, or panicked — `panicE`), the run does not report the
    interrupt but the wrapped error of a task that really failed — so `errors.Is` reaches that
    task's original error, the error is not an interrupt, and (user error) its path is that task's
    key: "when a node fails, the run returns an error that names the failing node … a panic … is
    never swallowed", also when the failure is found while draining. -/
theorem failure_beats_interrupt (point : Key → Bool) (order : List (Key × Option GoErr))
    (h : ∃ k e, (k, some e) ∈ order ∧ isInterrupt FactsC13.internalErrorHasUnwrap e = false) :
    ∃ k e, (k, some e) ∈ order ∧ isInterrupt FactsC13.internalErrorHasUnwrap e = false ∧
      eagerRun FactsC13.internalErrorHasUnwrap FactsC13.drainedTaskErrorChecked point order
        = .failed (wrapNode FactsC13.internalErrorHasUnwrap k e) ∧
      (∀ t, errorsIs FactsC13.internalErrorHasUnwrap (wrapNode FactsC13.internalErrorHasUnwrap k e) t
        = errorsIs FactsC13.internalErrorHasUnwrap e t) ∧
      isInterrupt FactsC13.internalErrorHasUnwrap (wrapNode FactsC13.internalErrorHasUnwrap k e) = false ∧
      (userErr e = true → nodePath (wrapNode FactsC13.internalErrorHasUnwrap k e) = [k]) := by
  have hf : FactsC13.internalErrorHasUnwrap = true := by decide
  have hd : FactsC13.drainedTaskErrorChecked = true := by decide
  rw [hf, hd] at *
  obtain ⟨k, e, h1, h2, h3⟩ := eagerRun_failure_wins true point order h
  refine ⟨k, e, h1, h2, h3, fun t => errorsIs_wrapNode k e t, ?_, ?_⟩
  · rw [isInterrupt_wrapNode]; exact h2
  · intro hu
    rw [nodePath_wrapNode k e h2]; simp [nodePath, userErr_no_internal hu]

/-- … and only a failure is reported as one: with no real failure among the tasks the run is
    interrupted or goes on. -/
theorem interrupt_only_without_failure (point : Key → Bool) (order : List (Key × Option GoErr))
    (h : ∀ k e, (k, some e) ∈ order → isInterrupt FactsC13.internalErrorHasUnwrap e = true) :
    eagerRun FactsC13.internalErrorHasUnwrap FactsC13.drainedTaskErrorChecked point order = .interrupted ∨
    eagerRun FactsC13.internalErrorHasUnwrap FactsC13.drainedTaskErrorChecked point order = .goesOn :=
  eagerRun_no_failure _ _ point order h

/-- negation witness (the seeded change C13-52): when the classification of the drained tasks is
    not looked at, a sibling that fails or panics after the interrupting task was taken is swallowed —
    the run reports the interrupt; taken BEFORE the interrupting task the same failure is reported. -/
theorem drained_failure_swallowed_when_unchecked :
    eagerRun true false (fun k => k == "A") [("A", none), ("B", some (.leaf 1))] = .interrupted ∧
    eagerRun true false (fun _ => false) [("A", some .interrupt), ("B", some (.panicE 1))] = .interrupted ∧
    eagerRun true true (fun k => k == "A") [("A", none), ("B", some (.leaf 1))]
      = .failed (.internal false ["B"] [] (.leaf 1)) ∧
    eagerRun true false (fun k => k == "A") [("B", some (.leaf 1)), ("A", none)]
      = .failed (.internal false ["B"] [] (.leaf 1)) := by decide

/-! ## stream-forwarding goroutines (schema/stream.go) -/

/-- the facts of the forwarding model as regenerated from /repo -/
def srcFwd : FwdFacts :=
  { convRecovers := FactsC13.convForwarderRecovers, childRecovers := FactsC13.childForwarderRecovers }

theorem srcFwd_eq : srcFwd = ⟨true, true⟩ := by decide

/-- **forwarders_never_crash.** For every reader expression — any nesting of converted readers
    (whose convert function may panic or fail on any value), copies and merges over array- and
    channel-backed sources — building and draining it never kills the process. -/
theorem forwarders_never_crash (t : STree) : (build srcFwd t).isSome = true := by
  rw [srcFwd_eq]; exact build_recovering_isSome t

/-- **forwarded_panic_is_error_item.** A merged stream never panics on its consumer, delivers
    everything its two arguments deliver, and a panic raised while a forwarding goroutine pulls an
    argument (`panics = some v`: a converted reader, or a copy of anything that panics) arrives as
    an error item `perr v` — "a panic inside … a stream-forwarding goroutine surfaces as … an error
    item on the stream: it never kills the process … or is swallowed". -/
theorem forwarded_panic_is_error_item (a b : STree) :
    ∃ ra rb r, build srcFwd a = some ra ∧ build srcFwd b = some rb ∧ build srcFwd (.merge a b) = some r ∧
      r.panics = none ∧ (∀ e ∈ ra.evs, e ∈ r.evs) ∧ (∀ e ∈ rb.evs, e ∈ r.evs) ∧
      (∀ v, ra.panics = some v → Ev.perr v ∈ r.evs) ∧ (∀ v, rb.panics = some v → Ev.perr v ∈ r.evs) := by
  rw [srcFwd_eq]
  have h1 := build_recovering_isSome a
  have h2 := build_recovering_isSome b
  have h3 := build_recovering_isSome (.merge a b)
  obtain ⟨ra, ha⟩ := Option.isSome_iff_exists.mp h1
  obtain ⟨rb, hb⟩ := Option.isSome_iff_exists.mp h2
  obtain ⟨r, hr⟩ := Option.isSome_iff_exists.mp h3
  exact ⟨ra, rb, r, ha, hb, hr, build_merge_recovering a b ra rb r ha hb hr⟩

/-- negation witness (the seeded change C13-42): when the goroutine that forwards a COPY does not
    recover, a panic of the convert function below the copy kills the process, while the same
    converted reader merged directly is still contained; with both recovering the consumer gets
    item 1, the panic as an error item, and the other stream's item. -/
theorem copied_forwarder_crashes_without_recover :
    (build ⟨true, false⟩ (.merge (.copy (.conv (.arr [1, 2, 3]) (some 2) none)) (.pipe [100]))).isNone = true ∧
    (build ⟨true, false⟩ (.merge (.conv (.arr [1, 2, 3]) (some 2) none) (.pipe [100]))).map (·.evs)
      = some [.item 1, .perr 2, .item 100] ∧
    (build ⟨true, true⟩ (.merge (.copy (.conv (.arr [1, 2, 3]) (some 2) none)) (.pipe [100]))).map (fun r => (r.evs, r.panics, r.contained))
      = some ([.item 1, .perr 2, .item 100], none, [(2, true)]) := by decide

/-- non-vacuity: a panic on the consumer's own goroutine (no merge above) is not contained — the
    model distinguishes the two situations -/
example : (build ⟨true, true⟩ (.copy (.conv (.pipe [1, 2]) (some 2) none))).map (fun r => (r.ty, r.evs, r.panics))
    = some (.child, [.item 1], some 2) := by decide

/-! ## non-vacuity and the negation for the other value of the fact -/

/-- negation witness: without the deferred unlock a task that panics inside `ProcessState`
    leaves the state locked; a sibling of the same step that uses the state waits for ever and
    the step (which waits for all its tasks) hangs -/
theorem hang_without_deferred_unlock :
    stepResult ⟨true, true, false⟩ true true ["boom", "calm"]
      [("boom", .useState (some 1)), ("calm", .useState none), ("calm", .done)] = .hang := by decide

/-- with the deferred unlock the same step fails with the panic of `boom`, named -/
theorem no_hang_with_deferred_unlock :
    stepResult ⟨true, true, true⟩ true true ["boom", "calm"]
      [("boom", .useState (some 1)), ("calm", .useState none), ("calm", .done)]
      = .reported (some (.internal false ["boom"] [] (.panicE 1))) := by decide

/-- negation witness: a recover handler that itself panics lets the panic of the body escape -/
theorem crash_with_panicking_recover_handler :
    stepResult ⟨true, false, true⟩ true true ["boom"] [("boom", .panicBody 1)] = .crash := by decide

example : userErr (.wrapf (.leaf 7)) = true := rfl
example : failThrough true [⟨"sub", [3]⟩, ⟨"n", []⟩] (.wrapf (.leaf 7))
    = .internal false ["sub", "n"] [3] (.wrapf (.leaf 7)) := by decide

/-- Without `Unwrap` on `*internalError` the original error is *not* recoverable. -/
theorem orig_not_recoverable_without_unwrap :
    errorsIs false (failThrough false [⟨"n", []⟩] (.leaf 1)) 1 = false := by decide
theorem sentinel_not_matched_without_unwrap :
    errorsIs false (graphFailThrough false [] (.leaf 1)) 1 = false := by decide
/-- Without a `recover` a panicking body is a process crash. -/
theorem panic_crashes_without_recover : runInGoroutine false (.panic 0) = .processCrash := rfl

/-! ### The translated error wrapping (compose/error.go → Gen/TransC13.lean; gotrans phase 6)

  `newGraphRunError`, `wrapGraphNodeError`, `newStreamWrapperError`, `wrapStreamWrapperError` and
  `(*internalError).Unwrap` are re-translated from /repo on every run of this property.  Go `error` values are
  the prelude type `GoError` (Model/GoSemErr.lean — trusted: it also gives `errors.As` / `errors.Is` over the
  `Unwrap` chain their meaning); `enc` embeds the model's `GoErr` into it.  The theorems say that the translated
  functions compute the model's `wrapNode` / `wrapStream` / `newGraphRunError` — the functions
  `failThrough` / `graphFailThrough` (and with them every theorem above) are built from — and that the
  prelude's `errors.As` / `errors.Is` are the model's `asInternal` / `errorsIs`.  `isInterruptError` is an
  external, assumed to be the model's `isInterrupt`. -/
section TranslatedErrors
open EinoV.GoSem EinoV.TransC13 EinoV.Gen.TransC13
variable {V : Type} [Inhabited V]

theorem translated_source_is_current : FactsC13.errorWrappingTranslated = true := by decide

theorem translated_wrapGraphNodeError_refines (ext : Ext V) (eext : ErrExt) (act : Nat → String)
    (hi : ∀ e, eext.isInterrupt (enc act e) = isInterrupt FactsC13.internalErrorHasUnwrap e)
    (key : String) (e : GoErr) :
    wrapGraphNodeError (V := V) ext eext key (enc act e)
      = enc act (wrapNode FactsC13.internalErrorHasUnwrap key e) :=
  wrapGraphNodeError_refines ext eext act _ hi key e

theorem translated_wrapStreamWrapperError_refines (ext : Ext V) (eext : ErrExt) (act : Nat → String)
    (hi : ∀ e, eext.isInterrupt (enc act e) = isInterrupt FactsC13.internalErrorHasUnwrap e)
    (a : Nat) (e : GoErr) :
    wrapStreamWrapperError (V := V) ext eext (act a) (enc act e)
      = enc act (wrapStream FactsC13.internalErrorHasUnwrap a e) :=
  wrapStreamWrapperError_refines ext eext act _ hi a e

theorem translated_newGraphRunError_refines (ext : Ext V) (eext : ErrExt) (act : Nat → String) (e : GoErr) :
    EinoV.Gen.TransC13.newGraphRunError (V := V) ext eext (enc act e) = enc act (newGraphRunError e) :=
  newGraphRunError_refines ext eext act e

/-- `(*internalError).Unwrap` (translated) returns `origError` -/
theorem translated_unwrap_refines (ext : Ext V) (eext : ErrExt) (x : internalError V) :
    internalError_Unwrap ext eext x = x.origError :=
  unwrap_refines ext eext x

/-- the prelude's `errors.As` / `errors.Is` over the Unwrap chain are the model's `asInternal` / `errorsIs` -/
theorem translated_errorsAs_is_model (act : Nat → String) (e : GoErr) :
    (enc act e).asInternal = (asInternal e).map
      (fun t => ((if t.1 then "GraphRunError" else "NodeRunError"), t.2.2.1.map act, t.2.1, enc act t.2.2.2)) :=
  asInternal_enc act e

theorem translated_errorsIs_is_model (act : Nat → String) (unwraps : Bool) (e : GoErr) (t : Nat) :
    (enc act e).is unwraps t = errorsIs unwraps e t :=
  is_enc act unwraps e t

/-- non-vacuity: a user error wrapped at node "a", then — behind a `%w` layer — at node "g": the key is
    prepended to the internal error found on the chain and that error is returned (the `%w` layer is dropped) -/
example : wrapGraphNodeError (V := Nat) { zeroValue := 0, emptyStream := 0, mergeValues := fun _ => (0, none) }
      { isInterrupt := fun _ => false } "g"
      (.wrapf (wrapGraphNodeError (V := Nat) { zeroValue := 0, emptyStream := 0, mergeValues := fun _ => (0, none) }
        { isInterrupt := fun _ => false } "a" (.leaf 7)))
    = .internal "NodeRunError" [] ["g", "a"] (.leaf 7) := by decide

end TranslatedErrors

end EinoV.C13
