/-
  C13 — Node failures surface as identifiable, unwrappable errors; panics are contained.
  Property theorems.  Model: EinoV/Model/C13.lean.  Source facts: EinoV/Gen/FactsC13.lean
  (regenerated from /repo on every run).
-/
import EinoV.Model.C13
import EinoV.Proofs.C13
import EinoV.Gen.FactsC13
import EinoV.Expected.C13

namespace EinoV.C13
open EinoV.Gen

/-! ## property theorems (instantiated with the facts regenerated from /repo) -/

/-- Source fact tie: the regenerated facts are the ones the theorems below are proved for. -/
theorem facts_match : FactsC13.internalErrorHasUnwrap = Expected.C13.internalErrorHasUnwrap ∧
    FactsC13.failedTaskReportedAsIs = Expected.C13.failedTaskReportedAsIs := by
  decide

/-- **orig_recoverable (errors.Is half).** Whatever the nesting depth, node keys and
    paradigm adaptors a failure travels through, everything `errors.Is` could match in the
    error the node body returned is still matched in the error the outermost run returns. -/
theorem orig_recoverable (levels : List Level) (e : GoErr) (t : Nat) :
    errorsIs FactsC13.internalErrorHasUnwrap
      (failThrough FactsC13.internalErrorHasUnwrap levels e) t
    = errorsIs FactsC13.internalErrorHasUnwrap e t := by
  have hf : FactsC13.internalErrorHasUnwrap = true := by decide
  rw [hf]; exact (failThrough_all levels e t).1

/-- **orig_recoverable (node path half).** The returned error names exactly the path of
    node keys from the outermost graph down to the failing node. -/
theorem node_path_named (levels : List Level) (e : GoErr) (h : userErr e = true) :
    nodePath (failThrough FactsC13.internalErrorHasUnwrap levels e) = levels.map (·.key) := by
  have hf : FactsC13.internalErrorHasUnwrap = true := by decide
  rw [hf]
  have := (failThrough_all levels e 0).2.2 (userErr_not_interrupt h)
  rw [this]; simp [nodePath, userErr_no_internal h]

/-- **several_failures_one_is_reported.** When several tasks of one step fail, whatever the
    collection order: the error of the step is the wrapped error of *one of the failed tasks*
    (`wrapGraphNodeError(key, err)`), so `errors.Is` / `errors.As` reach that task's original
    error and the node path names that task. -/
theorem several_failures_one_is_reported (tasks : List (Key × Option GoErr))
    (h : ∃ k e, (k, some e) ∈ tasks) :
    ∃ k e, (k, some e) ∈ tasks ∧
      reportStep FactsC13.internalErrorHasUnwrap FactsC13.failedTaskReportedAsIs tasks =
        some (wrapNode FactsC13.internalErrorHasUnwrap k e) := by
  have hf : FactsC13.failedTaskReportedAsIs = true := by decide
  rw [hf]
  induction tasks with
  | nil => obtain ⟨k, e, hm⟩ := h; simp at hm
  | cons t rest ih =>
    obtain ⟨k0, r0⟩ := t
    cases r0 with
    | some e0 => exact ⟨k0, e0, by simp, by simp [reportStep]⟩
    | none =>
      obtain ⟨k, e, hm⟩ := h
      have hm' : (k, some e) ∈ rest := by
        rcases List.mem_cons.mp hm with h1 | h1
        · cases h1
        · exact h1
      obtain ⟨k', e', h1, h2⟩ := ih ⟨k, e, hm'⟩
      exact ⟨k', e', List.mem_cons_of_mem _ h1, by simpa [reportStep] using h2⟩

/-- negation witness: an aggregated, text-only error of two failures matches neither original -/
theorem aggregated_failures_not_recoverable :
    (reportStep true false [("a", some (.leaf 1)), ("b", some (.leaf 2))]).map (fun e => (errorsIs true e 1, errorsIs true e 2)) =
      some (false, false) := by decide

/-- **sentinels_match.** A graph-level failure (`ErrExceedMaxSteps`, `ctx.Err()` wrapped
    with `%w`) raised at any nesting depth is matchable with `errors.Is` on the error the
    outermost run returns, and the path names the nested graph it came from. -/
theorem sentinels_match (levels : List Level) (e : GoErr) (t : Nat) :
    errorsIs FactsC13.internalErrorHasUnwrap
      (graphFailThrough FactsC13.internalErrorHasUnwrap levels e) t
    = errorsIs FactsC13.internalErrorHasUnwrap e t := by
  have hf : FactsC13.internalErrorHasUnwrap = true := by decide
  rw [hf]; unfold graphFailThrough
  rw [(failThrough_all levels _ t).1]; simp [newGraphRunError, errorsIs]

theorem sentinel_path (levels : List Level) (e : GoErr) (h : userErr e = true) :
    nodePath (graphFailThrough FactsC13.internalErrorHasUnwrap levels e) = levels.map (·.key) := by
  have hf : FactsC13.internalErrorHasUnwrap = true := by decide
  rw [hf]; unfold graphFailThrough
  have hi : isInterrupt true (newGraphRunError e) = false := by
    simp [newGraphRunError, isInterrupt, userErr_not_interrupt h]
  rw [(failThrough_all levels _ 0).2.2 hi]; simp [nodePath, newGraphRunError, asInternal]

/-- **interrupt_passthrough.** Interrupts are never wrapped (they stay recognisable). -/
theorem interrupt_passthrough (levels : List Level) :
    isInterrupt FactsC13.internalErrorHasUnwrap
      (failThrough FactsC13.internalErrorHasUnwrap levels .interrupt) = true := by
  have hf : FactsC13.internalErrorHasUnwrap = true := by decide
  rw [hf, (failThrough_all levels .interrupt 0).2.1]; rfl

/-- **panic_is_error.** Every goroutine the framework starts for user code (`go`
    statements found in compose/, schema/ by factgen) carries a deferred `recover`, and a
    goroutine with one turns a panicking body into that task's error, never a crash. -/
theorem panic_is_error :
    (∀ s ∈ FactsC13.goSites, s.2 = true) ∧
    (∀ b, runInGoroutine true b ≠ .processCrash) := by
  refine ⟨by decide, ?_⟩
  intro b; cases b <;> simp [runInGoroutine]

/-! ## non-vacuity and the negation for the other value of the fact -/

example : userErr (.wrapf (.leaf 7)) = true := rfl
example : failThrough true [⟨"sub", [3]⟩, ⟨"n", []⟩] (.wrapf (.leaf 7))
    = .internal false ["sub", "n"] [3] (.wrapf (.leaf 7)) := by decide

/-- Without `Unwrap` on `*internalError` the original error is *not* recoverable. -/
theorem orig_not_recoverable_without_unwrap :
    errorsIs false (failThrough false [⟨"n", []⟩] (.leaf 1)) 1 = false := by decide
theorem sentinel_not_matched_without_unwrap :
    errorsIs false (graphFailThrough false [] (.leaf 1)) 1 = false := by decide
/-- Without a `recover` a panicking body is a process crash. -/
theorem panic_crashes_without_recover : runInGoroutine false (.panic 0) = .processCrash := rfl

end EinoV.C13
