/-
  C16 — Call options reach exactly the nodes they address.
  Property theorems.  Model: EinoV/Model/C16.lean (`extract` = compose/utils.go
  `extractOption`, `run` = its recursive use through nested graphs plus
  `initGraphCallbacks` / `initNodeCallbacks`).  Source facts: EinoV/Gen/FactsC16.lean
  (regenerated from /repo on every run).

  Vocabulary (EinoV/Proofs/C16.lean): `nodeAt g p` = the node the path `p` names (walking down
  through graph nodes only); `pathErr F g o p` = the verdict on one designated path `p` of
  option `o` (none = accepted); an entry of a successful run = what one component / graph
  node saw: the option values its body was called with, the callback handlers active for it.
-/
import EinoV.Model.C16
import EinoV.Model.C16Keys
import EinoV.Proofs.C16
import EinoV.Proofs.C16Keys
import EinoV.Model.C16Slices
import EinoV.Proofs.C16Slices
import EinoV.Model.C16Resume
import EinoV.Proofs.C16Resume
import EinoV.Gen.FactsC16
import EinoV.Expected.C16
import EinoV.Proofs.TransC16

namespace EinoV.C16
open EinoV.Gen

/-- The facts regenerated from the source, as the model's parameter. -/
def gen : Facts :=
  { typeCmpIdentity := FactsC16.typeCmpIdentity, typeCmpImplements := FactsC16.typeCmpImplements,
    strip := FactsC16.strip,
    passSubPathIsError := FactsC16.passSubPathIsError, nestedCopies := FactsC16.nestedCopies,
    designateCopies := FactsC16.designateCopies }

/-- The regenerated facts about the key wrappers (`WithInputKey` / `WithOutputKey`). -/
def genK : KeyFacts :=
  { inKeyFwdInvoke := FactsC16.inKeyFwdInvoke, inKeyFwdTransform := FactsC16.inKeyFwdTransform,
    outKeyFwdInvoke := FactsC16.outKeyFwdInvoke, outKeyFwdTransform := FactsC16.outKeyFwdTransform }

/-- The regenerated fact about how `extractOption` grows the lists of `optMap`. -/
def genV : SliceFacts := { valsGrowFromMapSlot := FactsC16.valsGrowFromMapSlot }

/-- The regenerated fact about tasks restored from a checkpoint. -/
def genR : ResumeFacts := { restoredTaskGetsNodeCallbacks := FactsC16.restoredTaskGetsNodeCallbacks }

/-! ## property theorems (instantiated with the facts regenerated from /repo) -/

/-- Source fact tie: the regenerated facts are the ones the oracle runs with. -/
theorem facts_match : gen = Expected.C16.facts := by decide

/-- Source fact tie: both closures (invoke path, transform path) of both key wrappers pass the
    option list on to the closure they wrap; these are the values the oracle runs with. -/
theorem key_facts_match : genK = Expected.C16.keyFacts := by decide

theorem genK_all : genK.allForward := by
  unfold KeyFacts.allForward; decide

/-- Source fact tie: every code shape the model has built in was found in the source
    (`optionType == nil` decides "transmit the whole Option", guards of the undesignated block,
    the unknown-node / empty-path tests, `nOpt.paths = []*NodePath{}`, the handler selectors of
    `initGraphCallbacks` / `initNodeCallbacks`, `optionType` nil for graphs and passthroughs,
    `optMap` fresh per call and indexed by node key). -/
theorem shape_ok : ∀ s ∈ FactsC16.shape, s.2 = true := by decide

theorem gen_T : gen.typeCmpIdentity = true := by decide
theorem gen_I : gen.typeCmpImplements = false := by decide
theorem gen_S : gen.strip = 1 := by decide
theorem gen_C : gen.nestedCopies = true := by decide

/-- Every entry of a successful run is the root entry or satisfies `EntrySpec` at its path. -/
theorem run_entries {g : Nodes} (hwf : g.wf = true) {opts : List Opt} {out : List Entry}
    (hrun : run gen g opts = .ok out) (e : Entry) (he : e ∈ out) :
    (e.path = [] ∧ e.isGraph = true ∧ e.vals = [] ∧ e.handlers = graphHandlers opts) ∨
    EntrySpec g [] (graphHandlers opts) opts e := by
  unfold run at hrun
  split at hrun
  · cases hrun
  · rename_i log hlog
    split at hrun
    · cases hrun
    · rename_i es hes
      cases hrun
      rcases List.mem_cons.mp he with rfl | he
      · exact Or.inl ⟨rfl, rfl, rfl, rfl⟩
      · exact Or.inr (runNodes_sound gen_T gen_I gen_S g g [] _ opts log es hwf hlog (fun _ h => h)
          (fun _ h => h) hes e he)

/-- **option_reaches_iff.** In a run that is accepted, the component node at path `p` (any
    nesting depth) has exactly one kind of entry, and the option values its body is called with
    are exactly the values of the Options of this call that have the node's option type and
    are undesignated, or designated to `p` itself, or designated to a graph node above `p`
    (`q` a prefix of `p`; a proper prefix of a node path always names a graph node).
    So an undesignated option reaches every node of its type at every depth and no node of
    another type; a designated option reaches only the designated node, or the nodes of its
    type inside the designated sub-graph. -/
theorem option_reaches_iff (g : Nodes) (hwf : g.wf = true) (opts : List Opt) (out : List Entry)
    (hrun : run gen g opts = .ok out) (p : Path) (k : Key) (ty : Nat)
    (hnode : nodeAt g p = some (.comp k ty)) :
    (∃ e ∈ out, e.path = p) ∧
    ∀ e ∈ out, e.path = p → ∀ v, v ∈ e.vals ↔
      ∃ o ∈ opts, v ∈ o.vals ∧ ty = o.ty ∧
        (o.paths = [] ∨ ∃ q ∈ o.paths, q ≠ [] ∧ q <+: p) := by
  constructor
  · unfold run at hrun
    split at hrun
    · cases hrun
    · rename_i log hlog
      split at hrun
      · cases hrun
      · rename_i es hes
        cases hrun
        obtain ⟨e, he, hp⟩ := runNodes_complete g [] _ opts log es hes p _ hnode rfl
        exact ⟨e, List.mem_cons_of_mem _ he, by simpa using hp⟩
  · intro e he hp v
    rcases run_entries hwf hrun e he with ⟨h0, _⟩ | ⟨rel, hrel, ⟨n, hn, hkind⟩, _⟩
    · rw [h0] at hp; subst hp; simp [nodeAt] at hnode
    · simp only [List.nil_append] at hrel
      rw [hp] at hrel; subst hrel
      rw [hnode] at hn; cases hn
      rcases hkind with ⟨_, k', ty', heq, hv⟩ | ⟨_, k', ch, heq, _⟩
      · cases heq; exact hv v
      · cases heq

/-- Consequence: a node never receives a value of an option of another type, at any depth. -/
theorem no_other_type (g : Nodes) (hwf : g.wf = true) (opts : List Opt) (out : List Entry)
    (hrun : run gen g opts = .ok out) (p : Path) (k : Key) (ty : Nat)
    (hnode : nodeAt g p = some (.comp k ty)) (e : Entry) (he : e ∈ out) (hp : e.path = p)
    (v : Nat) (hv : v ∈ e.vals) : ∃ o ∈ opts, v ∈ o.vals ∧ o.ty = ty := by
  obtain ⟨o, ho, h1, h2, _⟩ := ((option_reaches_iff g hwf opts out hrun p k ty hnode).2 e he hp v).mp hv
  exact ⟨o, ho, h1, h2.symm⟩

/-- **designation_errors_iff.** A call is rejected iff one of its designated paths is bad:
    `pathErr` says why — the path is empty, names a key that is not a node of the graph it has
    reached, continues below a component or passthrough node, or ends at a component whose
    option type differs from the option's (see `bad_paths` below). -/
theorem designation_errors_iff (g : Nodes) (hwf : g.wf = true) (opts : List Opt) :
    (∃ e, run gen g opts = .error e) ↔
      ∃ o ∈ opts, ∃ p ∈ o.paths, (pathErr gen g o p).isSome = true :=
  run_err gen_S hwf opts

/-- What `pathErr` is, clause by clause (with the regenerated facts): an empty path; an
    unknown key (at the top, or in the graph reached so far); a path that continues below a
    component or below a passthrough node; a path that names a component of another option
    type (for an option that carries values); and nothing else: a path that names a
    passthrough or graph node, or a component of the option's type, is accepted. -/
theorem bad_paths (g : Nodes) (o : Opt) :
    pathErr gen g o [] = some .emptyPath ∧
    (∀ k r, g.find k = none → pathErr gen g o (k :: r) = some .unknownNode) ∧
    (∀ q k' ch k r, nodeAt g q = some (.graph k' ch) → ch.find k = none →
      pathErr gen g o (q ++ k :: r) = some .unknownNode) ∧
    (∀ q k' ty r, nodeAt g q = some (.comp k' ty) → r ≠ [] →
      pathErr gen g o (q ++ r) = some .subPathOfComponent) ∧
    (∀ q k' r, nodeAt g q = some (.pass k') → r ≠ [] →
      pathErr gen g o (q ++ r) = some .subPathOfComponent) ∧
    (∀ q k' ty, nodeAt g q = some (.comp k' ty) → o.vals ≠ [] → ty ≠ o.ty →
      pathErr gen g o q = some .wrongType) ∧
    (∀ q k' ty, nodeAt g q = some (.comp k' ty) → (o.vals = [] ∨ ty = o.ty) →
      pathErr gen g o q = none) ∧
    (∀ q n, nodeAt g q = some n → (∀ k' ty, n ≠ .comp k' ty) → pathErr gen g o q = none) := by
  have hP : gen.passSubPathIsError = true := by decide
  refine ⟨rfl, fun k r h => pathErr_unknown o g k r h, ?_, ?_, ?_, ?_, ?_, ?_⟩
  · intro q k' ch k r hq hk
    rw [pathErr_below o (k :: r) (by simp) q g _ hq]
    exact pathErr_unknown o ch k r hk
  · intro q k' ty r hq hr
    rw [pathErr_below o r hr q g _ hq]
  · intro q k' r hq hr
    rw [pathErr_below o r hr q g _ hq]
    simp [hP]
  · intro q k' ty hq hv hty
    rw [pathErr_at o q g _ hq]
    simp [hv, hty, gen_T, tyMatch_id gen_I]
  · intro q k' ty hq h
    rw [pathErr_at o q g _ hq]
    rcases h with h | h <;> simp [h, tyMatch_id gen_I]
  · intro q n hq hn
    rw [pathErr_at o q g _ hq]
    cases n with
    | comp k' ty => exact absurd rfl (hn k' ty)
    | pass k' => rfl
    | graph k' ch => rfl

/-- **interface_typed_node_gets_nothing.**  The type of an Option is the dynamic type of its
    values – never an interface type.  A lambda whose declared option type is an interface
    (`opts ...any`, `opts ...fmt.Stringer`) is matched by *identity* of the types like every
    other node, so no option of a concrete type reaches it, undesignated or designated, at any
    depth: its body is always called without options. -/
theorem interface_typed_node_gets_nothing (g : Nodes) (hwf : g.wf = true) (opts : List Opt)
    (out : List Entry) (hrun : run gen g opts = .ok out) (p : Path) (k : Key) (ty : Nat)
    (hnode : nodeAt g p = some (.comp k ty)) (hi : isIfaceTy ty = true)
    (hconc : ∀ o ∈ opts, isIfaceTy o.ty = false) (e : Entry) (he : e ∈ out) (hp : e.path = p) :
    e.vals = [] := by
  cases hv : e.vals with
  | nil => rfl
  | cons v vs =>
    exfalso
    obtain ⟨o, ho, _, hty⟩ := no_other_type g hwf opts out hrun p k ty hnode e he hp v (by simp [hv])
    have := hconc o ho
    rw [hty, hi] at this
    cases this

/-- **designating_interface_typed_node_is_error.**  An option that carries values, designated
    to a node whose option type is an interface type, is an option of the wrong type: the call
    is rejected (for every concrete option type, implementing the interface or not). -/
theorem designating_interface_typed_node_is_error (g : Nodes) (hwf : g.wf = true) (opts : List Opt)
    (o : Opt) (ho : o ∈ opts) (hv : o.vals ≠ []) (hc : isIfaceTy o.ty = false)
    (q : Path) (hq : q ∈ o.paths) (k : Key) (ty : Nat) (hnode : nodeAt g q = some (.comp k ty))
    (hi : isIfaceTy ty = true) : ∃ e, run gen g opts = .error e := by
  refine (designation_errors_iff g hwf opts).mpr ⟨o, ho, q, hq, ?_⟩
  have hne : ty ≠ o.ty := by
    intro h; rw [h, hc] at hi; cases hi
  rw [(bad_paths g o).2.2.2.2.2.1 q k ty hnode hv hne]
  rfl

/-- **callbacks_reach_iff.** In a run that is accepted, a callback handler is active for a
    node (component or graph node at any depth, or the outermost graph, `path = []`) iff it
    belongs to an Option of this call that is undesignated or has a designated path that is the
    node's path or a prefix of it (the node lies inside the designated graph node). -/
theorem callbacks_reach_iff (g : Nodes) (hwf : g.wf = true) (opts : List Opt) (out : List Entry)
    (hrun : run gen g opts = .ok out) (e : Entry) (he : e ∈ out) (h : Nat) :
    h ∈ e.handlers ↔
      ∃ o ∈ opts, h ∈ o.handlers ∧ (o.paths = [] ∨ ∃ q ∈ o.paths, q ≠ [] ∧ q <+: e.path) := by
  rcases run_entries hwf hrun e he with ⟨h0, _, _, hh⟩ | ⟨rel, hrel, _, hh⟩
  · rw [hh, h0, mem_graphHandlers]
    constructor
    · rintro ⟨o, ho, hp, hm⟩; exact ⟨o, ho, hm, Or.inl hp⟩
    · rintro ⟨o, ho, hm, (hp | ⟨q, _, hne, hq⟩)⟩
      · exact ⟨o, ho, hp, hm⟩
      · exact absurd (List.prefix_nil.mp hq) hne
  · simp only [List.nil_append] at hrel
    subst hrel
    rw [hh h, mem_graphHandlers]
    constructor
    · rintro (⟨o, ho, hp, hm⟩ | ⟨o, ho, hm, hc⟩)
      · exact ⟨o, ho, hm, Or.inl hp⟩
      · exact ⟨o, ho, hm, Or.inr hc⟩
    · rintro ⟨o, ho, hm, (hp | hc)⟩
      · exact Or.inl ⟨o, ho, hp, hm⟩
      · exact Or.inr ⟨o, ho, hm, hc⟩

/-- **callbacks_designated_only.** A handler that is only carried by designated Options is
    active only at the designated nodes and inside designated graph nodes: never for the
    outermost graph, never for a node that no designated path leads to. -/
theorem callbacks_designated_only (g : Nodes) (hwf : g.wf = true) (opts : List Opt)
    (out : List Entry) (hrun : run gen g opts = .ok out) (h : Nat)
    (hdes : ∀ o ∈ opts, h ∈ o.handlers → o.paths ≠ []) (e : Entry) (he : e ∈ out)
    (hact : h ∈ e.handlers) :
    e.path ≠ [] ∧ ∃ o ∈ opts, h ∈ o.handlers ∧ ∃ q ∈ o.paths, q ≠ [] ∧ q <+: e.path := by
  obtain ⟨o, ho, hm, hc⟩ := (callbacks_reach_iff g hwf opts out hrun e he h).mp hact
  rcases hc with hp | ⟨q, hq, hne, hpre⟩
  · exact absurd hp (hdes o ho hm)
  · refine ⟨?_, o, ho, hm, q, hq, hne, hpre⟩
    intro h0; rw [h0] at hpre; exact hne (List.prefix_nil.mp hpre)

/-- **no_leak.** Over any sequence of calls that share Option values (the caller's store),
    every call's outcome is the function `run` of that call's own graph and options, and the
    caller's Option values are the same after the calls as before. -/
theorem no_leak (store : List Opt) (cs : List Call) :
    runCalls gen store cs = (cs.map (fun c => run gen c.g (pick store c.ixs)), store) :=
  runCalls_copies gen_C cs store

/-- **designate_paths_exact.** Whatever sequence of `DesignateNode` / `DesignateNodeWithPath`
    calls derives Options from shared bases (any sources, any order, any number of siblings
    derived from the same base, any capacity-growth rule of `append`), every constructed Option
    designates — when looked at after the whole construction — exactly its base's paths
    followed by the paths added to it. Together with `option_reaches_iff` (whose `opts` are
    these values): an Option reaches only the nodes it was designated to, no matter what else
    was derived from the same base. -/
theorem designate_paths_exact (grow : Nat → Nat → Nat) (ops : List BuildOp) :
    builtPaths gen.designateCopies grow ops = specPaths ops := by
  have h : gen.designateCopies = true := by decide
  rw [h]; exact builtPaths_copies grow ops

/-! ## paradigms and key wrappers (Model/C16Keys.lean)

  `extractOption` decides what a node's *task* holds; `runW` adds the way from the task to the
  node body: the paradigm of the call (`Invoke` = every node's `i` closure; `Stream`, `Collect`,
  `Transform` = every node's `t` closure) and the wrappers of `WithInputKey` / `WithOutputKey`
  around the node.  With the regenerated facts that way changes nothing. -/

/-- **keys_and_paradigm_irrelevant.** For every tree whose nodes (components, lambdas,
    passthroughs, nested graphs at any depth) carry any input / output keys, every paradigm and
    every list of Options, the run is the run of the tree without keys (`run`, the subject of
    all theorems above): every node receives the same option values and has the same handlers,
    and the call is rejected for the same reason at the same graph. -/
theorem keys_and_paradigm_irrelevant (par : Paradigm) (g : WNodes) (opts : List Opt) :
    runW gen genK par g opts = run gen g.erase opts :=
  runW_eq genK_all par g opts

/-- Two calls whose trees differ only in keys, in any two paradigms, have the same outcome. -/
theorem same_outcome_in_every_paradigm (par par' : Paradigm) (g g' : WNodes)
    (h : g.erase = g'.erase) (opts : List Opt) :
    runW gen genK par g opts = runW gen genK par' g' opts := by
  rw [keys_and_paradigm_irrelevant, keys_and_paradigm_irrelevant, h]

/-- `option_reaches_iff` for a call in any paradigm on a tree with keys: a component node at
    path `p` – with or without input / output key, inside any number of keyed sub-graphs –
    receives exactly the values of the Options of its type that are undesignated or designated
    to a prefix of `p`. -/
theorem keyed_option_reaches_iff (par : Paradigm) (g : WNodes) (hwf : g.erase.wf = true)
    (opts : List Opt) (out : List Entry) (hrun : runW gen genK par g opts = .ok out)
    (p : Path) (k : Key) (ty : Nat) (hnode : nodeAt g.erase p = some (.comp k ty)) :
    (∃ e ∈ out, e.path = p) ∧
    ∀ e ∈ out, e.path = p → ∀ v, v ∈ e.vals ↔
      ∃ o ∈ opts, v ∈ o.vals ∧ ty = o.ty ∧
        (o.paths = [] ∨ ∃ q ∈ o.paths, q ≠ [] ∧ q <+: p) := by
  rw [keys_and_paradigm_irrelevant] at hrun
  exact option_reaches_iff g.erase hwf opts out hrun p k ty hnode

/-- `designation_errors_iff` for a call in any paradigm on a tree with keys: a bad designated
    path (unknown node, below a non-graph node, wrong type, empty) is an error also when it
    leads through or to keyed nodes, in every paradigm. -/
theorem keyed_designation_errors_iff (par : Paradigm) (g : WNodes) (hwf : g.erase.wf = true)
    (opts : List Opt) :
    (∃ e, runW gen genK par g opts = .error e) ↔
      ∃ o ∈ opts, ∃ p ∈ o.paths, (pathErr gen g.erase o p).isSome = true := by
  rw [keys_and_paradigm_irrelevant]
  exact designation_errors_iff g.erase hwf opts

/-- `callbacks_reach_iff` for a call in any paradigm on a tree with keys. -/
theorem keyed_callbacks_reach_iff (par : Paradigm) (g : WNodes) (hwf : g.erase.wf = true)
    (opts : List Opt) (out : List Entry) (hrun : runW gen genK par g opts = .ok out)
    (e : Entry) (he : e ∈ out) (h : Nat) :
    h ∈ e.handlers ↔
      ∃ o ∈ opts, h ∈ o.handlers ∧ (o.paths = [] ∨ ∃ q ∈ o.paths, q ≠ [] ∧ q <+: e.path) := by
  rw [keys_and_paradigm_irrelevant] at hrun
  exact callbacks_reach_iff g.erase hwf opts out hrun e he h

/-- `no_leak` for sequences of calls in any paradigms on trees with keys. -/
theorem keyed_no_leak (store : List Opt) (cs : List CallW) :
    runCallsW gen genK store cs
      = (cs.map (fun c => run gen c.g.erase (pick store c.ixs)), store) := by
  rw [runCallsW_eq genK_all, no_leak, List.map_map]
  rfl

/-! ## interrupted and resuming calls (Model/C16Resume.lean)

  A node body that returns `InterruptAndRerun` ends the call with a checkpoint; a later call with
  the checkpoint id resumes: it extracts ITS OWN options, the nodes that had completed do not
  execute again, the interrupted node – and the nested-graph nodes around it, as restored tasks –
  and everything after it do.  `runWP … part` is `runW` restricted to the nodes that execute
  (`Part.stopAt p`: the call the node at `p` interrupts; `Part.resumeAt p`: the call that resumes
  there; `Part.full`: a call from START to END).  With the regenerated fact (every task the
  executor runs, restored or new, gets its node callbacks) the clauses of the property hold for
  each of these calls exactly as for a fresh one, for the nodes that execute in it. -/

/-- Source fact tie: the regenerated fact is the one the oracle runs with. -/
theorem resume_facts_match : genR = Expected.C16.resumeFacts := by decide

theorem gen_R : genR.restoredTaskGetsNodeCallbacks = true := by decide

/-- a call from START to END is the `run` all theorems above are about -/
theorem fresh_call_is_run (par : Paradigm) (g : WNodes) (opts : List Opt) :
    runWP gen genK genR par .full g opts = run gen g.erase opts := by
  rw [runWP_full, keys_and_paradigm_irrelevant]

/-- **resumed_option_reaches_iff.**  In a call that is accepted – fresh, interrupted at any node,
    or resuming at any node; any paradigm, any keys – a component node at `p` that executes in it
    (has an entry) receives exactly the values of the Options OF THIS CALL that have its type and
    are undesignated or designated to a prefix of `p`: for the resuming call exactly as for a
    fresh call, whatever the interrupted call was given. -/
theorem resumed_option_reaches_iff (par : Paradigm) (part : Part) (g : WNodes)
    (hwf : g.erase.wf = true) (opts : List Opt) (out : List Entry)
    (hrun : runWP gen genK genR par part g opts = .ok out)
    (p : Path) (k : Key) (ty : Nat) (hnode : nodeAt g.erase p = some (.comp k ty)) :
    ∀ e ∈ out, e.path = p → ∀ v, v ∈ e.vals ↔
      ∃ o ∈ opts, v ∈ o.vals ∧ ty = o.ty ∧
        (o.paths = [] ∨ ∃ q ∈ o.paths, q ≠ [] ∧ q <+: p) := by
  intro e he hp v
  rcases runWP_entries gen_T gen_I gen_S genK_all gen_R par part g hwf opts out hrun e he
    with ⟨h0, _⟩ | ⟨rel, hrel, ⟨n, hn, hkind⟩, _⟩
  · rw [h0] at hp; subst hp; simp [nodeAt] at hnode
  · simp only [List.nil_append] at hrel
    rw [hp] at hrel; subst hrel
    rw [hnode] at hn; cases hn
    rcases hkind with ⟨_, k', ty', heq, hv⟩ | ⟨_, k', ch, heq, _⟩
    · cases heq; exact hv v
    · cases heq

/-- **resumed_callbacks_reach_iff.**  In an accepted call – fresh, interrupted or resuming – a
    handler is active for a node that executes in it (component, graph node – also a nested graph
    restored from the checkpoint –, or the outermost graph) iff it belongs to an Option of this
    call that is undesignated or has a designated path that is a prefix of the node's path. -/
theorem resumed_callbacks_reach_iff (par : Paradigm) (part : Part) (g : WNodes)
    (hwf : g.erase.wf = true) (opts : List Opt) (out : List Entry)
    (hrun : runWP gen genK genR par part g opts = .ok out) (e : Entry) (he : e ∈ out) (h : Nat) :
    h ∈ e.handlers ↔
      ∃ o ∈ opts, h ∈ o.handlers ∧ (o.paths = [] ∨ ∃ q ∈ o.paths, q ≠ [] ∧ q <+: e.path) := by
  rcases runWP_entries gen_T gen_I gen_S genK_all gen_R par part g hwf opts out hrun e he
    with ⟨h0, _, _, hh⟩ | ⟨rel, hrel, _, hh⟩
  · rw [hh, h0, mem_graphHandlers]
    constructor
    · rintro ⟨o, ho, hp, hm⟩; exact ⟨o, ho, hm, Or.inl hp⟩
    · rintro ⟨o, ho, hm, (hp | ⟨q, _, hne, hq⟩)⟩
      · exact ⟨o, ho, hp, hm⟩
      · exact absurd (List.prefix_nil.mp hq) hne
  · simp only [List.nil_append] at hrel
    subst hrel
    rw [hh h, mem_graphHandlers]
    constructor
    · rintro (⟨o, ho, hp, hm⟩ | ⟨o, ho, hm, hc⟩)
      · exact ⟨o, ho, hm, Or.inl hp⟩
      · exact ⟨o, ho, hm, Or.inr hc⟩
    · rintro ⟨o, ho, hm, (hp | hc)⟩
      · exact Or.inl ⟨o, ho, hp, hm⟩
      · exact Or.inr ⟨o, ho, hm, hc⟩

/-- **resumed_call_delivers_as_fresh_call.**  If the call made fresh with the same options is
    accepted, then the call in which only part of the nodes execute (interrupted / resuming at any
    node) is accepted too, and what it delivers – node by node, values in order, handlers – are
    entries of the fresh call, in the fresh call's order: nothing is added, nothing is changed. -/
theorem resumed_call_delivers_as_fresh_call (par : Paradigm) (part : Part) (g : WNodes)
    (opts : List Opt) (out : List Entry) (hrun : run gen g.erase opts = .ok out) :
    ∃ outP, runWP gen genK genR par part g opts = .ok outP ∧ outP.Sublist out := by
  rw [← keys_and_paradigm_irrelevant par] at hrun
  exact runWP_sublist gen_R par part g opts out hrun

/-- **interrupt_point_executes.**  The node that interrupts executes in the interrupted call (its
    body received its options before it interrupted) and again in the resuming call: both have an
    entry at its path. -/
theorem interrupt_point_executes (par : Paradigm) (g : WNodes) (opts : List Opt) (ip : Path) (n : Node)
    (hnode : nodeAt g.erase ip = some n) (hnp : n.isPass = false) (part : Part)
    (hpart : part = .stopAt ip ∨ part = .resumeAt ip) (out : List Entry)
    (hrun : runWP gen genK genR par part g opts = .ok out) : ∃ e ∈ out, e.path = ip := by
  unfold runWP at hrun
  split at hrun
  · cases hrun
  · rename_i log _
    split at hrun
    · cases hrun
    · rename_i es hes
      cases hrun
      obtain ⟨e, he, hp⟩ := runNodesWP_point par g part [] _ opts log es hes ip n hpart hnode hnp
      exact ⟨e, List.mem_cons_of_mem _ he, by simpa using hp⟩

/-- **resume_no_leak.**  Over any sequence of calls – ordinary, interrupted, resuming – that share
    Option values and the checkpoint store: each call's outcome is `runWP` of ITS OWN graph and
    options, on the part the sequence determines (`callsSpec`: a resuming call resumes where the
    last accepted interrupted call stopped, else runs from START); nothing else of an earlier
    call – its options, its callbacks – enters, and the caller's Option values are unchanged. -/
theorem resume_no_leak (saved : Option Path) (store : List Opt) (cs : List CallP) :
    runCallsWP gen genK genR saved store cs = (callsSpec gen genK genR store saved cs, store) :=
  runCallsWP_copies gen_C cs saved store

/-! ## option value lists as Go slices (Model/C16Slices.lean)

  `WithLambdaOption(vals...)` keeps the caller's slice: the value list of an Option can have
  spare capacity, and Options derived from one base (`DesignateNode` on the value receiver)
  share one backing array.  `runSW` tells the run with Go's slice semantics on one heap: the
  lists of `optMap` are slice headers, `append` writes in place within capacity, a node body
  reads the cells when it runs, nested graphs extract when their node runs.  With the
  regenerated fact (every list of `optMap` grows by `append` from the map's own slot) none of
  that is observable. -/

/-- Source fact tie: the regenerated fact is the one the oracle runs with. -/
theorem slice_facts_match : genV = Expected.C16.sliceFacts := by decide

theorem gen_V : genV.valsGrowFromMapSlot = true := by decide

/-- **capacity_and_sharing_irrelevant.**  For every heap of backing arrays and every list of
    Options whose value slices point into it – any lengths, any spare capacity, any number of
    Options sharing an array –, every growth rule of `append`, every paradigm, every tree (any
    keys) and every kind of call (fresh, interrupted, resuming): the call run with slice
    semantics has the outcome of the pure `runWP` on the Options as they read when the call
    starts – for a call from START to END that is `run`, the subject of `option_reaches_iff`,
    `designation_errors_iff`, `callbacks_reach_iff` –, and every array that existed before the
    call has all its cells unchanged afterwards. -/
theorem capacity_and_sharing_irrelevant (grow : Nat → Nat → Nat) (par : Paradigm) (part : Part)
    (g : WNodes) (opts : List SOpt) (h : VHeap) (hb : ∀ o ∈ opts, o.vh.arr < h.next) :
    (runSW gen genK genR genV grow par part g opts h).2
      = runWP gen genK genR par part g (opts.map (SOpt.abs h)) ∧
    (part = .full → (runSW gen genK genR genV grow par part g opts h).2
      = run gen g.erase (opts.map (SOpt.abs h))) ∧
    Frame h (runSW gen genK genR genV grow par part g opts h).1 := by
  have := runSW_refines (F := gen) (K := genK) (R := genR) gen_V grow par part g opts h hb
  refine ⟨this.2, ?_, this.1⟩
  intro hp
  rw [this.2, hp, fresh_call_is_run]

/-- **caller_arrays_never_written.**  After the call the caller finds in the backing array of
    each of its Options – the elements and the spare cells behind them, `[0, cap)` – what was
    there before. -/
theorem caller_arrays_never_written (grow : Nat → Nat → Nat) (par : Paradigm) (part : Part) (g : WNodes)
    (opts : List SOpt) (h : VHeap) (hb : ∀ o ∈ opts, o.vh.arr < h.next) (o : SOpt) (ho : o ∈ opts) :
    (runSW gen genK genR genV grow par part g opts h).1.cells o.vh = h.cells o.vh := by
  have hf := (capacity_and_sharing_irrelevant grow par part g opts h hb).2.2
  unfold VHeap.cells
  exact List.map_congr_left (fun i _ => hf.2 _ i (hb o ho))

/-- `option_reaches_iff` for the run with slice semantics: the component at `p` receives `v`
    iff `v` is an element (`[0, len)`) of an Option of the call that has the node's type and is
    undesignated or designated to a prefix of `p` – whatever else shares that Option's array,
    whatever capacity it has, whichever other Options address the same node. -/
theorem sliced_option_reaches_iff (grow : Nat → Nat → Nat) (par : Paradigm) (g : WNodes)
    (hwf : g.erase.wf = true) (opts : List SOpt) (h : VHeap) (hb : ∀ o ∈ opts, o.vh.arr < h.next)
    (out : List Entry) (hrun : (runSW gen genK genR genV grow par .full g opts h).2 = .ok out)
    (p : Path) (k : Key) (ty : Nat) (hnode : nodeAt g.erase p = some (.comp k ty)) :
    (∃ e ∈ out, e.path = p) ∧
    ∀ e ∈ out, e.path = p → ∀ v, v ∈ e.vals ↔
      ∃ o ∈ opts, v ∈ h.read o.vh ∧ ty = o.ty ∧
        (o.paths = [] ∨ ∃ q ∈ o.paths, q ≠ [] ∧ q <+: p) := by
  rw [(capacity_and_sharing_irrelevant grow par .full g opts h hb).2.1 rfl] at hrun
  have := option_reaches_iff g.erase hwf _ out hrun p k ty hnode
  refine ⟨this.1, fun e he hp v => ?_⟩
  rw [this.2 e he hp v]
  constructor
  · rintro ⟨o', ho', hv, hty, hc⟩
    obtain ⟨o, ho, rfl⟩ := List.mem_map.mp ho'
    exact ⟨o, ho, hv, hty, hc⟩
  · rintro ⟨o, ho, hv, hty, hc⟩
    exact ⟨o.abs h, List.mem_map_of_mem ho, hv, hty, hc⟩

/-- **sliced_no_leak.**  For every construction of the caller's store (fresh Options over value
    lists with any spare capacity, Options derived from earlier ones and sharing their arrays)
    and every sequence of calls over it (any graphs, keys, paradigms, index sets; ordinary,
    interrupted and resuming calls): each call's outcome is the pure one (`callsSpec`: `runWP` of
    its own graph and of the Option values the construction *means* – `specStore`: no capacities
    in it –; for a sequence of ordinary calls: `run`), the caller's Option values are the same
    afterwards, and so is every cell – spare ones included – of every array the construction made. -/
theorem sliced_no_leak (grow : Nat → Nat → Nat) (ops : List StoreOp) (hwf : storeOpsWf ops 0 = true)
    (cs : List CallP) :
    let b := buildStore ops (VHeap.empty, [])
    let r := runCallsSW gen genK genR genV grow none b.1 b.2 cs
    r.1 = callsSpec gen genK genR (specStore ops) none cs ∧
    ((∀ c ∈ cs, c.ask = .plain) →
      r.1 = cs.map (fun c => run gen c.g.erase (pick (specStore ops) c.ixs))) ∧
    r.2.1 = b.2 ∧ (∀ o ∈ b.2, r.2.2.cells o.vh = b.1.cells o.vh) := by
  intro b r
  obtain ⟨hb, hspec⟩ := buildStore_empty ops hwf
  have := runCallsSW_refines (F := gen) (K := genK) (R := genR) gen_C gen_V grow cs none b.1 b.2 hb
  have h1 : r.1 = callsSpec gen genK genR (specStore ops) none cs := by
    show (runCallsSW gen genK genR genV grow none b.1 b.2 cs).1 = _
    rw [this.1, hspec]
  refine ⟨h1, ?_, this.2.1, ?_⟩
  · intro hplain
    rw [h1, callsSpec_plain genR _ cs none hplain]
    exact List.map_congr_left (fun c _ => keys_and_paradigm_irrelevant c.par c.g _)
  · intro o ho
    unfold VHeap.cells
    exact List.map_congr_left (fun i _ => this.2.2.2 _ i (hb o ho))

/-! ## non-vacuity -/

example : specPaths [.base, .designate 0 [["a"]], .designate 1 [["b"]], .designate 2 [["c"]],
      .designate 3 [["d"]], .designate 3 [["sub", "e"], ["f"]]]
    = [[], [["a"]], [["a"], ["b"]], [["a"], ["b"], ["c"]], [["a"], ["b"], ["c"], ["d"]],
       [["a"], ["b"], ["c"], ["sub", "e"], ["f"]]] := by decide


deriving instance DecidableEq for Except

/-- a ⟶ b ⟶ p(passthrough) ⟶ sub[ a ⟶ in[ a ⟶ m ] ]; keys reused across levels -/
def exG : Nodes :=
  .cons (.comp "a" 1) <| .cons (.comp "b" 2) <| .cons (.pass "p") <|
  .cons (.graph "sub" (.cons (.comp "a" 1) <| .cons (.graph "in" (.cons (.comp "a" 1) <| .cons (.comp "m" 0) .nil)) .nil)) .nil

def exOpts : List Opt :=
  [ { ty := 1, vals := [10, 11], handlers := [], paths := [] },
    { ty := 1, vals := [20], handlers := [], paths := [["sub", "in"]] },
    { ty := 2, vals := [30], handlers := [], paths := [["b"]] },
    { ty := 0, vals := [], handlers := [7], paths := [["sub"]] },
    { ty := 0, vals := [], handlers := [8], paths := [] } ]

example : exG.wf = true := by decide
example : nodeAt exG ["sub", "in", "a"] = some (.comp "a" 1) := by decide
example : run Expected.C16.facts exG exOpts = .ok
    [ ⟨[], true, [], [8]⟩, ⟨["a"], false, [10, 11], [8]⟩, ⟨["b"], false, [30], [8]⟩,
      ⟨["sub"], true, [], [8, 7]⟩, ⟨["sub", "a"], false, [10, 11], [8, 7]⟩,
      ⟨["sub", "in"], true, [], [8, 7]⟩, ⟨["sub", "in", "a"], false, [10, 11, 20], [8, 7]⟩,
      ⟨["sub", "in", "m"], false, [], [8, 7]⟩ ] := by decide
example : run Expected.C16.facts exG [{ ty := 1, vals := [1], handlers := [], paths := [["sub", "in", "zz"]] }]
    = .error (["sub", "in"], .unknownNode) := by decide
example : run Expected.C16.facts exG [{ ty := 1, vals := [1], handlers := [], paths := [["sub", "in", "m"]] }]
    = .error (["sub", "in"], .wrongType) := by decide
example : run Expected.C16.facts exG [{ ty := 1, vals := [1], handlers := [], paths := [["p", "x"]] }]
    = .error ([], .subPathOfComponent) := by decide

/-! ## the other values of the facts -/

/-- With the guard `optionType != nil` alone (no `|| isPassthrough`), a path below a
    passthrough node is **not** rejected: the call runs and the option is dropped. -/
theorem below_passthrough_accepted_without_guard :
    (run { Expected.C16.facts with passSubPathIsError := false } exG
      [{ ty := 1, vals := [1], handlers := [], paths := [["p", "x"]] }]).isOk = true := by decide

/-- If the Option handed to a sub-graph aliased the caller's value instead of being a deep
    copy, a second call with the same Option value would see the rewritten path and fail. -/
theorem leak_without_copy :
    (runCalls { Expected.C16.facts with nestedCopies := false }
      [{ ty := 1, vals := [1], handlers := [], paths := [["sub", "in"]] }]
      [⟨exG, [0]⟩, ⟨exG, [0]⟩]).1.map (fun r => match r with | .ok _ => true | .error _ => false)
      = [true, false] := by decide

/-- With `o.paths = append(o.paths, path...)` on the value receiver (no copy), two Options
    derived from one base whose `paths` has spare capacity share a cell: deriving the second
    rewrites the first (base = a,b,c with cap 4; `o1 = base+d`, `o2 = base+e` ⇒ o1 = a,b,c,e). -/
theorem designate_in_place_aliases :
    builtPaths false goGrow [.base, .designate 0 [["a"]], .designate 1 [["b"]],
        .designate 2 [["c"]], .designate 3 [["d"]], .designate 3 [["e"]]]
      = [[], [["a"]], [["a"], ["b"]], [["a"], ["b"], ["c"]], [["a"], ["b"], ["c"], ["e"]],
         [["a"], ["b"], ["c"], ["e"]]] := by decide

/-- Without the type test an option reaches nodes of another type. -/
theorem wrong_type_reaches_without_test :
    run { Expected.C16.facts with typeCmpIdentity := false } (.cons (.comp "b" 2) .nil)
      [{ ty := 1, vals := [1], handlers := [], paths := [] }]
      = .ok [⟨[], true, [], []⟩, ⟨["b"], false, [1], []⟩] := by decide

/-- a (`opts ...any`) ⟶ m (chat model: option type 5) ⟶ sub[ i (`opts ...tyIface`) ⟶ t (option type 9) ] -/
def exIface : Nodes :=
  .cons (.comp "a" tyAny) <| .cons (.comp "m" 5) <|
  .cons (.graph "sub" (.cons (.comp "i" tyIface) <| .cons (.comp "t" tyImpl) .nil)) .nil

/-- identity of types: the interface-typed lambdas are called without options, whatever is
    sent; designating one of them is an error -/
example : run Expected.C16.facts exIface
      [{ ty := 5, vals := [1, 2], handlers := [], paths := [] },
       { ty := tyImpl, vals := [3], handlers := [], paths := [] }]
    = .ok [⟨[], true, [], []⟩, ⟨["a"], false, [], []⟩, ⟨["m"], false, [1, 2], []⟩,
           ⟨["sub"], true, [], []⟩, ⟨["sub", "i"], false, [], []⟩, ⟨["sub", "t"], false, [3], []⟩] ∧
    run Expected.C16.facts exIface [{ ty := 5, vals := [1], handlers := [], paths := [["a"]] }]
      = .error ([], .wrongType) ∧
    run Expected.C16.facts exIface [{ ty := tyImpl, vals := [1], handlers := [], paths := [["sub", "i"]] }]
      = .error (["sub"], .wrongType) := by decide

/-- With the test relaxed to "identical, or the node's option type is an interface the value
    implements", a chat-model option also reaches the `any`-typed lambda, an option of the
    implementing type also reaches the interface-typed lambda in the nested graph, and the
    wrong-type designation is accepted: `interface_typed_node_gets_nothing` and
    `designating_interface_typed_node_is_error` are false for that value of the fact. -/
theorem options_leak_into_interface_typed_nodes_when_test_relaxed :
    let F := { Expected.C16.facts with typeCmpImplements := true }
    run F exIface
      [{ ty := 5, vals := [1, 2], handlers := [], paths := [] },
       { ty := tyImpl, vals := [3], handlers := [], paths := [] }]
    = .ok [⟨[], true, [], []⟩, ⟨["a"], false, [1, 2, 3], []⟩, ⟨["m"], false, [1, 2], []⟩,
           ⟨["sub"], true, [], []⟩, ⟨["sub", "i"], false, [3], []⟩, ⟨["sub", "t"], false, [3], []⟩] ∧
    run F exIface [{ ty := 5, vals := [1], handlers := [], paths := [["a"]] }]
      = .ok [⟨[], true, [], []⟩, ⟨["a"], false, [1], []⟩, ⟨["m"], false, [], []⟩,
             ⟨["sub"], true, [], []⟩, ⟨["sub", "i"], false, [], []⟩, ⟨["sub", "t"], false, [], []⟩] := by
  decide

/-- a ⟶ k (input key "in") ⟶ sub (input key "in")[ a ⟶ in[ a ] ] ⟶ o (output key "out") -/
def exKeyed : WNodes :=
  .cons (.comp "a" 1 Wrap.plain) <| .cons (.comp "k" 1 ⟨some "in", none⟩) <|
  .cons (.graph "sub" (.cons (.comp "a" 1 Wrap.plain) <|
      .cons (.graph "in" (.cons (.comp "a" 1 Wrap.plain) .nil) Wrap.plain) .nil) ⟨some "in", none⟩) <|
  .cons (.comp "o" 1 ⟨none, some "out"⟩) .nil

def exKeyedOpts : List Opt :=
  [ { ty := 1, vals := [10], handlers := [], paths := [] },
    { ty := 1, vals := [20], handlers := [], paths := [["k"], ["sub", "in", "a"]] },
    { ty := 0, vals := [], handlers := [7], paths := [["sub", "in"]] } ]

example : exKeyed.erase.wf = true := by decide
example : ∀ par ∈ [Paradigm.invoke, .stream, .collect, .transform],
    runW Expected.C16.facts Expected.C16.keyFacts par exKeyed exKeyedOpts = .ok
      [ ⟨[], true, [], []⟩, ⟨["a"], false, [10], []⟩, ⟨["k"], false, [10, 20], []⟩,
        ⟨["sub"], true, [], []⟩, ⟨["sub", "a"], false, [10], []⟩, ⟨["sub", "in"], true, [], [7]⟩,
        ⟨["sub", "in", "a"], false, [10, 20], [7]⟩, ⟨["o"], false, [10], []⟩ ] := by decide
example : runW Expected.C16.facts Expected.C16.keyFacts .stream exKeyed
      [{ ty := 1, vals := [1], handlers := [], paths := [["sub", "zz"]] }]
    = .error (["sub"], .unknownNode) := by decide

/-- If the transform closure of the input-key wrapper did not pass the option list on (the
    invoke closure does), then on the stream path – `Stream`, `Collect`, `Transform`; `Invoke`
    is as before – an input-keyed lambda is called without its undesignated and designated
    options, no option, no designated callback reaches the nodes of an input-keyed sub-graph,
    and an unknown node designated below it is no longer an error:
    `keys_and_paradigm_irrelevant` is false for that value of the fact. -/
theorem input_key_drops_options_on_stream_path_when_not_forwarded :
    let K := { Expected.C16.keyFacts with inKeyFwdTransform := false }
    (∀ par ∈ [Paradigm.stream, .collect, .transform],
      runW Expected.C16.facts K par exKeyed exKeyedOpts = .ok
        [ ⟨[], true, [], []⟩, ⟨["a"], false, [10], []⟩, ⟨["k"], false, [], []⟩,
          ⟨["sub"], true, [], []⟩, ⟨["sub", "a"], false, [], []⟩, ⟨["sub", "in"], true, [], []⟩,
          ⟨["sub", "in", "a"], false, [], []⟩, ⟨["o"], false, [10], []⟩ ] ∧
      (runW Expected.C16.facts K par exKeyed
        [{ ty := 1, vals := [1], handlers := [], paths := [["sub", "zz"]] }]).isOk = true) ∧
    runW Expected.C16.facts K .invoke exKeyed exKeyedOpts
      = run Expected.C16.facts exKeyed.erase exKeyedOpts := by
  decide

/-- what the component entries of a run received -/
def valsAt : Except RunErr (List Entry) → List (Path × List Nat)
  | .ok es => (es.filter (fun e => !e.isGraph)).map (fun e => (e.path, e.vals))
  | .error _ => []

/-- the caller's arrays (cells `[0, cap)`) after one `Invoke` of `g` with the whole store -/
def afterOneCall (V : SliceFacts) (g : WNodes) (ops : List StoreOp) :
    List (Path × List Nat) × List (List Nat) :=
  let b := buildStore ops (VHeap.empty, [])
  let r := runSW Expected.C16.facts Expected.C16.keyFacts Expected.C16.resumeFacts V goGrowAny .invoke .full g b.2 b.1
  (valsAt r.2, b.2.map (fun o => r.1.cells o.vh))

/-- a ⟶ b, two lambdas of option type 1 -/
def exTwo : WNodes := .cons (.comp "a" 1 Wrap.plain) <| .cons (.comp "b" 1 Wrap.plain) .nil
/-- sub[ a ] ⟶ t -/
def exNested : WNodes :=
  .cons (.graph "sub" (.cons (.comp "a" 1 Wrap.plain) .nil) Wrap.plain) <| .cons (.comp "t" 1 Wrap.plain) .nil

/-- an undesignated Option over a value list with one spare cell, then one Option per node -/
def exCommon : List StoreOp :=
  [.fresh 1 [1] 1 [] [], .fresh 1 [2] 0 [] [["a"]], .fresh 1 [3] 0 [] [["b"]]]
/-- one base (two spare cells) designated to `a` and to `b` (two derived Options sharing its
    array; the base itself is not passed), then one more Option per node -/
def exSiblings : List StoreOp :=
  [.fresh 1 [1] 2 [] [["zz"]], .derived 0 [["a"]], .derived 0 [["b"]],
   .fresh 1 [2] 0 [] [["a"]], .fresh 1 [3] 0 [] [["b"]]]

example : storeOpsWf exCommon 0 = true ∧ storeOpsWf exSiblings 0 = true := by decide
example : specStore exCommon = [⟨1, [1], [], []⟩, ⟨1, [2], [], [["a"]]⟩, ⟨1, [3], [], [["b"]]⟩] := by decide
example : afterOneCall Expected.C16.sliceFacts exTwo exCommon
    = ([(["a"], [1, 2]), (["b"], [1, 3])], [[1, 0], [2], [3]]) := by decide
example : afterOneCall Expected.C16.sliceFacts exNested
      [.fresh 1 [1] 1 [] [], .fresh 1 [2] 0 [] [["sub", "a"]], .fresh 1 [3] 0 [] [["t"]]]
    = ([(["sub", "a"], [1, 2]), (["t"], [1, 3])], [[1, 0], [2], [3]]) := by decide

/-- If a node's first list were the Option's own slice (`optMap[k] = opt.options`, `append` only
    from the second Option on), lists of different nodes would share the caller's array and
    write each other's cells: an Option designated to `b` is delivered to `a` instead of the one
    designated to `a` (shared undesignated Option; two Options derived from one base), a node
    later in the chain receives what was designated into a nested graph, and the call writes
    into the spare cells of the caller's array: `capacity_and_sharing_irrelevant`,
    `caller_arrays_never_written` and `sliced_option_reaches_iff` are false for that value of
    the fact.  Without spare capacity nothing of it shows. -/
theorem first_list_aliasing_misdelivers :
    let V : SliceFacts := { valsGrowFromMapSlot := false }
    afterOneCall V exTwo exCommon = ([(["a"], [1, 3]), (["b"], [1, 3])], [[1, 3], [2], [3]]) ∧
    (let st := (buildStore exSiblings (VHeap.empty, []))
     valsAt (runSW Expected.C16.facts Expected.C16.keyFacts Expected.C16.resumeFacts V goGrowAny .invoke .full exTwo (pickS st.2 [1, 2, 3, 4]) st.1).2)
      = [(["a"], [1, 3]), (["b"], [1, 3])] ∧
    afterOneCall V exNested
        [.fresh 1 [1] 1 [] [], .fresh 1 [2] 0 [] [["sub", "a"]], .fresh 1 [3] 0 [] [["t"]]]
      = ([(["sub", "a"], [1, 2]), (["t"], [1, 2])], [[1, 2], [2], [3]]) ∧
    afterOneCall V exTwo [.fresh 1 [1] 0 [] [], .fresh 1 [2] 0 [] [["a"]], .fresh 1 [3] 0 [] [["b"]]]
      = ([(["a"], [1, 2]), (["b"], [1, 3])], [[1], [2], [3]]) := by
  decide

/-- a ⟶ sub[ b ⟶ in[ w ⟶ y ] ⟶ c ] ⟶ d; `sub/in/w` is the node that interrupts -/
def exResume : WNodes :=
  .cons (.comp "a" 1 Wrap.plain) <|
  .cons (.graph "sub" (.cons (.comp "b" 1 Wrap.plain) <|
      .cons (.graph "in" (.cons (.comp "w" 1 Wrap.plain) <| .cons (.comp "y" 1 Wrap.plain) .nil) Wrap.plain) <|
      .cons (.comp "c" 1 Wrap.plain) .nil) Wrap.plain) <|
  .cons (.comp "d" 1 Wrap.plain) .nil

/-- the options of the resuming call -/
def exResumeOpts : List Opt :=
  [ { ty := 1, vals := [7], handlers := [], paths := [["sub", "in", "w"]] },
    { ty := 1, vals := [8], handlers := [], paths := [] },
    { ty := 0, vals := [], handlers := [3], paths := [["sub"]] },
    { ty := 0, vals := [], handlers := [4], paths := [["sub", "in"]] },
    { ty := 0, vals := [], handlers := [5], paths := [["a"]] },
    { ty := 0, vals := [], handlers := [6], paths := [] } ]

example : exResume.erase.wf = true := by decide
/-- the interrupted call (its own options: one undesignated value, one callback on `sub`) runs
    `a`, `sub`, `sub/b`, `sub/in`, `sub/in/w`; the resuming call – other options – runs `sub`,
    `sub/in`, `sub/in/w`, `sub/in/y`, `sub/c`, `d`, each with what a fresh call would give it; an
    unknown node designated inside `sub` is an error in the resuming call, one designated to `a`
    (which does not execute) only where the fresh call checks it too: at the top -/
example :
    runWP Expected.C16.facts Expected.C16.keyFacts Expected.C16.resumeFacts .invoke
        (.stopAt ["sub", "in", "w"]) exResume
        [⟨1, [1], [], []⟩, ⟨0, [], [2], [["sub"]]⟩]
      = .ok [⟨[], true, [], []⟩, ⟨["a"], false, [1], []⟩, ⟨["sub"], true, [], [2]⟩,
             ⟨["sub", "b"], false, [1], [2]⟩, ⟨["sub", "in"], true, [], [2]⟩,
             ⟨["sub", "in", "w"], false, [1], [2]⟩] ∧
    runWP Expected.C16.facts Expected.C16.keyFacts Expected.C16.resumeFacts .stream
        (.resumeAt ["sub", "in", "w"]) exResume exResumeOpts
      = .ok [⟨[], true, [], [6]⟩, ⟨["sub"], true, [], [6, 3]⟩, ⟨["sub", "in"], true, [], [6, 3, 4]⟩,
             ⟨["sub", "in", "w"], false, [7, 8], [6, 3, 4]⟩, ⟨["sub", "in", "y"], false, [8], [6, 3, 4]⟩,
             ⟨["sub", "c"], false, [8], [6, 3]⟩, ⟨["d"], false, [8], [6]⟩] ∧
    runWP Expected.C16.facts Expected.C16.keyFacts Expected.C16.resumeFacts .invoke
        (.resumeAt ["sub", "in", "w"]) exResume [⟨1, [1], [], [["sub", "zz"]]⟩]
      = .error (["sub"], .unknownNode) := by decide

/-- a sequence: a rejected interrupted call saves nothing, so the call that would resume runs
    from START; an accepted one is resumed -/
example :
    (callsSpec Expected.C16.facts Expected.C16.keyFacts Expected.C16.resumeFacts
        [⟨1, [1], [], [["zz"]]⟩, ⟨1, [2], [], []⟩] none
        [⟨exResume, [0], .invoke, .interruptAt ["sub", "in", "w"]⟩, ⟨exResume, [1], .invoke, .resume⟩,
         ⟨exResume, [1], .invoke, .interruptAt ["sub", "b"]⟩, ⟨exResume, [1], .collect, .resume⟩]).map valsAt
      = [[], [(["a"], [2]), (["sub", "b"], [2]), (["sub", "in", "w"], [2]), (["sub", "in", "y"], [2]),
              (["sub", "c"], [2]), (["d"], [2])],
         [(["a"], [2]), (["sub", "b"], [2])],
         [(["sub", "b"], [2]), (["sub", "in", "w"], [2]), (["sub", "in", "y"], [2]), (["sub", "c"], [2]),
          (["d"], [2])]] := by decide

/-- If the node callbacks were set up where tasks restored with `skipPreHandler` do not pass, then
    in the resuming call a handler designated to the restored nested-graph node (`["sub"]`, or
    one level down `["sub","in"]`) would be active neither for that graph nor for the nodes inside
    it, while designations to nodes that are new tasks of this call (`sub/in/w` – rerun –, and
    everything after the interrupt point) and undesignated handlers still work:
    `resumed_callbacks_reach_iff` is false for that value of the fact.  The interrupted call and
    fresh calls are unaffected. -/
theorem restored_graph_loses_designated_callbacks_when_init_is_skipped :
    let R : ResumeFacts := { restoredTaskGetsNodeCallbacks := false }
    runWP Expected.C16.facts Expected.C16.keyFacts R .invoke (.resumeAt ["sub", "in", "w"]) exResume
        (exResumeOpts ++ [{ ty := 0, vals := [], handlers := [9], paths := [["sub", "in", "w"], ["d"]] }])
      = .ok [⟨[], true, [], [6]⟩, ⟨["sub"], true, [], [6]⟩, ⟨["sub", "in"], true, [], [6]⟩,
             ⟨["sub", "in", "w"], false, [7, 8], [6, 9]⟩, ⟨["sub", "in", "y"], false, [8], [6]⟩,
             ⟨["sub", "c"], false, [8], [6]⟩, ⟨["d"], false, [8], [6, 9]⟩] ∧
    (∀ part ∈ [Part.full, .stopAt ["sub", "in", "w"]],
      runWP Expected.C16.facts Expected.C16.keyFacts R .invoke part exResume exResumeOpts
        = runWP Expected.C16.facts Expected.C16.keyFacts Expected.C16.resumeFacts .invoke part exResume exResumeOpts) := by
  decide

/-- Stripping two keys instead of one sends the option to the wrong level. -/
theorem strip_two_breaks :
    run { Expected.C16.facts with strip := 2 } exG
      [{ ty := 1, vals := [1], handlers := [], paths := [["sub", "in", "a"]] }]
      = .ok [ ⟨[], true, [], []⟩, ⟨["a"], false, [], []⟩, ⟨["b"], false, [], []⟩,
              ⟨["sub"], true, [], []⟩, ⟨["sub", "a"], false, [1], []⟩, ⟨["sub", "in"], true, [], []⟩,
              ⟨["sub", "in", "a"], false, [], []⟩, ⟨["sub", "in", "m"], false, [], []⟩ ] := by decide

/-! ### The translated `extractOption` (compose/utils.go → Gen/TransC16.lean; gotrans phase 6)

  `extractOption`, `Option.deepCopy` and `NewNodePath` are re-translated from /repo on every run of this
  property; the theorems below say that the translated function computes the model's `extract` (the function
  every routing theorem of this file is about) for the regenerated fact values (`facts_match`), and never
  returns `.panic` / `.unspecified`.

  Design.  `Option` is a struct used by value (`GoOption`); `reflect.Type` is the opaque nil-able type `GoType`
  with `==` as type identity and `reflect.TypeOf` the external `cext.typeOf`; an element of a `[]any` is a
  value of the abstract type `V`, an `Option` appended to a `[]any` is wrapped by the external
  `cext.anyOfOption`; `opt.deepCopy()` is translated and proved to return an equal Option (`deepCopy_spec`).
  Relations: `NodesRel` — the Go map `nodes` *in its stored order* is the model's node list (this is where
  map order shows: the undesignated loop ranges over `nodes`, and the model's theorems hold for every node
  list); `OptRel` — values, handlers, paths, and the Option's type is `TypeOf` of its first value;
  `MapRel` — for every key, `optMap[key]` is, item by item, the model's sub-sequence of the log under that key
  (`ItemRel`: a component option value, or a wrapped Option related by `OptRel`).  Errors by class: the four
  `fmt.Errorf` format strings are `errFmt` of the model's `Err`. -/
section TranslatedExtract
open EinoV.GoSem EinoV.TransC16 EinoV.Gen.TransC16
variable {V : Type} [Inhabited V]

theorem translated_source_is_current : FactsC16.extractOptionTranslated = true := by decide

/-- `opt.deepCopy()`: a fresh Option with equal contents (never a panic) -/
theorem translated_deepCopy_refines (ext : Ext V) (cext : C16Ext V) (o : GoOption V) :
    Option_deepCopy ext cext o = .ret o :=
  deepCopy_spec ext cext o

/-- **`extractOption` refines `extract`**, for the fact values regenerated from the source -/
theorem translated_extractOption_refines (ext : Ext V) (cext : C16Ext V) (vOf hOf : Nat → V)
    (gn : GoMap (chanCall V)) (ns : Nodes) (hn : NodesRel gn ns)
    (gopts : List (GoOption V)) (opts : List Opt) (hrel : ListRel (OptRel cext vOf hOf) gopts opts) :
    match extract gen ns opts with
    | .ok log => ∃ m, extractOption ext cext gn gopts = .ret (m, none) ∧ MapRel cext vOf hOf m log
    | .error e => extractOption ext cext gn gopts = .ret ([], some (GoErr.mk (errFmt e))) := by
  rw [facts_match]
  exact extractOption_refines ext cext vOf hOf gn ns hn gopts opts hrel

/-- the translated function never leaves the translated semantics (no index out of range, no nil map) -/
theorem translated_extractOption_total (ext : Ext V) (cext : C16Ext V) (vOf hOf : Nat → V)
    (gn : GoMap (chanCall V)) (ns : Nodes) (hn : NodesRel gn ns)
    (gopts : List (GoOption V)) (opts : List Opt) (hrel : ListRel (OptRel cext vOf hOf) gopts opts) :
    ∃ res, extractOption ext cext gn gopts = .ret res :=
  extractOption_total ext cext vOf hOf gn ns hn gopts opts hrel

/-! non-vacuity: values are numbers, the type of a value is its last digit, a wrapped Option is 1000 + the
    number of its values + 100 × the number of its paths -/

def exExt : Ext Nat := { zeroValue := 0, emptyStream := 0, mergeValues := fun _ => (0, none) }
def exCext : C16Ext Nat :=
  { typeOf := fun v => some (v % 10), anyOfOption := fun g => 1000 + g.options.length + 100 * g.paths.length }
def exNodes : GoMap (chanCall Nat) :=
  [("a", { action := { optionType := some 3, isPassthrough := false } }),
   ("b", { action := { optionType := some 4, isPassthrough := false } }),
   ("sub", { action := { optionType := none, isPassthrough := false } }),
   ("p", { action := { optionType := none, isPassthrough := true } })]

example : NodesRel exNodes (.cons (.comp "a" 3) (.cons (.comp "b" 4) (.cons (.graph "sub" .nil) (.cons (.pass "p") .nil)))) := rfl

/-- an undesignated option of type 3 reaches `a` (by type) and, whole, the sub-graph and the passthrough;
    an option designated to `sub/x` is forwarded to `sub` with the stripped path -/
example : (match extractOption exExt exCext exNodes
      [{ options := [13, 23], handler := [], paths := [], maxRunSteps := 0 },
       { options := [14], handler := [], paths := [{ path := ["sub", "x"] }], maxRunSteps := 0 }] with
    | .ret r => r
    | _ => ([], none)) =
    ([("a", [13, 23]), ("sub", [1002, 1101]), ("p", [1002])], none) := by decide

/-- the four error classes -/
example : (match extractOption exExt exCext exNodes [{ options := [14], handler := [], paths := [{ path := [] }], maxRunSteps := 0 }] with
    | .ret r => r.2 | _ => none) = some (GoErr.mk (errFmt .emptyPath)) := by decide
example : (match extractOption exExt exCext exNodes [{ options := [14], handler := [], paths := [{ path := ["zz"] }], maxRunSteps := 0 }] with
    | .ret r => r.2 | _ => none) = some (GoErr.mk (errFmt .unknownNode)) := by decide
example : (match extractOption exExt exCext exNodes [{ options := [14], handler := [], paths := [{ path := ["a"] }], maxRunSteps := 0 }] with
    | .ret r => r.2 | _ => none) = some (GoErr.mk (errFmt .wrongType)) := by decide
example : (match extractOption exExt exCext exNodes [{ options := [14], handler := [], paths := [{ path := ["p", "x"] }], maxRunSteps := 0 }] with
    | .ret r => r.2 | _ => none) = some (GoErr.mk (errFmt .subPathOfComponent)) := by decide

end TranslatedExtract

end EinoV.C16
