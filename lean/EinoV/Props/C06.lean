/-
  C06 — Interrupt points are honoured and reported exactly.
  Property theorems.  Model: EinoV/Model/C05.lean (the run loop with interrupts, built on
  Engine.lean).  Source facts: EinoV/Gen/FactsC06.lean (regenerated from /repo on every run).

  Quantification: every runner (any topology, either trigger mode, cycles), every node body /
  handler (arbitrary functions, including nested graphs and rerun requests), every interrupt-before /
  interrupt-after set, every input, every completion order, every number of resume calls.
-/
import EinoV.Model.C05
import EinoV.Model.GraphBuild
import EinoV.Proofs.C05
import EinoV.Proofs.C05Resume
import EinoV.Model.C05Nested
import EinoV.Proofs.C06Nested
import EinoV.Proofs.C06Fault
import EinoV.Proofs.C05NestedExamples
import EinoV.Gen.FactsC06
import EinoV.Expected.C06

namespace EinoV.C06
open EinoV.Engine EinoV.Interrupt EinoV.Gen

/-- Source fact tie: the facts extracted from compose/graph_run.go and compose/interrupt.go are the
    ones the model is instantiated with. -/
theorem facts_match :
    FactsC06.initialTasksChecked = Expected.C06.initialTasksChecked ∧
    FactsC06.loopTasksChecked = Expected.C06.loopTasksChecked ∧
    FactsC06.createTasksForwardsStaleCP = Expected.C06.createTasksForwardsStaleCP ∧
    FactsC06.storeOnlyTopLevelWithID = Expected.C06.storeOnlyTopLevelWithID ∧
    FactsC06.checkpointWriteErrorReturned = Expected.C06.checkpointWriteErrorReturned ∧
    FactsC06.extractUsesErrorsAs = true := by decide

/-- the run as the source has it: both parameters of the model are extracted facts -/
def srcCfg : Cfg :=
  { initialTasksChecked := FactsC06.initialTasksChecked, fwdStale := FactsC06.createTasksForwardsStaleCP }

theorem srcCfg_checked : srcCfg.initialTasksChecked = true := by
  show FactsC06.initialTasksChecked = true
  decide

theorem srcCfg_fresh : srcCfg.fwdStale = false := by
  show FactsC06.createTasksForwardsStaleCP = false
  decide

variable {V S X : Type}

/-- **before_honoured.** Over the whole history of a run driven with the same checkpoint id until it
    completes (any number of calls): in every call, a node configured as interrupt-before is submitted
    only in the very first superstep of a call that resumes from a checkpoint, and only if the
    interrupt returned by the previous call reported that node (in BeforeNodes, or — for a node that
    had already been released once — in RerunNodes / as an interrupted nested graph).  In particular
    the first call (fresh input) never starts such a node: this needs the START-successor case, i.e.
    the source fact `initialTasksChecked`.  (`HistOK` / `GoodCall` are defined in Proofs/C05.lean.) -/
theorem before_honoured (ops : ValOps V) (r : IRunner V S X) (sched : ISched V S X)
    (calls : Nat) (x : V) :
    HistOK r.intBefore none (resumeUntilDone ops srcCfg r sched calls x) := by
  apply resumeLoop_histOK ops srcCfg r sched srcCfg_checked
  intro cp h; cases h

/-- the same, unfolded for one call: which supersteps may contain an interrupt-before node -/
theorem before_honoured_call (ops : ValOps V) (r : IRunner V S X) (sched : ISched V S X) (isSub hasID : Bool) :
    -- a call on a fresh input submits no interrupt-before node at all
    (∀ x, StepsAvoid r.intBefore (topSteps (runI ops srcCfg r sched isSub hasID (.inl x)).evs)) ∧
    -- a resumed call submits them only in its first superstep, and only those its checkpoint restores
    (∀ cp, StepsAvoid r.intBefore (topSteps (runI ops srcCfg r sched isSub hasID (.inr cp)).evs).tail) ∧
    -- and what a checkpoint restores was reported by the interrupt that produced it
    (∀ inp cp info, (runI ops srcCfg r sched isSub hasID inp).res = .interrupted cp info →
        CPListed r.intBefore cp info) :=
  ⟨fun x => runI_fresh_avoid ops _ r sched isSub hasID srcCfg_checked x,
   fun cp => runI_later_steps_avoid ops _ r sched isSub hasID (.inr cp),
   fun inp cp info h => runI_intr_listed ops _ r sched isSub hasID inp cp info h⟩

/-- **before_honoured_nested.** The statement above is about one graph level and the history of
    calls made to it.  For a graph nested in a node, those calls are made by the parent's supersteps:
    the nested run is *resumed* (handed its checkpoint) only when the parent restores that node from
    its own checkpoint, i.e. in the first superstep of a resumed parent call; every later execution of
    the node in the same parent call, and every execution in a parent call on a fresh input, starts
    the nested graph from its input — so that the nested level's history is again of the shape
    `before_honoured` speaks about (fresh call, or resume of the immediately preceding interrupt).
    This is where the stale-checkpoint fact of C05 enters (`createTasksForwardsStaleCP = false`). -/
theorem before_honoured_nested (ops : ValOps V) (r : IRunner V S X) (sched : ISched V S X) (isSub hasID : Bool) :
    (∀ x, StepsFresh (topSteps (runI ops srcCfg r sched isSub hasID (.inl x)).evs)) ∧
    (∀ cp, StepsFresh (topSteps (runI ops srcCfg r sched isSub hasID (.inr cp)).evs).tail) :=
  runI_steps_fresh ops srcCfg r sched isSub hasID srcCfg_fresh

/-- **before_honoured_partial** (what holds whichever way the source treats the tasks computed from
    START — kept next to the full statement): in every call only the first superstep can contain an
    interrupt-before node. On the code before `fixes/C06-initial-tasks.diff` this is all that holds:
    `before_ignored_for_start_successor` below is the negation witness for the first superstep. -/
theorem before_honoured_partial (ops : ValOps V) (cfg : Cfg) (r : IRunner V S X) (sched : ISched V S X)
    (isSub hasID : Bool) (inp : V ⊕ Checkpoint V S X) :
    StepsAvoid r.intBefore (topSteps (runI ops cfg r sched isSub hasID inp).evs).tail :=
  runI_later_steps_avoid ops cfg r sched isSub hasID inp

/-- **after_honoured.** In any call, once a node configured as interrupt-after has completed, the
    call submits no further superstep: it returns (with an interrupt, the final result, or an error).
    For every completion order that loses no task. -/
theorem after_honoured (ops : ValOps V) (cfg : Cfg) (r : IRunner V S X) (sched : ISched V S X) (isSub hasID : Bool)
    (hs : SchedKeeps sched) (inp : V ⊕ Checkpoint V S X)
    (l1 l2 : List (Ev V S X)) (k : Key)
    (hsplit : (runI ops cfg r sched isSub hasID inp).evs = l1 ++ Ev.finish k :: l2) (hk : k ∈ r.intAfter) :
    topSteps l2 = [] := by
  have := runI_noStepAfter ops cfg r sched isSub hasID hs inp
  rw [hsplit] at this
  exact noStepAfter_split _ l1 l2 k this hk

/-- … and if the call goes on to an interrupt, that interrupt lists the node in AfterNodes: shown on
    the step level — the loop only continues when no completed task is an interrupt-after node. -/
theorem after_stops_loop (ops : ValOps V) (r : IRunner V S X) (sched : ISched V S X) (hs : SchedKeeps sched)
    (ls ls' : LoopSt V S X) (h : (stepI ops r sched ls).2 = .next ls') :
    ∀ k, Ev.finish k ∈ (stepI ops r sched ls).1 → k ∉ r.intAfter :=
  stepI_next_no_after ops r sched hs ls ls' h

/-- … and when the superstep ends in an interrupt (of either kind), every interrupt-after node that
    completed in it is listed in the AfterNodes of that interrupt. -/
theorem after_reported (ops : ValOps V) (r : IRunner V S X) (sched : ISched V S X) (hs : SchedKeeps sched)
    (ls : LoopSt V S X) (cp : Checkpoint V S X) (info : Info S X) (h : (stepI ops r sched ls).2 = .intr cp info) :
    ∀ k, Ev.finish k ∈ (stepI ops r sched ls).1 → k ∈ r.intAfter → k ∈ info.after :=
  stepI_intr_after ops r sched hs ls cp info h

/-- **interrupt_reported.** A call returns "interrupted" exactly when its trace carries an interrupt
    event, and the info of that event is the info returned (before/after/rerun lists, nested infos,
    state) — the error from which `ExtractInterruptInfo` extracts it. -/
theorem interrupt_reported (ops : ValOps V) (cfg : Cfg) (r : IRunner V S X) (sched : ISched V S X) (isSub hasID : Bool)
    (inp : V ⊕ Checkpoint V S X) (info : Info S X) :
    Ev.interrupt info ∈ (runI ops cfg r sched isSub hasID inp).evs ↔
      ∃ cp, (runI ops cfg r sched isSub hasID inp).res = .interrupted cp info :=
  runI_interrupt_mem ops cfg r sched isSub hasID inp info

/-- **store_iff.** The checkpoint store is written under the caller's id exactly when the run is a
    top-level run, an id was given, and the call returns an interrupt. -/
theorem store_iff (ops : ValOps V) (cfg : Cfg) (r : IRunner V S X) (sched : ISched V S X) (isSub hasID : Bool)
    (inp : V ⊕ Checkpoint V S X) :
    Ev.storeSet ∈ (runI ops cfg r sched isSub hasID inp).evs ↔
      (isSub = false ∧ hasID = true ∧ ∃ cp info, (runI ops cfg r sched isSub hasID inp).res = .interrupted cp info) :=
  runI_store_mem ops cfg r sched isSub hasID inp

/-! ### non-vacuity and the negation witness -/

def natOps : ValOps Nat := { merge := fun l => some l.sum, zero := 0 }

/-- start → a → b → end, interrupt-before {a, b}, interrupt-after {a} -/
def lin : IRunner Nat Unit Unit :=
  { base := compile 10 { nodes := [("a", fun v => .ok v), ("b", fun v => .ok v)],
                         edges := [(START, "a"), ("a", "b"), ("b", END)], branches := [] },
    inodes := [{ key := "a", body := fun v s _ => { res := .done (v + 1) s } },
               { key := "b", body := fun v s _ => { res := .done (v * 2) s } }],
    intBefore := ["a", "b"], intAfter := ["a"], initState := () }

def fixedCfg : Cfg := { initialTasksChecked := true, fwdStale := false }
def unfixedCfg : Cfg := { initialTasksChecked := false, fwdStale := false }

def stepsOf (h : List (Out Nat Unit Unit)) : List (List (List (Key × Bool))) := h.map (fun o => topSteps o.evs)
def stored (h : List (Out Nat Unit Unit)) : List Bool :=
  h.map (fun o => o.evs.any (fun e => match e with | .storeSet => true | _ => false))
def finalVal (h : List (Out Nat Unit Unit)) : Option Nat :=
  match Out.finalOf h with | some (.done v) => some v | _ => none

/-- with the START-successor case handled: three calls — interrupt before `a`; run `a`, interrupt
    (after `a`, before `b`); run `b` and finish.  The hypotheses of the theorems are satisfiable and
    the statements are not vacuous: interrupts do happen, the store is written, the run completes. -/
example : stepsOf (resumeUntilDone natOps fixedCfg lin ISched.id 10 1) = [[], [[("a", false)]], [[("b", false)]]] := by decide
example : stored (resumeUntilDone natOps fixedCfg lin ISched.id 10 1) = [true, true, false] := by decide
example : finalVal (resumeUntilDone natOps fixedCfg lin ISched.id 10 1) = some 4 := by decide
example : SchedKeeps (ISched.id (V := Nat) (S := Unit) (X := Unit)) := fun _ _ h => h

/-- **Negation witness for the code before the repair** (`initialTasksChecked = false`): the very first
    call starts `a` although `a` is an interrupt-before node and nothing was reported or resumed. -/
theorem before_ignored_for_start_successor :
    ¬ HistOK lin.intBefore none (resumeUntilDone natOps unfixedCfg lin ISched.id 10 1) := by
  intro h
  have hfirst : topSteps (runI natOps unfixedCfg lin ISched.id false true (.inl 1)).evs = [[("a", false)]] := by decide
  have hne : ∃ rest, resumeUntilDone natOps unfixedCfg lin ISched.id 10 1 =
      runI natOps unfixedCfg lin ISched.id false true (.inl 1) :: rest := by
    unfold resumeUntilDone resumeLoop
    simp only
    split <;> exact ⟨_, rfl⟩
  obtain ⟨rest, hr⟩ := hne
  rw [hr] at h
  have := h.1 0 [("a", false)] (by rw [hfirst]; rfl) ("a", false) (by simp) (by decide)
  obtain ⟨_, info, hinfo, _⟩ := this
  cases hinfo

/-! ## Reported exactly, at every nesting level

  Model of nesting: EinoV/Model/C05Nested.lean (`subBody`: the body of a node that is a compiled graph;
  `NR d`: graphs nested `d` deep; `NR.toI`: the compiled runner; a `SubCodec` packs the nested run's
  checkpoint and info into the payload the parent stores under `SubGraphs[key]`).  Lemmas:
  Proofs/C06Nested.lean. -/
section Nested
open EinoV.Interrupt

/-- **interrupt_info_sound** (one level, every runner, node body and handler).  Whatever interrupt a
    call returns, every name in its info is justified: BeforeNodes are interrupt-before nodes that are
    pending tasks of the returned checkpoint; AfterNodes are interrupt-after nodes; RerunNodes are
    nodes whose body asked for a rerun; every SubGraphs entry is a payload some execution of that
    node's body reported; the info is never empty; with a rerun / sub-graph interrupt BeforeNodes is
    empty; the checkpoint stores the same SubGraphs.  For every completion order that invents no task. -/
theorem interrupt_info_sound (ops : ValOps V) (cfg : Cfg) (r : IRunner V S X) (sched : ISched V S X) (hs : SchedSub sched)
    (isSub hasID : Bool) (inp : V ⊕ Checkpoint V S X) (cp : Checkpoint V S X) (info : Info S X)
    (h : (runI ops cfg r sched isSub hasID inp).res = .interrupted cp info) :
    (∀ k ∈ info.before, k ∈ r.intBefore ∧ k ∈ cp.inputs.map (·.1)) ∧
    (∀ k ∈ info.after, k ∈ r.intAfter) ∧
    (∀ k ∈ info.rerun, ∃ n v s x s', r.inode? k = some n ∧ (n.body v s x).res = .rerun s') ∧
    (∀ kp ∈ info.subs, ∃ n v s x s', r.inode? kp.1 = some n ∧ (n.body v s x).res = .subInt kp.2 s') ∧
    (info.before ≠ [] ∨ info.after ≠ [] ∨ info.rerun ≠ [] ∨ info.subs ≠ []) ∧
    ((info.subs ≠ [] ∨ info.rerun ≠ []) → info.before = []) ∧
    cp.subs = info.subs :=
  runI_info_sound ops cfg r sched hs isSub hasID inp cp info h

/-- **interrupt_info_complete** (the superstep that ends in the interrupt).  Every node whose body asked
    for a rerun in that superstep is in RerunNodes, every node whose body reported a nested interrupt
    is in SubGraphs with exactly that payload; and in that case the checkpoint restores exactly
    RerunNodes ∪ SubGraphs (zero inputs; SkipPreHandler exactly the SubGraphs keys): no node that
    completed in the superstep is started again by the resume.  (Interrupt-after nodes: `after_reported`.)
    For every completion order that loses no task. -/
theorem interrupt_info_complete (ops : ValOps V) (r : IRunner V S X) (sched : ISched V S X) (hk : SchedKeeps sched)
    (ls : LoopSt V S X) (cp : Checkpoint V S X) (info : Info S X) (h : (stepI ops r sched ls).2 = .intr cp info) :
    (∀ k s, (k, BodyRes.rerun s) ∈ (runBodies r (runPres r ls.tasks ls.st).1 (runPres r ls.tasks ls.st).2).1 →
      k ∈ info.rerun) ∧
    (∀ k p s, (k, BodyRes.subInt p s) ∈ (runBodies r (runPres r ls.tasks ls.st).1 (runPres r ls.tasks ls.st).2).1 →
      (k, p) ∈ info.subs) ∧
    ((info.subs ≠ [] ∨ info.rerun ≠ []) →
      (∀ k, k ∈ cp.inputs.map (·.1) ↔ (k ∈ info.rerun ∨ k ∈ info.subs.map (·.1))) ∧
      (∀ q ∈ cp.inputs, q.2 = ops.zero) ∧ cp.skipPre = info.subs.map (·.1)) :=
  stepI_sr_complete ops r sched hk ls cp info h

/-- **nested_interrupt_reported** (every nesting depth).  For a graph nested `d` deep, whatever interrupt
    a call returns is reported exactly at every level (`NR.Reported`): at each level BeforeNodes /
    AfterNodes are configured interrupt points of that level (BeforeNodes being pending tasks of that
    level's checkpoint), there are no RerunNodes, the info names something, the checkpoint's SubGraphs
    are the info's SubGraphs, and every SubGraphs entry sits under the key of a graph node of that
    level and is the (checkpoint, info) pair the nested run of that node returned — itself reported
    exactly, down to the level where the interrupt is a plain before/after interrupt. -/
theorem nested_interrupt_reported (ops : ValOps V) (cfg : Cfg) (cd : SubCodec V S X)
    (hcd : ∀ cp info, cd.cp (cd.pack cp info) = cp) (hci : ∀ cp info, cd.info (cd.pack cp info) = info)
    (d : Nat) (nr : NR V S X d) (sched : ISched V S X) (hs : SchedSub sched) (hss : NR.SubScheds d nr)
    (isSub hasID : Bool) (inp : V ⊕ Checkpoint V S X) (cp : Checkpoint V S X) (info : Info S X)
    (h : (runI ops cfg (NR.toI ops cfg cd d nr) sched isSub hasID inp).res = .interrupted cp info) :
    NR.Reported cd d nr cp info :=
  NR.reported ops cfg cd hcd hci d nr sched hs hss isSub hasID inp cp info h

/-- **nested_payload_is_child_result.**  In a compiled level, a nested interrupt is reported only by a
    graph node, and the payload stored under its key packs the checkpoint and info the nested run
    returned in that very execution (so `interrupt_reported` / `store_iff` apply to the nested run:
    it returned that info as its error, and — being a sub-graph — wrote no store). -/
theorem nested_payload_is_child_result {C : Type} (ops : ValOps V) (cfg : Cfg) (cd : SubCodec V S X)
    (toC : C → IRunner V S X) (l : NLevel V S X C) (k : Key) (n : INode V S X) (v : V) (s : S) (x : Option X)
    (p : X) (s' : S) (hn : (l.toIWith ops cfg cd toC).inode? k = some n) (hb : (n.body v s x).res = .subInt p s') :
    ∃ c sc, l.child? k = some c ∧ (∃ n', l.node? k = some n' ∧ n'.body = .graph c sc) ∧
      ∃ cpc infoc, (runI ops cfg (toC c) sc true false (subInp cd v x)).res = .interrupted cpc infoc ∧
        p = cd.pack cpc infoc :=
  NLevel.subInt_from_child ops cfg cd toC l k n v s x p s' hn hb

/-! ### non-vacuity: a nested interrupt and what is reported for it -/

/- The runners are those of Proofs/C05NestedExamples.lean: `inner` = start → a → c → end with interrupt-after
   {a}, interrupt-before {c}; `outer` = start → g, start → p; g, p → j → end where `g` is the graph `inner`,
   interrupt-before {j}. -/
open EinoV.NestedEx (Pay payCodec inner outer outer_subScheds)

/-- per call that returns an interrupt: BeforeNodes, AfterNodes, the keys the checkpoint restores, the
    SubGraphs keys, and — concatenated over the SubGraphs entries — the nested BeforeNodes, AfterNodes and
    restored keys -/
def shape (o : Out Nat Nat Pay) : List (List Key) :=
  match o.res with
  | .interrupted cp info =>
    [info.before, info.after, cp.inputs.map (·.1), info.subs.map (·.1),
     info.subs.flatMap (fun kp => (Pay.info kp.2).before), info.subs.flatMap (fun kp => (Pay.info kp.2).after),
     info.subs.flatMap (fun kp => (Pay.cp kp.2).inputs.map (·.1))]
  | _ => []

/-- the first call interrupts inside `g` (after `a`, before `c`): reported under SubGraphs["g"], the
    parent restores exactly `g`; the second call interrupts before `j` at the outer level; the third
    completes -/
example : (resumeUntilDone natOps fixedCfg (NR.toI natOps fixedCfg payCodec 1 outer) ISched.id 10 1).map shape =
    [[[], [], ["g"], ["g"], ["c"], ["a"], ["c"]], [["j"], [], ["j"], [], [], [], []], []] := by decide
example : SchedSub (ISched.id (V := Nat) (S := Nat) (X := Pay)) := fun _ _ h => h
example : payCodec.cp (payCodec.pack cp info) = cp ∧ payCodec.info (payCodec.pack cp info) = info := ⟨rfl, rfl⟩

/-- all hypotheses of `nested_interrupt_reported` at once: whatever interrupt a call on `outer` returns is
    reported exactly at both levels -/
example (inp : Nat ⊕ Checkpoint Nat Nat Pay) (cp : Checkpoint Nat Nat Pay) (info : Info Nat Pay)
    (h : (runI natOps fixedCfg (NR.toI natOps fixedCfg payCodec 1 outer) ISched.id false true inp).res = .interrupted cp info) :
    NR.Reported payCodec 1 outer cp info :=
  nested_interrupt_reported natOps fixedCfg payCodec (fun _ _ => rfl) (fun _ _ => rfl) 1 outer ISched.id
    (fun _ _ h => h) outer_subScheds false true inp cp info h

end Nested

/-! ## A checkpoint store that fails (family `fault`)

  Model: EinoV/Model/C06Fault.lean (`Plan`: which `Get` / `Set` calls of the caller's store fail;
  `callF`: one call with the id on a store state; `histF`: the caller repeats the call — resume after
  an interrupt, retry after an error of the store).  Whether the error of `r.checkPointer.set`
  reaches the handler's return is the source fact `checkpointWriteErrorReturned`. -/
section Fault
open EinoV.Interrupt.Fault

/-- the run loop of a top-level run with an id satisfies what the fault lemmas need -/
theorem runI_runOK (ops : ValOps V) (cfg : Cfg) (r : IRunner V S X) (sched : ISched V S X) :
    RunOK (runI ops cfg r sched false true) :=
  { intr := fun inp info => runI_interrupt_mem ops cfg r sched false true inp info,
    store := fun inp => by
      rw [runI_store_mem ops cfg r sched false true inp]
      exact ⟨fun h => h.2.2, fun h => ⟨rfl, rfl, h⟩⟩ }

/-- **store_iff_under_faults** (clause 4 for every behaviour of the store).  One call with a checkpoint
    id, on any store state, for every fault plan (any `Get` / `Set` call may fail), every runner, input,
    completion order: the interrupt is returned (the error carries the info / the result is
    `interrupted`) exactly when the checkpoint was written, and then the store holds under the id
    exactly the checkpoint of that interrupt; every other outcome — result, error of the run, failed
    read, failed write — leaves what was stored untouched; and the call fails with the write error
    exactly when the run reached an interrupt and that `Set` failed.  Needs the source fact. -/
theorem store_iff_under_faults (ops : ValOps V) (r : IRunner V S X) (sched : ISched V S X) (plan : Plan) (x : V)
    (st : Store V S X) :
    let p := callF FactsC06.checkpointWriteErrorReturned plan (runI ops srcCfg r sched false true) x st
    ((∃ info, Ev.interrupt info ∈ p.1.evs) ↔ p.1.interrupted) ∧
    (Ev.storeSet ∈ p.1.evs ↔ p.1.interrupted) ∧
    (p.1.interrupted ↔ ∃ cp info, p.1.res = .ran (.interrupted cp info) ∧ p.2.content = some cp) ∧
    (¬ p.1.interrupted → p.2.content = st.content) ∧
    (p.1.res = .writeFailed ↔
      (plan.getFails st.gets = false ∧ plan.setFails st.sets = true ∧
        ∃ cp info, (runI ops srcCfg r sched false true (inpOf x st)).res = .interrupted cp info)) := by
  have hf : FactsC06.checkpointWriteErrorReturned = true := by decide
  rw [hf]
  exact callF_exact plan _ (runI_runOK ops srcCfg r sched) x st

/-- **store_tracks_returned_interrupts** (the same over a whole history, all fault positions).  The
    caller repeats the call with the same id (resume after an interrupt, retry after an error of the
    store), any number of calls, any fault plan: every call of the history satisfies
    `store_iff_under_faults` on the store the previous calls left, and what is stored under the id
    after each call is a function of the results the caller saw — the checkpoint of the latest
    interrupt that was returned (nothing before the first): an interrupt is never reported without its
    checkpoint, a checkpoint never replaced without the interrupt being reported. -/
theorem store_tracks_returned_interrupts (ops : ValOps V) (r : IRunner V S X) (sched : ISched V S X) (plan : Plan)
    (x : V) (n : Nat) (st : Store V S X) :
    let h := histF FactsC06.checkpointWriteErrorReturned plan (runI ops srcCfg r sched false true) x n st
    (∀ p ∈ h, ∃ st0, p = callF true plan (runI ops srcCfg r sched false true) x st0 ∧
      (p.1.interrupted ↔ Ev.storeSet ∈ p.1.evs) ∧
      (p.1.interrupted ↔ ∃ cp info, p.1.res = .ran (.interrupted cp info) ∧ p.2.content = some cp)) ∧
    h.map (fun p => p.2.content) = scanCP st.content (h.map (fun p => p.1)) := by
  have hf : FactsC06.checkpointWriteErrorReturned = true := by decide
  rw [hf]
  refine ⟨fun p hp => ?_, histF_content plan _ x n st⟩
  obtain ⟨st0, rfl⟩ := histF_mem true plan _ x n st p hp
  have := callF_exact plan _ (runI_runOK ops srcCfg r sched) x st0
  exact ⟨st0, rfl, this.2.1.symm, this.2.2.1⟩

/-- the `Set` of the first interrupt fails, every other call of the store succeeds -/
def firstSetFails : Plan := { getFails := fun _ => false, setFails := fun k => k == 0 }

def fresShape : FRes Nat Unit Unit → String
  | .ran (.done _) => "done" | .ran (.interrupted ..) => "interrupted" | .ran (.failed _) => "failed"
  | .readFailed => "readFailed" | .writeFailed => "writeFailed"

/-- non-vacuity on `lin` (start → a → b → end, interrupt-before {a, b}, interrupt-after {a}): the first
    call reaches the interrupt before `a`, the write fails: a plain error, nothing stored; the retry
    starts from START again, interrupts and is stored; then the history goes on as without faults -/
example : (histF true firstSetFails (runI natOps fixedCfg lin ISched.id false true) 1 10 {}).map
      (fun p => (fresShape p.1.res, p.2.content.isSome, topSteps p.1.evs)) =
    [("writeFailed", false, []), ("interrupted", true, []), ("interrupted", true, [[("a", false)]]),
     ("done", true, [[("b", false)]])] := by decide

/-- **write_error_dropped_reports_unsaved_interrupt** (negation witness for the fact): were the error
    of `checkPointer.set` not returned, the same call would report an interrupt (extractable info)
    while nothing is stored under the id — and the "resume" would be a fresh run from START. -/
theorem write_error_dropped_reports_unsaved_interrupt :
    let p := callF false firstSetFails (runI natOps fixedCfg lin ISched.id false true) 1 {}
    fresShape p.1.res = "interrupted" ∧ p.2.content.isSome = false ∧ p.1.evs.any Ev.isStoreSet = false ∧
    ((histF false firstSetFails (runI natOps fixedCfg lin ISched.id false true) 1 10 {}).map
      (fun p => (fresShape p.1.res, p.2.content.isSome, topSteps p.1.evs))).take 2 =
    [("interrupted", false, []), ("interrupted", true, [])] := by decide

end Fault

end EinoV.C06
