/-
  C01 — Any-predecessor (Pregel) runs follow lock-step superstep semantics and terminate.
  Property theorems.  Model: EinoV/Model/Engine.lean, GraphBuild.lean.
  Source facts: EinoV/Gen/FactsC01.lean (regenerated from /repo on every run).
-/
import EinoV.Model.Engine
import EinoV.Model.GraphBuild
import EinoV.Proofs.C01
import EinoV.Proofs.C01Refine
import EinoV.Proofs.C01Chain
import EinoV.Proofs.C01ChainKeys
import EinoV.Proofs.C01Share
import EinoV.Spec.Superstep
import EinoV.Gen.FactsC01
import EinoV.Expected.C01
import EinoV.Proofs.TransPregel
import EinoV.Proofs.TransMgrInit
import EinoV.Proofs.TransStep
import EinoV.Proofs.TransTab

namespace EinoV.C01
open EinoV.Engine EinoV.Gen

/-- Source fact tie: the step guard and the default slack are the ones modelled. -/
theorem facts_match :
    FactsC01.stepSlack = Expected.C01.stepSlack ∧
    FactsC01.stepGuardBeforeSubmit = Expected.C01.stepGuardBeforeSubmit ∧
    FactsC01.stepGuardOp = Expected.C01.stepGuardOp ∧
    FactsC01.stepGuardOnlyNonDag = true ∧
    FactsC01.limitValidated = true ∧
    FactsC01.needAllIsNotEager = true ∧
    FactsC01.appendBranchLeavesBuilderIntact = Expected.C01.appendBranchLeavesBuilderIntact ∧
    FactsC01.appendBranchClosureReads = "internalBranch" ∧
    FactsC01.appendParallelLeavesBuilderIntact = true := by decide

/-- **pregel_refines_superstep.** For every runner in any-predecessor mode whose node keys
    are distinct (and differ from END) — cyclic or not, any branches, any fan-in —, every node
    function, every input and every order in which the nodes of a step complete, the run
    computed by the engine (write maps keyed by target and sender, data-predecessor filter,
    channel report / get / clear, END detection) is exactly the run of the superstep
    specification `Spec.run` (EinoV/Spec/Superstep.lean): every node that was sent at least one
    value runs exactly once in the next step on the merge of exactly those values, branch
    conditions decide which targets receive the value, the merged value delivered to END in the
    first step in which END receives one is the result — same result or error class, same
    per-step trace. -/
theorem pregel_refines_superstep {V} (ops : ValOps V) (r : Runner V) (h : r.dag = false)
    (hk : (Spec.keys r).Nodup) (sched : Sched V) (hf : sched.Fair) (x : V) :
    runS ops r sched x = Spec.run ops r sched x :=
  run_pregel ops r h hk sched hf x

/-- **spec_step_exact** (what `Spec.next` says, spelled out). After a step in which the
    finished tasks sent `sent`, node `t` is scheduled with input `v` exactly when `t` is a
    node (or END) and `v` is the single value / the merge of exactly the values sent to `t`
    by its data predecessors; a node that was sent nothing is not scheduled. -/
theorem spec_step_exact {V} (ops : ValOps V) (r : Runner V) (sent : List (Spec.Sent V)) (t : Key) (v : V) :
    (t, v) ∈ ((Spec.keys r).map (fun t => (t, collect ops ((Spec.inbox r sent t).map (·.2))))).filterMap
        (fun g => match g.2 with | .ready v => some (g.1, v) | _ => none)
      ↔ t ∈ Spec.keys r ∧ collect ops ((Spec.inbox r sent t).map (·.2)) = .ready v := by
  simp only [List.mem_filterMap, List.mem_map]
  constructor
  · rintro ⟨g, ⟨t', ht', rfl⟩, hg⟩
    simp only at hg
    cases hc : collect ops ((Spec.inbox r sent t').map (·.2)) with
    | ready w => simp [hc] at hg; obtain ⟨rfl, rfl⟩ := hg; exact ⟨ht', hc⟩
    | notReady => simp [hc] at hg
    | mergeErr => simp [hc] at hg
  · rintro ⟨ht, hc⟩
    exact ⟨(t, collect ops ((Spec.inbox r sent t).map (·.2))), ⟨t, ht, rfl⟩, by simp [hc]⟩

/-- a node that was sent nothing is not scheduled; one value is passed on as is -/
theorem collect_cases {V} (ops : ValOps V) : collect ops ([] : List V) = .notReady ∧
    ∀ v, collect ops [v] = .ready v := ⟨rfl, fun _ => rfl⟩

/-- every runner the builder produces from distinct node keys (none of them END) meets the
    hypothesis of `pregel_refines_superstep` -/
theorem compile_keys_nodup {V} (slack : Nat) (g : GraphDef V) (h : (g.nodes.map (·.1) ++ [END]).Nodup) :
    (Spec.keys (compile slack g)).Nodup := by
  have : (compile slack g).nodes.map (·.key) = g.nodes.map (·.1) := by
    simp [compile, List.map_map, Function.comp]
  unfold Spec.keys
  rw [this]; exact h

theorem sched_id_fair {V} : (Sched.id : Sched V).Fair := fun _ _ => List.Perm.refl _

/-- **pregel_steps_le.** A run in any-predecessor mode never executes more supersteps than
    the configured limit — for every runner (cyclic or not), every node function, every input, every completion order. -/
theorem pregel_steps_le {V} (ops : ValOps V) (r : Runner V) (sched : Sched V) (x : V)
    (h : r.dag = false) :
    (runS ops r sched x).trace.length ≤ r.maxSteps := by
  unfold runS
  split
  · simp
  · simp
  · have := loop_trace_length ops r sched r.fuel ‹_› ‹_› []
    simpa [Runner.fuel, h] using this

/-- **pregel_outcome_total.** `run` is a total function: every run returns a value or an
    error (termination is by structural recursion on the remaining step budget, which is what
    the guard `step >= maxSteps` provides); when the budget is exhausted the outcome is the
    max-steps error. -/
theorem pregel_exhausted_is_maxSteps {V} (ops : ValOps V) (r : Runner V) (sched : Sched V)
    (h : r.dag = false) (cm : Chans V) (ts : List (Key × V)) (tr : Trace V) :
    (loop ops r sched 0 cm ts tr).result = .error { cls := .maxSteps } := by
  simp [loop, h]

/-- **default_limit.** Without an explicit limit the compiled runner's limit is the number of
    nodes plus the slack found in the source. -/
theorem default_limit {V} (g : GraphDef V) (h : g.maxSteps = 0) :
    (compile FactsC01.stepSlack g).maxSteps = g.nodes.length + 10 := by
  have : FactsC01.stepSlack = 10 := by decide
  simp [compile, h, this]

/-- **subgraph_transparent.** A graph used as a node behaves like the same graph compiled
    alone: the engine uses a node only by applying its function, so a node whose function is
    the nested run `fun v => (run ops r' v).result` is interchangeable with any function
    that agrees with that run on every input. -/
theorem subgraph_transparent {V} (ops : ValOps V) (r' : Runner V) (f : V → Except Err V)
    (hf : ∀ v, f v = (run ops r' v).result)
    (mk : (V → Except Err V) → Runner V) (x : V) :
    run ops (mk f) x = run ops (mk (fun v => (run ops r' v).result)) x := by
  have : f = fun v => (run ops r' v).result := funext hf
  rw [this]

/-! ### non-vacuity: concrete well-formed runners -/

def natOps : ValOps Nat := { merge := fun l => some l.sum, zero := 0 }

/-- a two-node cycle a → b → a that never reaches END: hits the limit -/
def cyc : GraphDef Nat :=
  { nodes := [("a", fun v => .ok (v + 1)), ("b", fun v => .ok (v * 2))],
    edges := [(START, "a"), ("a", "b"), ("b", "a"), ("b", "zz")], branches := [], maxSteps := 4 }

example : (run natOps (compile 10 cyc) 1).errCls? = some .maxSteps := by decide
example : (run natOps (compile 10 cyc) 1).trace.length = 4 := by decide
/-- the hypotheses of the refinement theorem hold for this cyclic runner -/
example : (compile 10 cyc).dag = false ∧ (Spec.keys (compile 10 cyc)).Nodup := by decide

/-- a chain start → a → end returns in one step -/
def lin : GraphDef Nat :=
  { nodes := [("a", fun v => .ok (v + 1))], edges := [(START, "a"), ("a", END)], branches := [] }

example : (run natOps (compile 10 lin) 1).okVal? = some 2 := by decide

end EinoV.C01

/-! ## last clause: a chain is sequential function composition of its stages, with parallel
    stages merged by key  (model: EinoV/Model/C01Chain.lean, proofs: EinoV/Proofs/C01Chain.lean) -/

namespace EinoV.C01
open EinoV.Engine EinoV.Gen EinoV.Chain

/-- **chain_is_composition.** For every chain `Compile` accepts (`Chain.WF`: not empty; every
    parallel/branch stage has ≥ 2 members with distinct keys and does not directly follow
    another parallel/branch stage; `graph.addNode` saw no duplicate node key), all stage
    functions (arbitrary, possibly failing; a nested graph or chain is just such a function —
    `subgraph_transparent`, `chain_as_stage`) and every input: running the graph that chain.go
    builds (`lower`: nodes `node_i`, `node_i_parallel_j`, `node_i_branch_key`; an edge from every
    previous-stage node; `WithOutputKey` wrappers; the GraphBranch with key translation; the END
    edges) on the engine, with the default step limit, returns exactly `Chain.sem`: the
    composition of the stage functions, a parallel stage being the keyed map of its members'
    results (fan-in by `mergeMap`), a branch stage the member its condition selects — or the
    same error, attributed to the same node key. -/
theorem chain_is_composition (c : Chain) (h : c.WF) (x : CVal) :
    (run cvalOps (compile FactsC01.stepSlack (lower c)) x).result = c.sem x :=
  Chain.chain_is_composition FactsC01.stepSlack c h x

/-- **chain_keys_distinct.** The node keys chain.go generates never collide and are never
    START / END: the third conjunct of `Chain.WF` follows from the Append* checks. -/
theorem chain_keys_distinct (c : Chain) (h : stagesOK false c = true) :
    (START :: (lowerKeys c ++ [END])).Nodup :=
  Chain.lowerKeys_nodup c h

/-- `chain_is_composition` with the purely structural hypotheses: a non-empty chain whose
    parallel / branch stages have ≥ 2 members with distinct keys and never directly follow
    another parallel / branch stage. -/
theorem chain_is_composition_structural (c : Chain) (hne : c ≠ []) (h : stagesOK false c = true) (x : CVal) :
    (run cvalOps (compile FactsC01.stepSlack (lower c)) x).result = c.sem x :=
  chain_is_composition c (Chain.wf_of_stagesOK c hne h) x

/-- **chain_never_hits_limit.** The default step limit of a compiled chain is at least its
    number of stages (one superstep per stage), whatever the slack found in the source. -/
theorem chain_never_hits_limit (c : Chain) (h : c.WF) :
    c.length ≤ (compile FactsC01.stepSlack (lower c)).maxSteps :=
  Chain.chain_stages_le_limit FactsC01.stepSlack c h

/-- **chain_nested.** A compiled chain appended to another chain (`AppendGraph(chain)`) can be
    replaced by the stage whose function is the inner chain's meaning. -/
theorem chain_nested (c' : Chain) (h : c'.WF) (pre post : Chain) (x : CVal)
    (hw : (pre ++ Stage.lambda (c'.exec FactsC01.stepSlack) :: post).WF) :
    (run cvalOps (compile FactsC01.stepSlack (lower (pre ++ Stage.lambda (c'.exec FactsC01.stepSlack) :: post))) x).result
      = (pre ++ Stage.lambda c'.sem :: post).sem x := by
  rw [chain_is_composition _ hw, Chain.chain_as_stage FactsC01.stepSlack c' h]

/-! ### non-vacuity -/

def tagF (s : String) : Fn := fun v =>
  match v with
  | .map kvs => .ok (.map (kvs ++ [(s, .leaf "x")]))
  | .leaf _ => .error { cls := .user 1 }

def failF : Fn := fun _ => .error { cls := .user 7 }

def pickF : CVal → Except Err String
  | .map kvs => .ok (if kvs.length % 2 == 0 then "l" else "r")
  | .leaf _ => .ok "zz"

/-- lambda, parallel (fan-out, fan-in by key), passthrough, branch, lambda -/
def exChain : Chain :=
  [.lambda (tagF "a"), .parallel [("p", tagF "b"), ("q", tagF "c")], .passthrough,
   .branch pickF [("l", tagF "d"), ("r", tagF "e")], .lambda (tagF "f")]

theorem exChain_wf : exChain.WF := ⟨by simp [exChain], by decide, by decide⟩

/-- the keys are the ones chain.go generates -/
example : lowerKeys exChain =
    ["node_0", "node_1_parallel_0", "node_1_parallel_1", "node_2", "node_3_branch_l", "node_3_branch_r", "node_4"] := by
  decide

def cvalKeys : CVal → List String
  | .map kvs => kvs.map (·.1)
  | .leaf _ => []

/-- the run succeeds, passes through the parallel merge and the selected branch member -/
example : ((run cvalOps (compile 10 (lower exChain)) (.map [])).okVal?.map cvalKeys) = some ["p", "q", "d", "f"] := by
  decide
example : ((exChain.sem (.map [])).toOption.map cvalKeys) = some ["p", "q", "d", "f"] := by decide

/-- a failing parallel member fails the chain, attributed to that member's node -/
def exFail : Chain := [.lambda (tagF "a"), .parallel [("p", tagF "b"), ("q", failF)], .lambda (tagF "z")]
theorem exFail_wf : exFail.WF := ⟨by simp [exFail], by decide, by decide⟩
example : (match exFail.sem (.map []) with | .error e => some (e.cls, e.path) | .ok _ => none)
    = some (.user 7, ["node_1_parallel_1"]) := by decide

/-- the hypotheses matter: two parallel stages in a row are not a legal chain (chain.go rejects
    "multiple previous nodes"); in the lowered graph only the first member would be connected -/
example : stagesOK false [.parallel [("p", tagF "b"), ("q", tagF "c")], .parallel [("r", tagF "b"), ("s", tagF "c")]] = false := by
  decide

/-! ### shared builder objects: a chain is the composition of *its own* stages
    (model: EinoV/Model/C01Share.lean, proofs: EinoV/Proofs/C01Share.lean)

A `*compose.ChainBranch` / `*compose.Parallel` / `*compose.Lambda` / `*compose.Chain` value may be
handed to `Append*` any number of times: twice in one chain, in several chains, in a chain used as a
node and in a sibling.  `Share.Prog` is such a program over a pool of builder objects, `Share.Op` the
sequence of build / compile / run operations, `Share.St.heap` what the `Append*` calls left in the
builder objects.  The model is parameterised by the source fact `appendBranchLeavesBuilderIntact`
(`Share.Mech`): `AppendBranch` keeps the key table of an append in a local captured by that append's
closures. -/
section Shared
open EinoV.Chain.Share

/-- the mechanism the source has (regenerated fact) -/
def srcMech : Mech := { builderIntact := FactsC01.appendBranchLeavesBuilderIntact }

theorem srcMech_intact : srcMech.builderIntact = true := by decide

/-- **shared_builders_lower_alike.** What a sequence of `Append*` calls builds depends only on the
    stage descriptions and their positions: for every state `h` the builder objects may be in
    (whatever else they were appended to, before or after), the graph is the one `lower` builds
    from the plain stage list — in particular the branch at position `i` routes to `node_i_branch_*`
    also when the same `*ChainBranch` was appended again at position `i'`. -/
theorem shared_builders_lower_alike (h : Heap) (ts : List TStage) :
    lowerS srcMech h ts = lower (untag ts) :=
  lowerS_intact srcMech srcMech_intact h ts

/-- **shared_run_is_composition.** For every program (pool of builder objects, chains referring
    to them and to each other as nodes), in every state `s` of the program — whatever was built,
    compiled or run before —, running a compiled chain `c` whose resolved stage list is well-formed
    returns the composition of that chain's own stages (`Chain.sem`), for every input. -/
theorem shared_run_is_composition (p : Prog) (s : St) (c : Nat) (x : CVal) (rc : RChain)
    (hrc : (p.resolved srcMech FactsC01.stepSlack [])[c]? = some rc) (hwf : rc.chain.WF)
    (hc : s.compiled.contains c = true) :
    (step srcMech FactsC01.stepSlack p s (.run c x)).2 = .ran (rc.chain.sem x) :=
  run_is_sem srcMech srcMech_intact FactsC01.stepSlack p s c x rc hrc hwf hc

/-- **shared_run_ignores_history.** Building, compiling or running anything else (any operation
    sequence `ops`) does not change what an already compiled chain computes. -/
theorem shared_run_ignores_history (p : Prog) (s : St) (ops : List Op) (c : Nat) (x : CVal) (rc : RChain)
    (hrc : (p.resolved srcMech FactsC01.stepSlack [])[c]? = some rc) (hwf : rc.chain.WF)
    (hc : s.compiled.contains c = true) :
    (step srcMech FactsC01.stepSlack p (after srcMech FactsC01.stepSlack p s ops) (.run c x)).2
      = (step srcMech FactsC01.stepSlack p s (.run c x)).2 := by
  rw [shared_run_is_composition p s c x rc hrc hwf hc,
    shared_run_is_composition p _ c x rc hrc hwf (after_compiled_mono _ _ p c ops s hc)]

/-- **shared_compile_accepts_wf.** `Compile` of a chain whose `Append*` calls were issued reports
    acceptance exactly when no reference dangles, every chain used as a node is accepted, and the
    resolved stage list is well-formed — sharing builder objects neither adds nor removes a
    rejection. -/
theorem shared_compile_accepts_wf (p : Prog) (s : St) (c : Nat) (rc : RChain)
    (hrc : (p.resolved srcMech FactsC01.stepSlack [])[c]? = some rc) (hb : s.built.contains c = true) :
    (step srcMech FactsC01.stepSlack p s (.compile c)).2 = .compiled rc.accepted ∧
    (rc.accepted = true ↔ rc.ok = true ∧ rc.chain.WF) := by
  refine ⟨compile_out srcMech srcMech_intact FactsC01.stepSlack p s c rc hrc hb, ?_⟩
  simp only [RChain.accepted, Bool.and_eq_true]
  exact ⟨fun h => ⟨h.1, wf_of_wfB _ h.2⟩, fun h => ⟨h.1, wfB_of_wf _ h.2⟩⟩

/-- non-vacuity: one `*ChainBranch` appended twice in one chain (`route ; mid ; route`) and once
    more in a second chain that also uses the first chain as a node -/
def exShare : Prog :=
  { pool := [.branch pickF [("l", tagF "d"), ("r", tagF "e")]],
    chains := [[.shared 0, .own (.lambda (tagF "m")), .shared 0],
               [.own (.lambda (tagF "p")), .sub 0, .shared 0]] }

def exOps : List Op :=
  [.build 0, .compile 0, .run 0 (.map []), .build 1, .compile 1, .run 0 (.map []), .run 1 (.map [])]

def outKeys : Out → Option (List String)
  | .ran (.ok v) => some (cvalKeys v)
  | .ran (.error _) => some ["error"]
  | .compiled b => some [toString b]
  | .none => none

/-- both chains are accepted; chain 0 computes the same before and after chain 1 is built -/
example : (exec { builderIntact := true } 10 exShare {} exOps).map outKeys =
    [none, some ["true"], some ["d", "m", "d"], none, some ["true"], some ["d", "m", "d"],
     some ["p", "e", "m", "e", "d"]] := by decide

/-- the hypotheses of `shared_run_is_composition` are satisfiable by this program -/
example : ((exShare.resolved { builderIntact := true } 10 []).map (fun rc => rc.accepted)) = [true, true] := by decide

/-- the fact matters: were the key table kept in the `*ChainBranch` (`builderIntact = false`), the
    first `route` of chain 0 would name the node of the later append and the run would no longer
    return the composition of the stages -/
example : (exec { builderIntact := false } 10 exShare {} exOps).map outKeys =
    [none, some ["true"], some ["error"], none, some ["true"], some ["error"], some ["error"]] := by decide

end Shared

/-! ### The source itself: compose/pregel.go translated (Gen/TransC01.lean) refines the channel model

`tools/factgen/gotrans.go` re-translates `pregelChannel.{reportValues, get, reportSkip,
reportDependencies}` from /repo's working tree on every run; the theorems below say the translated
text computes what the any-predecessor channel of the engine model (`Chan.* false`) computes, so
`pregel_refines_superstep` and the theorems on top of it speak about the channel code as it is now. -/
section Translated
open EinoV.GoSem EinoV.TransPregel EinoV.Gen.TransC01
variable {V : Type} [Inhabited V]

theorem translated_source_is_current : FactsC01.pregelChannelTranslated = true := by decide

/-- `pregelChannelBuilder`'s channel is the model's initial channel -/
theorem translated_init (cp dp : List Key) : Chan.init (V := V) false cp dp = toChan { Values := [] } :=
  init_is_empty cp dp

/-- `pregelChannel.reportValues`: every value sent is stored under its sender -/
theorem translated_reportValues_refines (ext : Ext V) (ch : pregelChannel V) (ins : GoMap V) :
    toChan (pregelChannel_reportValues ext ch ins).1 = (toChan ch).reportValues false ins ∧
    (pregelChannel_reportValues ext ch ins).2 = none :=
  reportValues_refines ext ch ins

/-- `pregelChannel.get`: not ready when nothing was sent; otherwise the single value or the merge,
    and the channel is emptied (also when the merge fails) -/
theorem translated_get_refines (ops : ValOps V) (es : V) (ch : pregelChannel V) (isStream : Bool) :
    toChan (pregelChannel_get (extOf ops es) ch isStream).1 = ((toChan ch).get ops false).1 ∧
    getResult (pregelChannel_get (extOf ops es) ch isStream).2 = ((toChan ch).get ops false).2 :=
  get_refines ops es ch isStream

/-- `pregelChannel.reportSkip` / `reportDependencies` do nothing (skips are not propagated in
    any-predecessor mode) -/
theorem translated_skip_and_deps_are_noops (ext : Ext V) (ch : pregelChannel V) (keys : List String) :
    (toChan (pregelChannel_reportSkip ext ch keys).1, (pregelChannel_reportSkip ext ch keys).2)
      = (toChan ch).reportSkip false keys ∧
    toChan (pregelChannel_reportDependencies ext ch keys) = (toChan ch).reportDeps false keys :=
  ⟨reportSkip_refines ext ch keys, reportDependencies_refines ext ch keys⟩

/-- the clause "a node that was sent nothing does not run", read off the translated `get` -/
theorem translated_get_not_ready_iff_empty (ops : ValOps V) (es : V) (ch : pregelChannel V) (isStream : Bool) :
    getResult (pregelChannel_get (extOf ops es) ch isStream).2 = .notReady ↔ ch.Values = [] := by
  rw [(get_refines ops es ch isStream).2]
  unfold Chan.get
  simp only [Bool.false_eq_true, if_false]
  have hva : (toChan ch).values = ch.Values := rfl
  rw [hva]
  rcases hv : ch.Values with _ | ⟨a, _ | ⟨b, rest⟩⟩
  · simp
  · simp [collect]
  · simp only [List.isEmpty_cons, Bool.false_eq_true, if_false, List.map_cons, collect]
    cases ops.merge (a.snd :: b.snd :: List.map (fun x => x.snd) rest) <;> simp

end Translated

/-! ### The translated channel manager (compose/graph_manager.go → Gen/TransMgr.lean), any-predecessor mode

  The refinement theorems of Proofs/TransMgr.lean (stated in full in Props/C02.lean, for both kinds of
  channel) specialised to `r.dag = false`: every channel is a `pregelChannel`. -/
section TranslatedManager
open EinoV.GoSem EinoV.TransMgr EinoV.GoWorkList EinoV.Gen.TransC02 EinoV.Gen.TransC01 EinoV.Gen.TransMgr
variable {V : Type} [Inhabited V]

theorem translated_manager_source_is_current : FactsC01.channelManagerTranslated = true := by decide

/-- `channelManager.updateAndGet` in any-predecessor mode is the channel part of the model's `calcNext`:
    the values sent are stored under their (declared) senders, dependencies are ignored, and every
    channel that was sent something hands out its value(s) and is emptied -/
theorem translated_updateAndGet_refines (ops : ValOps V) (es : V) (mext : MgrExt V) (r : Runner V)
    (c : channelManager V) (values : GoMap (GoMap V)) (deps : GoMap (List String)) (hd : r.dag = false)
    (hrel : Rel r c) (hok : ChansOK false c.channels) (hE : NoHandlers mext)
    (hpv : ∀ w ∈ values, c.channels.has w.1 = true) (hmaps : ∀ w ∈ values, TransDag.KeysNodup w.2)
    (hpd : ∀ d ∈ deps, c.channels.has d.1 = true) :
    let g := getReady (TransDag.opsFor ops es c.isStream) false
      (updateDeps r (updateValues r (toChans c.channels) values) deps)
    ∃ res, channelManager_updateAndGet (TransDag.extOf ops es) mext c values deps = .ret res ∧
      (g.2.2 = false → toChans res.1.channels = g.1 ∧ res.2.1 = g.2.1 ∧ res.2.2 = none ∧
        Frame c res.1 ∧ ChansOK false res.1.channels) ∧
      (g.2.2 = true → res.2.2.isSome = true ∧ res.2.1 = []) := by
  simpa only [hd] using updateAndGet_refines ops es mext r c values deps hrel (hd ▸ hok) hE hpv hmaps hpd

/-- `channelManager.reportBranch` in any-predecessor mode: skips are not propagated — no channel changes,
    the error is nil, for every fuel; so does the model's `reportBranch` -/
theorem translated_reportBranch_is_noop (ext : Ext V) (mext : MgrExt V) (r : Runner V) (c : channelManager V)
    (fuel : Nat) (from_ : Key) (sk : List Key) (hd : r.dag = false) (hrel : Rel r c)
    (hok : ChansOK false c.channels) (hcl : SuccClosed c) (hsk : ∀ s ∈ sk, c.channels.has s = true) :
    reportBranch r (toChans c.channels) from_ sk = .ok (toChans c.channels) ∧
    ∃ c', channelManager_reportBranch ext mext fuel c from_ sk = .ret (c', none) ∧
      toChans c'.channels = toChans c.channels ∧ Frame c c' ∧ ChansOK false c'.channels := by
  simpa only [hd] using reportBranch_pregel ext mext r c fuel from_ sk hd hrel (hd ▸ hok) hcl hsk

end TranslatedManager

/-! ### The translated step function (compose/graph_run.go → Gen/TransStep.lean), any-predecessor mode

  The refinement theorems of Proofs/TransStep.lean (stated in full in Props/C02.lean) specialised to
  `r.dag = false`: no acyclicity hypothesis (a `pregelChannel` never passes a skip on, so `reportBranch`'s
  work list is empty).  `run_pregel` stands on the model's `calcNext`; this says that `calcNext` is what
  `runner.calculateNextTasks` computes, and that the translated function never returns `.panic` / `.unspecified`. -/
section TranslatedStep
open EinoV.GoSem EinoV.TransMgr EinoV.TransStep EinoV.Gen.TransMgr EinoV.Gen.TransStep
variable {V : Type} [Inhabited V]

theorem translated_step_source_is_current : FactsC01.stepFunctionTranslated = true := by decide

theorem translated_calculateNextTasks_refines (ops : ValOps V) (es : V) (mext : MgrExt V) (sext : StepExt V)
    (r : Runner V) (gr : runner V) (hd : r.dag = false)
    (hE : NoBranchHandlers sext) (hM : NoHandlers mext)
    (ts : List (task V)) (ds : List (Done V)) (hrel : ListRel (TaskRel sext r) ts ds) (cm : Chans V) :
    ∃ N, ∀ fuel, N ≤ fuel → ∀ c om, toChans c.channels = cm → c.isStream = false → MgrInv r c →
      CallsClosed r c → SubsOK gr c →
      match calcNext (TransDag.opsFor ops es false) r cm ds with
      | .ok (cm3, .result v) => ∃ c',
          runner_calculateNextTasks (TransDag.extOf ops es) mext sext fuel gr ts false c om = .ret (c', [], v, none) ∧
          toChans c'.channels = cm3 ∧ Frame c c' ∧ ChansOK r.dag c'.channels
      | .ok (cm3, .tasks ready) => ∃ c',
          runner_calculateNextTasks (TransDag.extOf ops es) mext sext fuel gr ts false c om
            = .ret (c', ready.map (mkTask gr), default, none) ∧
          toChans c'.channels = cm3 ∧ Frame c c' ∧ ChansOK r.dag c'.channels
      | .error _ => ∃ c' e,
          runner_calculateNextTasks (TransDag.extOf ops es) mext sext fuel gr ts false c om
            = .ret (c', [], default, some e) :=
  calculateNextTasks_refines ops es mext sext r gr (fun _ => 0) (fun h => by simp [hd] at h)
    hE hM ts ds hrel cm

theorem translated_step_total (ops : ValOps V) (es : V) (mext : MgrExt V) (sext : StepExt V)
    (r : Runner V) (gr : runner V) (hd : r.dag = false)
    (hE : NoBranchHandlers sext) (hM : NoHandlers mext)
    (ts : List (task V)) (ds : List (Done V)) (hrel : ListRel (TaskRel sext r) ts ds) (cm : Chans V) :
    ∃ N, ∀ fuel, N ≤ fuel → ∀ c om, toChans c.channels = cm → c.isStream = false → MgrInv r c →
      CallsClosed r c → SubsOK gr c →
      ∃ res, runner_calculateNextTasks (TransDag.extOf ops es) mext sext fuel gr ts false c om = .ret res :=
  step_total ops es mext sext r gr (fun _ => 0) (fun h => by simp [hd] at h) hE hM ts ds hrel cm

end TranslatedStep

/-! ### The translated table-building code (Gen/TransTab.lean; gotrans phase 5), any-predecessor mode

  Stated in full in Props/C02.lean.  The instance for `r.dag = false`: `compile` stores a nil `chanBuilder`,
  `initChannelManager` (translated) falls back to the translated `pregelChannelBuilder`, and the manager it
  returns satisfies the hypotheses of the translated manager and step function. -/
section TranslatedTables
open EinoV.GoSem EinoV.TransMgr EinoV.TransStep EinoV.TransTab EinoV.Gen.TransMgr EinoV.Gen.TransTab
variable {V : Type} [Inhabited V]

theorem translated_tables_source_is_current : FactsC01.tablesTranslated = true := by decide

theorem translated_init_hypotheses_from_source (ext : Ext V) (mext : MgrExt V) (gr : runner V) (r : Runner V)
    (s : Bool) (hd : r.dag = false) (hb : gr.chanBuilder = .nil)
    (hkeys : akeys gr.chanSubscribeTo = r.nodes.map (·.key))
    (hsucc : gr.successors = r.nodes.map (fun n => (n.key, n.successors)))
    (hdata : gr.dataPredecessors = r.dataPreds) (hctrl : gr.controlPredecessors = r.ctrlPreds)
    (hnd : (akeys (initChans r)).Nodup)
    (hdk : (akeys r.dataPreds).Nodup) (hck : (akeys r.ctrlPreds).Nodup)
    (hc : RunnerClosed r) (hs : ∀ k ∈ r.start.successors, k ∈ akeys (initChans r)) :
    ∃ c, runner_initChannelManager ext mext gr s = .ret c ∧ c.isStream = s ∧
      MgrInv r c ∧ CallsClosed r c ∧ toChans c.channels = initChans r :=
  init_hypotheses_from_source ext mext gr r s
    ⟨hkeys, hsucc, hdata, hctrl, ⟨fun h => by simp [hd] at h, fun _ => by simp [hb]⟩⟩ hnd hdk hck hc hs

end TranslatedTables

end EinoV.C01
