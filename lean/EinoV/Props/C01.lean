/-
  C01 — Any-predecessor (Pregel) runs follow lock-step superstep semantics and terminate.
  Property theorems.  Model: EinoV/Model/Engine.lean, GraphBuild.lean.
  Source facts: EinoV/Gen/FactsC01.lean (regenerated from /repo on every run).
-/
import EinoV.Model.Engine
import EinoV.Model.GraphBuild
import EinoV.Proofs.C01
import EinoV.Gen.FactsC01
import EinoV.Expected.C01

namespace EinoV.C01
open EinoV.Engine EinoV.Gen

/-- Source fact tie: the step guard and the default slack are the ones modelled. -/
theorem facts_match :
    FactsC01.stepSlack = Expected.C01.stepSlack ∧
    FactsC01.stepGuardBeforeSubmit = Expected.C01.stepGuardBeforeSubmit ∧
    FactsC01.stepGuardOp = Expected.C01.stepGuardOp ∧
    FactsC01.stepGuardOnlyNonDag = true ∧
    FactsC01.needAllIsNotEager = true := by decide

/-- **pregel_steps_le.** A run in any-predecessor mode never executes more supersteps than
    the configured limit — for every runner (cyclic or not), every node function, every input, every completion order. -/
theorem pregel_steps_le {V} (ops : ValOps V) (r : Runner V) (sched : Sched V) (x : V)
    (h : r.dag = false) :
    (runS ops r sched x).trace.length ≤ r.maxSteps := by
  unfold runS
  split
  · simp
  · simp
  · have := loop_trace_length ops r sched r.fuel ‹_› ‹_› []
    simpa [Runner.fuel, h] using this

/-- **pregel_outcome_total.** `run` is a total function: every run returns a value or an
    error (termination is by structural recursion on the remaining step budget, which is what
    the guard `step >= maxSteps` provides); when the budget is exhausted the outcome is the
    max-steps error. -/
theorem pregel_exhausted_is_maxSteps {V} (ops : ValOps V) (r : Runner V) (sched : Sched V)
    (h : r.dag = false) (cm : Chans V) (ts : List (Key × V)) (tr : Trace V) :
    (loop ops r sched 0 cm ts tr).result = .error { cls := .maxSteps } := by
  simp [loop, h]

/-- **default_limit.** Without an explicit limit the compiled runner's limit is the number of
    nodes plus the slack found in the source. -/
theorem default_limit {V} (g : GraphDef V) (h : g.maxSteps = 0) :
    (compile FactsC01.stepSlack g).maxSteps = g.nodes.length + 10 := by
  have : FactsC01.stepSlack = 10 := by decide
  simp [compile, h, this]

/-- **subgraph_transparent.** A graph used as a node behaves like the same graph compiled
    alone: the engine uses a node only by applying its function, so a node whose function is
    the nested run `fun v => (run ops r' v).result` is interchangeable with any function
    that agrees with that run on every input. -/
theorem subgraph_transparent {V} (ops : ValOps V) (r' : Runner V) (f : V → Except Err V)
    (hf : ∀ v, f v = (run ops r' v).result)
    (mk : (V → Except Err V) → Runner V) (x : V) :
    run ops (mk f) x = run ops (mk (fun v => (run ops r' v).result)) x := by
  have : f = fun v => (run ops r' v).result := funext hf
  rw [this]

/-! ### non-vacuity: concrete well-formed runners -/

def natOps : ValOps Nat := { merge := fun l => some l.sum, zero := 0 }

/-- a two-node cycle a → b → a that never reaches END: hits the limit -/
def cyc : GraphDef Nat :=
  { nodes := [("a", fun v => .ok (v + 1)), ("b", fun v => .ok (v * 2))],
    edges := [(START, "a"), ("a", "b"), ("b", "a"), ("b", "zz")], branches := [], maxSteps := 4 }

example : (run natOps (compile 10 cyc) 1).errCls? = some .maxSteps := by decide
example : (run natOps (compile 10 cyc) 1).trace.length = 4 := by decide

/-- a chain start → a → end returns in one step -/
def lin : GraphDef Nat :=
  { nodes := [("a", fun v => .ok (v + 1))], edges := [(START, "a"), ("a", END)], branches := [] }

example : (run natOps (compile 10 lin) 1).okVal? = some 2 := by decide

end EinoV.C01
