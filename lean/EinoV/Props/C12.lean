/-
  C12 — Checkpoint serialisation round-trips every supported value or fails loudly.
  Property theorems.  Model: EinoV/Model/C12.lean (describes internal/serialization after
  fixes/C12-container-pointernum.diff, fixes/C12-nil-in-pointer-chain.diff and — for the
  hypothesis `Ctx.ok` that no type is registered under the empty key —
  fixes/C12-empty-registry-key.diff).
  Source facts: EinoV/Gen/FactsC12.lean (regenerated from /repo on every run).

  Trusted base specific to C12 (`JLayer.OK`): for basic kinds, `sonic.Unmarshal` reads back
  what `json.Marshal` wrote and `json.Marshal` never writes the literal `null` for them;
  `sonic.Marshal`/`Unmarshal` of the intermediate record is the identity up to nil/empty
  (`omitempty`).  Both are exercised by the harness (edge numbers, escapes, tree comparison).
-/
import EinoV.Model.C12
import EinoV.Proofs.C12
import EinoV.Gen.FactsC12
import EinoV.Expected.C12

namespace EinoV.C12
open EinoV.Gen EinoV.Expected.C12

/-- the model's fact record as regenerated from the source on this run -/
def srcFacts : Facts := factsOf FactsC12.decodeUsesPointerNum FactsC12.nilChainRecorded

/-! ## source-fact ties -/

/-- The regenerated facts are the ones the model was written for: the registry tables of
    the two `init` functions, the decode dispatch order, the use of PointerNum in every
    decode branch, the NilElemPointerNum bookkeeping, and the registry discipline of
    `GenericRegister` / `RegisterSerializableType` (a key, a type registered at most once, no
    empty key) that makes every registry the code can build satisfy `Ctx.ok`; and three facts
    about the shape of the walk: the encoder is a stateless recursion over the reflect tree
    (the model's `enc` is structural; shared pointers: `marshalL`), it names a type by
    `rm[<exact type>]` only (`keyOf`), and the map decoder decodes every key text into a key of
    its own (`placeKVs`). -/
theorem facts_match :
    FactsC12.registry = registry ∧ FactsC12.composeRegistry = composeRegistry
    ∧ FactsC12.decodeDispatch = decodeDispatch
    ∧ FactsC12.decodeUsesPointerNum = decodeUsesPointerNum
    ∧ FactsC12.nilChainRecorded = nilChainRecorded
    ∧ FactsC12.registerForwards = true ∧ FactsC12.registerRejectsDuplicates = true
    ∧ FactsC12.registerRejectsEmptyKey = true
    ∧ FactsC12.encodeWalkStateless = encodeWalkStateless
    ∧ FactsC12.typeKeysByExactType = typeKeysByExactType
    ∧ FactsC12.mapKeyFreshPerEntry = mapKeyFreshPerEntry := by
  decide

/-- every decode branch applies `resolvePointerNum(v.PointerNum, …)` and nil pointers inside
    a chain are recorded: the fact record is `Fall`. -/
theorem srcFacts_all : srcFacts = Fall := by decide

/-- kinds of the defined types in eino's own registry tables -/
def einoKinds : List (String × String) :=
  [("schema.Message", "struct"), ("schema.Document", "struct"), ("schema.RoleType", "string"),
   ("schema.ChatMessagePart", "struct"), ("schema.ToolCall", "struct"), ("schema.FunctionCall", "struct"),
   ("schema.ResponseMeta", "struct"), ("schema.TokenUsage", "struct"), ("schema.LogProbs", "struct"),
   ("compose.channel", "struct"), ("compose.checkpoint", "struct"), ("compose.dagChannel", "struct"),
   ("compose.pregelChannel", "struct"), ("compose.dependencyState", "struct")]

/-- The registry built by eino's two `init` functions (as regenerated from the source) is
    well-formed: no empty key, no key and no type registered twice — all 32 entries. -/
theorem builtin_registry_ok :
    (Ctx.mk (builtinReg (FactsC12.registry ++ FactsC12.composeRegistry) einoKinds) []).ok = true
    ∧ (builtinReg (FactsC12.registry ++ FactsC12.composeRegistry) einoKinds).length = 32 := by
  decide

/-! ## the property -/

/-- **roundtrip (partial).**  For every registry context accepted by `GenericRegister`, every
    JSON layer satisfying the trusted-base assumption, and every `Supported` value `v`
    (unbounded nesting, any pointer depth, nil at any level, `any` positions):
    `Marshal` succeeds, `Unmarshal` of its output succeeds, and the result is deeply equal to
    `v` modulo nil/empty containers and has the identical dynamic type.

    Full statement of the property clause (NOT provable on this tree, see
    `listed_nilptr_to_container_errors` and `listed_nested_container_errors` below):

      theorem roundtrip : ctx.ok → J.OK → InListedUniverse ctx J v →
        ∃ is v', enc ctx J srcFacts v = .ok is ∧ unmarshalTop ctx J srcFacts is = .ok v'
                 ∧ v' ≈ v ∧ v'.typeOf = v.typeOf

    What is missing: `Supported` additionally asks that the element type of every container
    and the target of every nil pointer be a registered type after stripping pointers, i.e.
    it excludes directly nested containers (`map[string][]int`) and nil pointers to
    containers (`(*[]int)(nil)`); for those the encoder answers "unknown type" — an error,
    never a different value (known findings). -/
theorem roundtrip_partial (ctx : Ctx) (J : JLayer) (hc : ctx.ok = true) (hJ : J.OK)
    (v : GoVal) (hs : Supported ctx J v = true) :
    ∃ is v', enc ctx J srcFacts v = .ok is ∧ unmarshalTop ctx J srcFacts is = .ok v'
      ∧ v' ≈ v ∧ v'.typeOf = v.typeOf := by
  rw [srcFacts_all]
  unfold Supported at hs
  simp only [Bool.and_eq_true] at hs
  obtain ⟨is, he⟩ := encP_total ctx J Fall hJ v 0 hs.2
  obtain ⟨v', hd, hn, ht, _⟩ := encP_dec ctx J hc hJ v 0 is hs.1 he
  have hne := encP_not_absent ctx J Fall v 0 is (wt_not_inil hs.1) he
  exact ⟨is, v', he, by rw [unmarshalTop_of_ne hne]; exact hd, hn, ht⟩

/-- **loud.**  For EVERY well-typed value, supported or not, registered or not, with
    encodable payloads or not: whenever `Marshal` succeeds and `Unmarshal` of its output
    succeeds, the value read is the value written (≈, identical dynamic type).  So a value
    the serialiser cannot represent can only produce an error, never a different value. -/
theorem loud (ctx : Ctx) (J : JLayer) (hc : ctx.ok = true) (hJ : J.OK)
    (v : GoVal) (is : IS) (v' : GoVal) (hw : v.wt ctx = true)
    (he : enc ctx J srcFacts v = .ok is) (hd : unmarshalTop ctx J srcFacts is = .ok v') :
    v' ≈ v ∧ v'.typeOf = v.typeOf := by
  rw [srcFacts_all] at he hd
  obtain ⟨v'', hd', hn, ht, _⟩ := encP_dec ctx J hc hJ v 0 is hw he
  have hne := encP_not_absent ctx J Fall v 0 is (wt_not_inil hw) he
  rw [unmarshalTop_of_ne hne, hd'] at hd
  have : v'' = v' := ok_inj hd
  subst this
  exact ⟨hn, ht⟩

/-- **no silent decode failure.**  What the encoder accepted, the decoder accepts. -/
theorem written_is_readable (ctx : Ctx) (J : JLayer) (hc : ctx.ok = true) (hJ : J.OK)
    (v : GoVal) (is : IS) (hw : v.wt ctx = true) (he : enc ctx J srcFacts v = .ok is) :
    ∃ v', unmarshalTop ctx J srcFacts is = .ok v' := by
  rw [srcFacts_all] at he ⊢
  obtain ⟨v', hd, _⟩ := encP_dec ctx J hc hJ v 0 is hw he
  have hne := encP_not_absent ctx J Fall v 0 is (wt_not_inil hw) he
  exact ⟨v', by rw [unmarshalTop_of_ne hne]; exact hd⟩

/-- **only registered types are written.**  Whatever `Marshal` accepts, every type it had to
    name on the way — the dynamic type of every (named) basic value at any position (top
    level, field, `any` position, slice element, map value, behind pointers), every struct
    type, element / key / value types of containers, targets of nil pointers — is in the
    registry as that very type (`keyOf ctx t`, the model of `rm[t]`).  Contrapositive: a value
    that mentions an unregistered type, e.g. a defined type over a basic kind that was never
    passed to `GenericRegister`, is refused — it is never written under the key of another
    type. -/
theorem accepted_only_registered (ctx : Ctx) (J : JLayer) (v : GoVal) (is : IS)
    (he : enc ctx J srcFacts v = .ok is) : v.regd ctx = true :=
  encP_regd ctx J srcFacts v 0 is he

/-- an unregistered (named) basic type is answered with "unknown type", whatever its kind
    and whether or not the builtin type of that kind is registered -/
theorem unregistered_basic_rejected (ctx : Ctx) (J : JLayer) (F : Facts) (t : GoTy) (p : Payload) (k : Nat)
    (h : keyOf ctx t = none) : encP ctx J F k (.basic t p) = .error .unknownType := by
  simp [encP, keyOfE, h, bind, Except.bind]

/-- **"no value" only for the nil interface.**  The encoder writes a nil `*internalStruct`
    ("no value": decoded as the zero value of the slot, a nil pointer / nil interface) for the
    nil interface value and for nothing else — in particular for no non-nil pointer, wherever
    else the same pointer may occur in the value. -/
theorem no_value_only_for_nil_interface (ctx : Ctx) (J : JLayer) (v : GoVal)
    (h : enc ctx J srcFacts v = .ok .absent) : v = .inil :=
  encP_absent_inil ctx J srcFacts v 0 h

/-- **shared pointers are written like copies.**  Two values that unfold to the same tree
    are written identically, however their pointers are shared. -/
theorem shared_like_copies (ctx : Ctx) (J : JLayer) (v w : LVal) (h : v.erase = w.erase) :
    marshalL ctx J srcFacts v = marshalL ctx J srcFacts w := by
  unfold marshalL; rw [h]

/-- **round trip of a value with shared pointers.**  If the unfolding is `Supported`, the
    round trip succeeds and gives back the unfolding (≈, identical dynamic type): every
    occurrence of a shared pointer comes back as a non-nil pointer to an equal value.  (The
    sharing itself is not restored — the decoder allocates per occurrence; "deeply equal"
    does not ask for it.) -/
theorem sharing_roundtrip (ctx : Ctx) (J : JLayer) (hc : ctx.ok = true) (hJ : J.OK)
    (v : LVal) (hs : Supported ctx J v.erase = true) :
    ∃ is v', marshalL ctx J srcFacts v = .ok is ∧ unmarshalTop ctx J srcFacts is = .ok v'
      ∧ v' ≈ v.erase ∧ v'.typeOf = v.erase.typeOf :=
  roundtrip_partial ctx J hc hJ v.erase hs

/-! ## non-vacuity: a concrete context, a concrete JSON layer, deep supported values -/

/-- a JSON layer with kernel-reducible functions: payloads are their own JSON text; "!" is
    a value json.Marshal rejects (NaN); nothing encodes to `null`. -/
def Jid : JLayer where
  encode := fun _ p => if p == "!" || p == "null" then .error .json else .ok p
  decode := fun _ s => .ok s
  zero := fun _ => "0"
  valid := fun _ p => !(p == "!" || p == "null")

/-- the trusted-base assumption is satisfiable -/
theorem Jid_ok : Jid.OK where
  rt := by
    intro t p s h
    simp only [Jid] at h ⊢
    split at h
    · cases h
    · rename_i hn
      cases h
      simp only [Bool.or_eq_true, beq_iff_eq, not_or] at hn
      exact ⟨hn.2, rfl⟩
  total := by
    intro t p h
    simp only [Jid, Bool.not_eq_true'] at h ⊢
    exact ⟨p, by simp [h]⟩

def tInt : GoTy := .basic "int"
def tStr : GoTy := .basic "string"

/-- eino's registry plus three user types: a struct with pointer-to-container and deep
    pointer fields, a recursive struct with `any` positions, a named string. -/
def ctxW : Ctx where
  reg := builtinReg (registry ++ composeRegistry) einoKinds ++
    [("w_pc", .struct "PC"), ("w_node", .struct "Node"), ("w_name", .named "Name" "string")]
  structs :=
    [("PC", [("PM", .ptr (.map tStr tInt)), ("PS", .ptr (.slice tInt)), ("P3", .ptr (.ptr (.ptr tInt)))]),
     ("Node", [("V", tInt), ("Next", .ptr (.struct "Node")), ("Tag", .iface), ("Kids", .slice (.ptr (.struct "Node"))),
               ("M", .map (.named "Name" "string") .iface)])]

example : ctxW.ok = true := by decide

def iv (n : String) : GoVal := .basic tInt n

/-- `PC{PM: &map[string]int{"a":1}, PS: &[]int{1,2}, P3: &(&(nil *int))}` -/
def wPC : GoVal :=
  .struct "PC" (.cons "PM" (.ptr (.map tStr tInt false (.cons "\"a\"" (iv "1") .nil)))
    (.cons "PS" (.ptr (.slice tInt false (.cons (iv "1") (.cons (iv "2") .nil))))
    (.cons "P3" (.ptr (.ptr (.nilptr tInt))) .nil)))

/-- a recursive value: `&Node{V:1, Next:&Node{…Tag: **PC…}, Tag: []any{nil, 5, &map…}, Kids: [nil, &Node{}], M: {"k": nil}}` -/
def wNodeLeaf : GoVal :=
  .struct "Node" (.cons "V" (iv "2") (.cons "Next" (.nilptr (.struct "Node"))
    (.cons "Tag" (.ptr (.ptr wPC)) (.cons "Kids" (.slice (.ptr (.struct "Node")) true .nil)
    (.cons "M" (.map (.named "Name" "string") .iface true .nil) .nil)))))
def wNode : GoVal :=
  .ptr (.struct "Node" (.cons "V" (iv "1") (.cons "Next" (.ptr wNodeLeaf)
    (.cons "Tag" (.slice .iface false (.cons .inil (.cons (iv "5")
        (.cons (.ptr (.map tStr .iface false (.cons "\"x\"" (.nilptr (.ptr tStr)) .nil))) .nil))))
    (.cons "Kids" (.slice (.ptr (.struct "Node")) false (.cons (.nilptr (.struct "Node")) (.cons (.ptr wNodeLeaf) .nil)))
    (.cons "M" (.map (.named "Name" "string") .iface false (.cons "\"k\"" .inil .nil)) .nil))))))

example : Supported ctxW Jid wPC = true := by decide
example : Supported ctxW Jid wNode = true := by decide
example : Supported ctxW Jid (.ptr (.ptr (.nilptr (.ptr tInt)))) = true := by decide  -- ****int, nil at level 3
/-- the theorem's conclusion computed on a value (the model is executable) -/
def rtSim (F : Facts) (v : GoVal) : Bool :=
  match enc ctxW Jid F v >>= unmarshalTop ctxW Jid F with
  | .ok v' => decide (v' ≈ v) && v'.typeOf == v.typeOf
  | .error _ => false
example : rtSim Fall wNode = true := by decide
example : rtSim Fall wPC = true := by decide
/-- nil and empty are identified, not equal: the nil map of `wNodeLeaf` is read back empty -/
example : rtSim Fall wNodeLeaf = true
    ∧ (enc ctxW Jid Fall wNodeLeaf >>= unmarshalTop ctxW Jid Fall) ≠ .ok wNodeLeaf := by decide
/-- a value the serialiser cannot represent fails loudly: NaN payload, unregistered struct -/
example : enc ctxW Jid Fall (.basic (.basic "float64") "!") = .error .json := by decide
example : enc ctxW Jid Fall (.ptr (.struct "Unregistered" .nil)) = .error .unknownType := by decide

/-! ## struct-keyed maps, unregistered named basics, shared pointers: witnesses -/

/-- `ctxW` plus a struct type used as a map key -/
def ctxK : Ctx where
  reg := ctxW.reg ++ [("w_key", .struct "Key")]
  structs := ctxW.structs ++ [("Key", [("Tenant", tStr), ("Shard", tInt)])]

/-- `map[Key]*int{{Tenant:"a"}: &1, {Shard:1}: nil, {}: &2}` with `omitempty` keys: every key
    text omits a different set of fields -/
def wKM : GoVal :=
  .map (.struct "Key") (.ptr tInt) false
    (.cons "{\"Tenant\":\"a\"}" (.ptr (iv "1")) (.cons "{\"Shard\":1}" (.nilptr tInt) (.cons "{}" (.ptr (iv "2")) .nil)))

/-- a struct-keyed map is `Supported` and round-trips to itself: every key text is decoded on
    its own, nothing of one key reaches the next -/
theorem struct_keyed_map_roundtrips :
    ctxK.ok = true ∧ Supported ctxK Jid wKM = true
    ∧ (enc ctxK Jid srcFacts wKM >>= unmarshalTop ctxK Jid srcFacts) = .ok wKM := by decide

/-- `type Topic string`, never registered, at the positions a checkpoint holds values in: top
    level, behind a pointer, `any` slice element, `any` map value, `any` struct field.  Each
    is refused with "unknown type" although `string` itself is registered. -/
theorem unregistered_named_refused_everywhere :
    let topic := GoVal.basic (.named "Topic" "string") "\"weather\""
    keyOf ctxW (.basic "string") = some "_eino_string"
    ∧ enc ctxW Jid srcFacts (.basic (.basic "string") "\"weather\"") = .ok (IS.basicN 0 0 "_eino_string" "\"weather\"")
    ∧ enc ctxW Jid srcFacts topic = .error .unknownType
    ∧ enc ctxW Jid srcFacts (.ptr (.ptr topic)) = .error .unknownType
    ∧ enc ctxW Jid srcFacts (.slice .iface false (.cons (iv "1") (.cons topic .nil))) = .error .unknownType
    ∧ enc ctxW Jid srcFacts (.map tStr .iface false (.cons "\"node\"" topic .nil)) = .error .unknownType
    ∧ enc ctxW Jid srcFacts (.struct "Node" (.cons "V" (iv "1") (.cons "Next" (.nilptr (.struct "Node"))
        (.cons "Tag" topic (.cons "Kids" (.slice (.ptr (.struct "Node")) true .nil)
        (.cons "M" (.map (.named "Name" "string") .iface true .nil) .nil)))))) = .error .unknownType
    ∧ enc ctxW Jid srcFacts (.slice (.named "Topic" "string") false .nil) = .error .unknownType := by decide

/-- `p := &1; []*int{p, p}` and the pending inputs of two successors of one node
    (`map[string]any{"a": d, "b": d}` with `d *int`): one identity, two occurrences -/
def wShared : LVal :=
  .slice (.ptr tInt) false (.cons (.ptr 7 (.basic tInt "1")) (.cons (.ptr 7 (.basic tInt "1")) .nil))
def wFan : LVal :=
  .map tStr .iface false (.cons "\"a\"" (.ptr 3 (.basic tInt "5")) (.cons "\"b\"" (.ptr 3 (.basic tInt "5")) .nil))

/-- both occurrences of the shared pointer come back non-nil and equal in value -/
theorem shared_pointer_twice_roundtrips :
    wShared.coherent = true ∧ wShared.sharedCount = 1
    ∧ (marshalL ctxW Jid srcFacts wShared >>= unmarshalTop ctxW Jid srcFacts)
        = .ok (.slice (.ptr tInt) false (.cons (.ptr (iv "1")) (.cons (.ptr (iv "1")) .nil)))
    ∧ wFan.coherent = true ∧ wFan.sharedCount = 1
    ∧ (marshalL ctxW Jid srcFacts wFan >>= unmarshalTop ctxW Jid srcFacts)
        = .ok (.map tStr .iface false (.cons "\"a\"" (.ptr (iv "5")) (.cons "\"b\"" (.ptr (iv "5")) .nil))) := by decide

/-! ## known findings: in the listed universe, not Supported, loud error -/

/-- `(*[]int)(nil)`: listed by the property, the encoder answers "unknown type: []int". -/
theorem listed_nilptr_to_container_errors :
    InListedUniverse ctxW Jid (.nilptr (.slice tInt)) = true
    ∧ Supported ctxW Jid (.nilptr (.slice tInt)) = false
    ∧ enc ctxW Jid srcFacts (.nilptr (.slice tInt)) = .error .unknownType := by decide

/-- `map[string][]int{"a":{1}}`: the element type `[]int` is not a registered type. -/
theorem listed_nested_container_errors :
    let v := GoVal.map tStr (.slice tInt) false (.cons "\"a\"" (.slice tInt false (.cons (iv "1") .nil)) .nil)
    InListedUniverse ctxW Jid v = true ∧ Supported ctxW Jid v = false
    ∧ enc ctxW Jid srcFacts v = .error .unknownType := by decide

/-! ## negation witnesses: the model with the facts of the unrepaired tree -/

/-- facts of the tree before fixes/C12-container-pointernum.diff -/
def FnoContainerPtr : Facts := ⟨true, true, false, false, true⟩
/-- facts of the tree before fixes/C12-nil-in-pointer-chain.diff -/
def FnoNilChain : Facts := ⟨true, true, true, true, false⟩

/-- `*map[string]int` comes back as `map[string]int` when the map branch ignores PointerNum. -/
theorem ptr_to_map_loses_pointer_without_fix :
    let v := GoVal.ptr (.map tStr tInt false (.cons "\"a\"" (iv "1") .nil))
    (enc ctxW Jid FnoContainerPtr v >>= unmarshalTop ctxW Jid FnoContainerPtr)
      = .ok (.map tStr tInt false (.cons "\"a\"" (iv "1") .nil))
    ∧ (GoVal.map tStr tInt false (.cons "\"a\"" (iv "1") .nil)).typeOf ≠ v.typeOf := by decide

/-- a struct field `*[]int` panics in `field.Set` when the slice branch ignores PointerNum. -/
theorem ptr_to_slice_field_panics_without_fix :
    (enc ctxW Jid FnoContainerPtr wPC >>= unmarshalTop ctxW Jid FnoContainerPtr) = .error .panic := by decide

/-- `**int` whose inner pointer is nil comes back as a nil `**int`. -/
theorem inner_nil_lost_without_fix :
    let v := GoVal.ptr (.nilptr tInt)
    (enc ctxW Jid FnoNilChain v >>= unmarshalTop ctxW Jid FnoNilChain) = .ok (.nilptr (.ptr tInt))
    ∧ ¬ (GoVal.nilptr (.ptr tInt) ≈ v) := by decide

/-- `(***int)(nil)` comes back as a nil `*int`: the dynamic type changes. -/
theorem outer_nil_changes_type_without_fix :
    let v := GoVal.nilptr (.ptr (.ptr tInt))
    (enc ctxW Jid FnoNilChain v >>= unmarshalTop ctxW Jid FnoNilChain) = .ok (.nilptr tInt)
    ∧ (GoVal.nilptr tInt).typeOf ≠ v.typeOf := by decide

/-- registering a type under the empty key breaks the decode dispatch (the int 1 is read
    back as an empty []int): the hypothesis `Ctx.ok` of the theorems is needed. -/
theorem empty_key_breaks_dispatch :
    let ctx : Ctx := ⟨[("", tInt)], []⟩
    ctx.ok = false ∧ (enc ctx Jid Fall (iv "1") >>= unmarshalTop ctx Jid Fall) = .ok (.slice tInt true .nil) := by decide

end EinoV.C12
