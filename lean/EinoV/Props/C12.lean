/-
  C12 — Checkpoint serialisation round-trips every supported value or fails loudly.
  Property theorems.  Model: EinoV/Model/C12.lean (describes internal/serialization after
  fixes/C12-container-pointernum.diff, fixes/C12-nil-in-pointer-chain.diff and — for the
  hypothesis `Ctx.ok` that no type is registered under the empty key —
  fixes/C12-empty-registry-key.diff).
  Source facts: EinoV/Gen/FactsC12.lean (regenerated from /repo on every run).

  Trusted base specific to C12 (`JLayer.OK`): for basic kinds, `sonic.Unmarshal` reads back
  what `json.Marshal` wrote and `json.Marshal` never writes the literal `null` for them;
  `sonic.Marshal`/`Unmarshal` of the intermediate record is the identity up to nil/empty
  (`omitempty`).  Both are exercised by the harness (edge numbers, escapes, tree comparison).
-/
import EinoV.Model.C12
import EinoV.Proofs.C12
import EinoV.Model.C12Reg
import EinoV.Proofs.C12Reg
import EinoV.Proofs.TransC12
import EinoV.Gen.FactsC12
import EinoV.Expected.C12

namespace EinoV.C12
open EinoV.Gen EinoV.Expected.C12

/-- the model's fact record as regenerated from the source on this run -/
def srcFacts : Facts := factsOf FactsC12.decodeUsesPointerNum FactsC12.nilChainRecorded

/-! ## source-fact ties -/

/-- The regenerated facts are the ones the model was written for: the registry tables of
    the two `init` functions, the decode dispatch order, the use of PointerNum in every
    decode branch, the NilElemPointerNum bookkeeping, and the registry discipline of
    `GenericRegister` / `RegisterSerializableType` (a key, a type registered at most once, no
    empty key) that makes every registry the code can build satisfy `Ctx.ok`; and three facts
    about the shape of the walk: the encoder is a stateless recursion over the reflect tree
    (the model's `enc` is structural; shared pointers: `marshalL`), it names a type by
    `rm[<exact type>]` only (`keyOf`), and the map decoder decodes every key text into a key of
    its own (`placeKVs`). -/
theorem facts_match :
    FactsC12.registry = registry ∧ FactsC12.composeRegistry = composeRegistry
    ∧ FactsC12.decodeDispatch = decodeDispatch
    ∧ FactsC12.decodeUsesPointerNum = decodeUsesPointerNum
    ∧ FactsC12.nilChainRecorded = nilChainRecorded
    ∧ FactsC12.registerForwards = true ∧ FactsC12.registerRejectsDuplicates = true
    ∧ FactsC12.registerRejectsEmptyKey = true
    ∧ FactsC12.encodeWalkStateless = encodeWalkStateless
    ∧ FactsC12.typeKeysByExactType = typeKeysByExactType
    ∧ FactsC12.mapKeyFreshPerEntry = mapKeyFreshPerEntry := by
  decide

/-- every decode branch applies `resolvePointerNum(v.PointerNum, …)` and nil pointers inside
    a chain are recorded: the fact record is `Fall`. -/
theorem srcFacts_all : srcFacts = Fall := by decide

/-- kinds of the defined types in eino's own registry tables -/
def einoKinds : List (String × String) :=
  [("schema.Message", "struct"), ("schema.Document", "struct"), ("schema.RoleType", "string"),
   ("schema.ChatMessagePart", "struct"), ("schema.ToolCall", "struct"), ("schema.FunctionCall", "struct"),
   ("schema.ResponseMeta", "struct"), ("schema.TokenUsage", "struct"), ("schema.LogProbs", "struct"),
   ("compose.channel", "struct"), ("compose.checkpoint", "struct"), ("compose.dagChannel", "struct"),
   ("compose.pregelChannel", "struct"), ("compose.dependencyState", "struct")]

/-- The registry built by eino's two `init` functions (as regenerated from the source) is
    well-formed: no empty key, no key and no type registered twice — all 32 entries. -/
theorem builtin_registry_ok :
    (Ctx.mk (builtinReg (FactsC12.registry ++ FactsC12.composeRegistry) einoKinds) []).ok = true
    ∧ (builtinReg (FactsC12.registry ++ FactsC12.composeRegistry) einoKinds).length = 32 := by
  decide

/-! ## the property -/

/-- **roundtrip (partial).**  For every registry context accepted by `GenericRegister`, every
    JSON layer satisfying the trusted-base assumption, and every `Supported` value `v`
    (unbounded nesting, any pointer depth, nil at any level, `any` positions):
    `Marshal` succeeds, `Unmarshal` of its output succeeds, and the result is deeply equal to
    `v` modulo nil/empty containers and has the identical dynamic type.

    Full statement of the property clause (NOT provable on this tree, see
    `listed_nilptr_to_container_errors` and `listed_nested_container_errors` below):

      theorem roundtrip : ctx.ok → J.OK → InListedUniverse ctx J v →
        ∃ is v', enc ctx J srcFacts v = .ok is ∧ unmarshalTop ctx J srcFacts is = .ok v'
                 ∧ v' ≈ v ∧ v'.typeOf = v.typeOf

    What is missing: `Supported` additionally asks that the element type of every container
    and the target of every nil pointer be a registered type after stripping pointers, i.e.
    it excludes directly nested containers (`map[string][]int`) and nil pointers to
    containers (`(*[]int)(nil)`); for those the encoder answers "unknown type" — an error,
    never a different value (known findings). -/
theorem roundtrip_partial (ctx : Ctx) (J : JLayer) (hc : ctx.ok = true) (hJ : J.OK)
    (v : GoVal) (hs : Supported ctx J v = true) :
    ∃ is v', enc ctx J srcFacts v = .ok is ∧ unmarshalTop ctx J srcFacts is = .ok v'
      ∧ v' ≈ v ∧ v'.typeOf = v.typeOf := by
  rw [srcFacts_all]
  unfold Supported at hs
  simp only [Bool.and_eq_true] at hs
  obtain ⟨is, he⟩ := encP_total ctx J Fall hJ v 0 hs.2
  obtain ⟨v', hd, hn, ht, _⟩ := encP_dec ctx J hc hJ v 0 is hs.1 he
  have hne := encP_not_absent ctx J Fall v 0 is (wt_not_inil hs.1) he
  exact ⟨is, v', he, by rw [unmarshalTop_of_ne hne]; exact hd, hn, ht⟩

/-- **loud.**  For EVERY well-typed value, supported or not, registered or not, with
    encodable payloads or not: whenever `Marshal` succeeds and `Unmarshal` of its output
    succeeds, the value read is the value written (≈, identical dynamic type).  So a value
    the serialiser cannot represent can only produce an error, never a different value. -/
theorem loud (ctx : Ctx) (J : JLayer) (hc : ctx.ok = true) (hJ : J.OK)
    (v : GoVal) (is : IS) (v' : GoVal) (hw : v.wt ctx = true)
    (he : enc ctx J srcFacts v = .ok is) (hd : unmarshalTop ctx J srcFacts is = .ok v') :
    v' ≈ v ∧ v'.typeOf = v.typeOf := by
  rw [srcFacts_all] at he hd
  obtain ⟨v'', hd', hn, ht, _⟩ := encP_dec ctx J hc hJ v 0 is hw he
  have hne := encP_not_absent ctx J Fall v 0 is (wt_not_inil hw) he
  rw [unmarshalTop_of_ne hne, hd'] at hd
  have : v'' = v' := ok_inj hd
  subst this
  exact ⟨hn, ht⟩

/-- **no silent decode failure.**  What the encoder accepted, the decoder accepts. -/
theorem written_is_readable (ctx : Ctx) (J : JLayer) (hc : ctx.ok = true) (hJ : J.OK)
    (v : GoVal) (is : IS) (hw : v.wt ctx = true) (he : enc ctx J srcFacts v = .ok is) :
    ∃ v', unmarshalTop ctx J srcFacts is = .ok v' := by
  rw [srcFacts_all] at he ⊢
  obtain ⟨v', hd, _⟩ := encP_dec ctx J hc hJ v 0 is hw he
  have hne := encP_not_absent ctx J Fall v 0 is (wt_not_inil hw) he
  exact ⟨v', by rw [unmarshalTop_of_ne hne]; exact hd⟩

/-- **only registered types are written.**  Whatever `Marshal` accepts, every type it had to
    name on the way — the dynamic type of every (named) basic value at any position (top
    level, field, `any` position, slice element, map value, behind pointers), every struct
    type, element / key / value types of containers, targets of nil pointers — is in the
    registry as that very type (`keyOf ctx t`, the model of `rm[t]`).  Contrapositive: a value
    that mentions an unregistered type, e.g. a defined type over a basic kind that was never
    passed to `GenericRegister`, is refused — it is never written under the key of another
    type. -/
theorem accepted_only_registered (ctx : Ctx) (J : JLayer) (v : GoVal) (is : IS)
    (he : enc ctx J srcFacts v = .ok is) : v.regd ctx = true :=
  encP_regd ctx J srcFacts v 0 is he

/-- an unregistered (named) basic type is answered with "unknown type", whatever its kind
    and whether or not the builtin type of that kind is registered -/
theorem unregistered_basic_rejected (ctx : Ctx) (J : JLayer) (F : Facts) (t : GoTy) (p : Payload) (k : Nat)
    (h : keyOf ctx t = none) : encP ctx J F k (.basic t p) = .error .unknownType := by
  simp [encP, keyOfE, h, bind, Except.bind]

/-- **"no value" only for the nil interface.**  The encoder writes a nil `*internalStruct`
    ("no value": decoded as the zero value of the slot, a nil pointer / nil interface) for the
    nil interface value and for nothing else — in particular for no non-nil pointer, wherever
    else the same pointer may occur in the value. -/
theorem no_value_only_for_nil_interface (ctx : Ctx) (J : JLayer) (v : GoVal)
    (h : enc ctx J srcFacts v = .ok .absent) : v = .inil :=
  encP_absent_inil ctx J srcFacts v 0 h

/-- **shared pointers are written like copies.**  Two values that unfold to the same tree
    are written identically, however their pointers are shared. -/
theorem shared_like_copies (ctx : Ctx) (J : JLayer) (v w : LVal) (h : v.erase = w.erase) :
    marshalL ctx J srcFacts v = marshalL ctx J srcFacts w := by
  unfold marshalL; rw [h]

/-- **round trip of a value with shared pointers.**  If the unfolding is `Supported`, the
    round trip succeeds and gives back the unfolding (≈, identical dynamic type): every
    occurrence of a shared pointer comes back as a non-nil pointer to an equal value.  (The
    sharing itself is not restored — the decoder allocates per occurrence; "deeply equal"
    does not ask for it.) -/
theorem sharing_roundtrip (ctx : Ctx) (J : JLayer) (hc : ctx.ok = true) (hJ : J.OK)
    (v : LVal) (hs : Supported ctx J v.erase = true) :
    ∃ is v', marshalL ctx J srcFacts v = .ok is ∧ unmarshalTop ctx J srcFacts is = .ok v'
      ∧ v' ≈ v.erase ∧ v'.typeOf = v.erase.typeOf :=
  roundtrip_partial ctx J hc hJ v.erase hs

/-! ## non-vacuity: a concrete context, a concrete JSON layer, deep supported values -/

/-- a JSON layer with kernel-reducible functions: payloads are their own JSON text; "!" is
    a value json.Marshal rejects (NaN); nothing encodes to `null`. -/
def Jid : JLayer where
  encode := fun _ p => if p == "!" || p == "null" then .error .json else .ok p
  decode := fun _ s => .ok s
  zero := fun _ => "0"
  valid := fun _ p => !(p == "!" || p == "null")

/-- the trusted-base assumption is satisfiable -/
theorem Jid_ok : Jid.OK where
  rt := by
    intro t p s h
    simp only [Jid] at h ⊢
    split at h
    · cases h
    · rename_i hn
      cases h
      simp only [Bool.or_eq_true, beq_iff_eq, not_or] at hn
      exact ⟨hn.2, rfl⟩
  total := by
    intro t p h
    simp only [Jid, Bool.not_eq_true'] at h ⊢
    exact ⟨p, by simp [h]⟩

def tInt : GoTy := .basic "int"
def tStr : GoTy := .basic "string"

/-- eino's registry plus three user types: a struct with pointer-to-container and deep
    pointer fields, a recursive struct with `any` positions, a named string. -/
def ctxW : Ctx where
  reg := builtinReg (registry ++ composeRegistry) einoKinds ++
    [("w_pc", .struct "PC"), ("w_node", .struct "Node"), ("w_name", .named "Name" "string")]
  structs :=
    [("PC", [("PM", .ptr (.map tStr tInt)), ("PS", .ptr (.slice tInt)), ("P3", .ptr (.ptr (.ptr tInt)))]),
     ("Node", [("V", tInt), ("Next", .ptr (.struct "Node")), ("Tag", .iface), ("Kids", .slice (.ptr (.struct "Node"))),
               ("M", .map (.named "Name" "string") .iface)])]

example : ctxW.ok = true := by decide

def iv (n : String) : GoVal := .basic tInt n

/-- `PC{PM: &map[string]int{"a":1}, PS: &[]int{1,2}, P3: &(&(nil *int))}` -/
def wPC : GoVal :=
  .struct "PC" (.cons "PM" (.ptr (.map tStr tInt false (.cons "\"a\"" (iv "1") .nil)))
    (.cons "PS" (.ptr (.slice tInt false (.cons (iv "1") (.cons (iv "2") .nil))))
    (.cons "P3" (.ptr (.ptr (.nilptr tInt))) .nil)))

/-- a recursive value: `&Node{V:1, Next:&Node{…Tag: **PC…}, Tag: []any{nil, 5, &map…}, Kids: [nil, &Node{}], M: {"k": nil}}` -/
def wNodeLeaf : GoVal :=
  .struct "Node" (.cons "V" (iv "2") (.cons "Next" (.nilptr (.struct "Node"))
    (.cons "Tag" (.ptr (.ptr wPC)) (.cons "Kids" (.slice (.ptr (.struct "Node")) true .nil)
    (.cons "M" (.map (.named "Name" "string") .iface true .nil) .nil)))))
def wNode : GoVal :=
  .ptr (.struct "Node" (.cons "V" (iv "1") (.cons "Next" (.ptr wNodeLeaf)
    (.cons "Tag" (.slice .iface false (.cons .inil (.cons (iv "5")
        (.cons (.ptr (.map tStr .iface false (.cons "\"x\"" (.nilptr (.ptr tStr)) .nil))) .nil))))
    (.cons "Kids" (.slice (.ptr (.struct "Node")) false (.cons (.nilptr (.struct "Node")) (.cons (.ptr wNodeLeaf) .nil)))
    (.cons "M" (.map (.named "Name" "string") .iface false (.cons "\"k\"" .inil .nil)) .nil))))))

example : Supported ctxW Jid wPC = true := by decide
example : Supported ctxW Jid wNode = true := by decide
example : Supported ctxW Jid (.ptr (.ptr (.nilptr (.ptr tInt)))) = true := by decide  -- ****int, nil at level 3
/-- the theorem's conclusion computed on a value (the model is executable) -/
def rtSim (F : Facts) (v : GoVal) : Bool :=
  match enc ctxW Jid F v >>= unmarshalTop ctxW Jid F with
  | .ok v' => decide (v' ≈ v) && v'.typeOf == v.typeOf
  | .error _ => false
example : rtSim Fall wNode = true := by decide
example : rtSim Fall wPC = true := by decide
/-- nil and empty are identified, not equal: the nil map of `wNodeLeaf` is read back empty -/
example : rtSim Fall wNodeLeaf = true
    ∧ (enc ctxW Jid Fall wNodeLeaf >>= unmarshalTop ctxW Jid Fall) ≠ .ok wNodeLeaf := by decide
/-- a value the serialiser cannot represent fails loudly: NaN payload, unregistered struct -/
example : enc ctxW Jid Fall (.basic (.basic "float64") "!") = .error .json := by decide
example : enc ctxW Jid Fall (.ptr (.struct "Unregistered" .nil)) = .error .unknownType := by decide

/-! ## struct-keyed maps, unregistered named basics, shared pointers: witnesses -/

/-- `ctxW` plus a struct type used as a map key -/
def ctxK : Ctx where
  reg := ctxW.reg ++ [("w_key", .struct "Key")]
  structs := ctxW.structs ++ [("Key", [("Tenant", tStr), ("Shard", tInt)])]

/-- `map[Key]*int{{Tenant:"a"}: &1, {Shard:1}: nil, {}: &2}` with `omitempty` keys: every key
    text omits a different set of fields -/
def wKM : GoVal :=
  .map (.struct "Key") (.ptr tInt) false
    (.cons "{\"Tenant\":\"a\"}" (.ptr (iv "1")) (.cons "{\"Shard\":1}" (.nilptr tInt) (.cons "{}" (.ptr (iv "2")) .nil)))

/-- a struct-keyed map is `Supported` and round-trips to itself: every key text is decoded on
    its own, nothing of one key reaches the next -/
theorem struct_keyed_map_roundtrips :
    ctxK.ok = true ∧ Supported ctxK Jid wKM = true
    ∧ (enc ctxK Jid srcFacts wKM >>= unmarshalTop ctxK Jid srcFacts) = .ok wKM := by decide

/-- `type Topic string`, never registered, at the positions a checkpoint holds values in: top
    level, behind a pointer, `any` slice element, `any` map value, `any` struct field.  Each
    is refused with "unknown type" although `string` itself is registered. -/
theorem unregistered_named_refused_everywhere :
    let topic := GoVal.basic (.named "Topic" "string") "\"weather\""
    keyOf ctxW (.basic "string") = some "_eino_string"
    ∧ enc ctxW Jid srcFacts (.basic (.basic "string") "\"weather\"") = .ok (IS.basicN 0 0 "_eino_string" "\"weather\"")
    ∧ enc ctxW Jid srcFacts topic = .error .unknownType
    ∧ enc ctxW Jid srcFacts (.ptr (.ptr topic)) = .error .unknownType
    ∧ enc ctxW Jid srcFacts (.slice .iface false (.cons (iv "1") (.cons topic .nil))) = .error .unknownType
    ∧ enc ctxW Jid srcFacts (.map tStr .iface false (.cons "\"node\"" topic .nil)) = .error .unknownType
    ∧ enc ctxW Jid srcFacts (.struct "Node" (.cons "V" (iv "1") (.cons "Next" (.nilptr (.struct "Node"))
        (.cons "Tag" topic (.cons "Kids" (.slice (.ptr (.struct "Node")) true .nil)
        (.cons "M" (.map (.named "Name" "string") .iface true .nil) .nil)))))) = .error .unknownType
    ∧ enc ctxW Jid srcFacts (.slice (.named "Topic" "string") false .nil) = .error .unknownType := by decide

/-- `p := &1; []*int{p, p}` and the pending inputs of two successors of one node
    (`map[string]any{"a": d, "b": d}` with `d *int`): one identity, two occurrences -/
def wShared : LVal :=
  .slice (.ptr tInt) false (.cons (.ptr 7 (.basic tInt "1")) (.cons (.ptr 7 (.basic tInt "1")) .nil))
def wFan : LVal :=
  .map tStr .iface false (.cons "\"a\"" (.ptr 3 (.basic tInt "5")) (.cons "\"b\"" (.ptr 3 (.basic tInt "5")) .nil))

/-- both occurrences of the shared pointer come back non-nil and equal in value -/
theorem shared_pointer_twice_roundtrips :
    wShared.coherent = true ∧ wShared.sharedCount = 1
    ∧ (marshalL ctxW Jid srcFacts wShared >>= unmarshalTop ctxW Jid srcFacts)
        = .ok (.slice (.ptr tInt) false (.cons (.ptr (iv "1")) (.cons (.ptr (iv "1")) .nil)))
    ∧ wFan.coherent = true ∧ wFan.sharedCount = 1
    ∧ (marshalL ctxW Jid srcFacts wFan >>= unmarshalTop ctxW Jid srcFacts)
        = .ok (.map tStr .iface false (.cons "\"a\"" (.ptr (iv "5")) (.cons "\"b\"" (.ptr (iv "5")) .nil))) := by decide

/-! ## known findings: in the listed universe, not Supported, loud error -/

/-- `(*[]int)(nil)`: listed by the property, the encoder answers "unknown type: []int". -/
theorem listed_nilptr_to_container_errors :
    InListedUniverse ctxW Jid (.nilptr (.slice tInt)) = true
    ∧ Supported ctxW Jid (.nilptr (.slice tInt)) = false
    ∧ enc ctxW Jid srcFacts (.nilptr (.slice tInt)) = .error .unknownType := by decide

/-- `map[string][]int{"a":{1}}`: the element type `[]int` is not a registered type. -/
theorem listed_nested_container_errors :
    let v := GoVal.map tStr (.slice tInt) false (.cons "\"a\"" (.slice tInt false (.cons (iv "1") .nil)) .nil)
    InListedUniverse ctxW Jid v = true ∧ Supported ctxW Jid v = false
    ∧ enc ctxW Jid srcFacts v = .error .unknownType := by decide

/-! ## negation witnesses: the model with the facts of the unrepaired tree -/

/-- facts of the tree before fixes/C12-container-pointernum.diff -/
def FnoContainerPtr : Facts := ⟨true, true, false, false, true⟩
/-- facts of the tree before fixes/C12-nil-in-pointer-chain.diff -/
def FnoNilChain : Facts := ⟨true, true, true, true, false⟩

/-- `*map[string]int` comes back as `map[string]int` when the map branch ignores PointerNum. -/
theorem ptr_to_map_loses_pointer_without_fix :
    let v := GoVal.ptr (.map tStr tInt false (.cons "\"a\"" (iv "1") .nil))
    (enc ctxW Jid FnoContainerPtr v >>= unmarshalTop ctxW Jid FnoContainerPtr)
      = .ok (.map tStr tInt false (.cons "\"a\"" (iv "1") .nil))
    ∧ (GoVal.map tStr tInt false (.cons "\"a\"" (iv "1") .nil)).typeOf ≠ v.typeOf := by decide

/-- a struct field `*[]int` panics in `field.Set` when the slice branch ignores PointerNum. -/
theorem ptr_to_slice_field_panics_without_fix :
    (enc ctxW Jid FnoContainerPtr wPC >>= unmarshalTop ctxW Jid FnoContainerPtr) = .error .panic := by decide

/-- `**int` whose inner pointer is nil comes back as a nil `**int`. -/
theorem inner_nil_lost_without_fix :
    let v := GoVal.ptr (.nilptr tInt)
    (enc ctxW Jid FnoNilChain v >>= unmarshalTop ctxW Jid FnoNilChain) = .ok (.nilptr (.ptr tInt))
    ∧ ¬ (GoVal.nilptr (.ptr tInt) ≈ v) := by decide

/-- `(***int)(nil)` comes back as a nil `*int`: the dynamic type changes. -/
theorem outer_nil_changes_type_without_fix :
    let v := GoVal.nilptr (.ptr (.ptr tInt))
    (enc ctxW Jid FnoNilChain v >>= unmarshalTop ctxW Jid FnoNilChain) = .ok (.nilptr tInt)
    ∧ (GoVal.nilptr tInt).typeOf ≠ v.typeOf := by decide

/-- registering a type under the empty key breaks the decode dispatch (the int 1 is read
    back as an empty []int): the hypothesis `Ctx.ok` of the theorems is needed. -/
theorem empty_key_breaks_dispatch :
    let ctx : Ctx := ⟨[("", tInt)], []⟩
    ctx.ok = false ∧ (enc ctx Jid Fall (iv "1") >>= unmarshalTop ctx Jid Fall) = .ok (.slice tInt true .nil) := by decide

/-! ## the registry as a sequence of `GenericRegister` calls (Model/C12Reg.lean)

The theorems above take a registry that satisfies `Ctx.ok` as given.  The registry of a process
is built by a sequence of calls — the `init` functions of `internal/serialization` and
`compose`, then whatever user packages and tests call, in any order, with clashing keys,
repeated pairs, pointer types, the empty key.  This section proves the clause over ALL such
sequences: a clash is an error of the call that causes it and changes nothing, so no key ever
comes to name another type and no type another key — "never a silently different dynamic type
at decode time". -/

/-- the state machine's fact record as regenerated from the source on this run -/
def srcRegFacts : RegFacts := regFactsOf FactsC12.registerGuards

/-- `GenericRegister` has the shape `regStep` mirrors: pointers stripped first, then the three
    guards in the order empty key / key taken / type taken, each refusing unconditionally, then
    one store into each map and no other store. -/
theorem register_facts_match :
    FactsC12.registerGuards = registerGuards ∧ FactsC12.registerStoresBoth = registerStoresBoth
    ∧ FactsC12.registerStripsPointers = registerStripsPointers := by
  decide

/-- all three guards are present -/
theorem srcRegFacts_all : srcRegFacts = RFall := by decide

/-- **a refused call changes nothing** (whatever guards exist): the registry after a call that
    returned an error is the registry before it. -/
theorem rejected_call_changes_nothing (r : Reg) (op : RegOp)
    (h : (regStep srcRegFacts r op).1 ≠ .accepted) : (regStep srcRegFacts r op).2 = r :=
  regStep_rejected srcRegFacts r op h

/-- **a clash is an error at registration.**  A call whose key is in use (by whatever type, the
    same one included), whose pointer-stripped type is registered (under whatever key), or whose
    key is empty is refused and leaves the registry untouched. -/
theorem clash_is_registration_error (r : Reg) (op : RegOp)
    (h : r.hasKey op.key = true ∨ r.hasTy op.ty.strip = true ∨ op.key = "") :
    (regStep srcRegFacts r op).1 ≠ .accepted ∧ (regStep srcRegFacts r op).2 = r := by
  have hne : (regStep srcRegFacts r op).1 ≠ .accepted := by
    rw [srcRegFacts_all]
    intro ha
    obtain ⟨h1, h2, h3⟩ := regStep_accepted_fresh r op ha
    rcases h with h | h | h
    · rw [h2] at h; cases h
    · rw [h3] at h; cases h
    · exact h1 h
  exact ⟨hne, regStep_rejected srcRegFacts r op hne⟩

/-- **every registry the code can build is well-formed.**  Starting from a well-formed registry
    (the empty one in particular), after ANY sequence of calls — accepted or refused, clashing
    keys, repeated pairs, pointer types, empty keys — `m` and `rm` are still inverse bijections
    without an empty key: the hypothesis `Ctx.ok` of the round-trip theorems is an invariant
    of the code, not an assumption about its callers. -/
theorem registry_wellformed_after_any_calls (ctx : Ctx) (hc : ctx.ok = true) (ops : List RegOp) :
    (ctx.after srcRegFacts ops).ok = true := by
  rw [srcRegFacts_all]; exact ok_after ctx ops hc

/-- the same from nothing: no registrations yet, any struct declarations with distinct field
    names, any calls -/
theorem registry_built_from_nothing_ok (structs : List (Name × List (Name × GoTy)))
    (hs : structs.all (fun s => (s.2.map (·.1)).Nodup) = true) (ops : List RegOp) :
    ((Ctx.mk [] structs).after srcRegFacts ops).ok = true :=
  registry_wellformed_after_any_calls ⟨[], structs⟩ (by rw [ok_eq]; simpa [regOK] using hs) ops

/-- the calls eino's two `init` functions make, as regenerated from the source -/
def initOps : List RegOp :=
  (builtinReg (FactsC12.registry ++ FactsC12.composeRegistry) einoKinds).map fun e => ⟨e.1, e.2⟩

/-- eino's own `init` sequence run through the state machine: every one of the 32 calls is
    accepted and the result is the table `builtin_registry_ok` speaks about (newest first). -/
theorem init_calls_all_accepted :
    regOutcomes srcRegFacts [] initOps = List.replicate 32 .accepted
    ∧ regAfter srcRegFacts [] initOps
        = (builtinReg (FactsC12.registry ++ FactsC12.composeRegistry) einoKinds).reverse := by
  decide

/-- **a registration in force stays in force.**  Once a key names a type (`m[k] = t`) and a type
    has its key (`rm[t] = k`), no later sequence of calls changes either: what the encoder writes
    for `t` and what the decoder reads for `k` are fixed for the rest of the process. -/
theorem registration_in_force_forever (ctx : Ctx) (ops : List RegOp) (k : Name) (t : GoTy) :
    (tyOfKey ctx k = some t → tyOfKey (ctx.after srcRegFacts ops) k = some t)
    ∧ (keyOf ctx t = some k → keyOf (ctx.after srcRegFacts ops) t = some k) := by
  rw [srcRegFacts_all]
  exact ⟨tyOfKey_ctx_after RFall rfl ctx ops k t, keyOf_ctx_after RFall rfl ctx ops t k⟩

/-- **round trip after any further registrations.**  A value that is `Supported` now is
    `Supported` after any sequence of `GenericRegister` calls, and its round trip in the
    resulting registry succeeds with a deeply equal value of the identical dynamic type. -/
theorem roundtrip_survives_registrations (ctx : Ctx) (J : JLayer) (hc : ctx.ok = true) (hJ : J.OK)
    (v : GoVal) (hs : Supported ctx J v = true) (ops : List RegOp) :
    ∃ is v', enc (ctx.after srcRegFacts ops) J srcFacts v = .ok is
      ∧ unmarshalTop (ctx.after srcRegFacts ops) J srcFacts is = .ok v'
      ∧ v' ≈ v ∧ v'.typeOf = v.typeOf := by
  rw [srcRegFacts_all]
  exact roundtrip_partial (ctx.after RFall ops) J (ok_after ctx ops hc) hJ v (supported_after ctx J ops v hs)

/-- **what was written earlier reads back the same later.**  Bytes `Marshal` produced for a
    `Supported` value at some point of the process are read back — after ANY further sequence
    of `GenericRegister` calls — as a deeply equal value of the identical dynamic type: a
    checkpoint put into a store is not re-interpreted by registrations that happen before it is
    read. -/
theorem written_earlier_reads_back (ctx : Ctx) (J : JLayer) (hc : ctx.ok = true) (hJ : J.OK)
    (v : GoVal) (hs : Supported ctx J v = true) (ops : List RegOp) :
    ∃ is v', enc ctx J srcFacts v = .ok is
      ∧ unmarshalTop (ctx.after srcRegFacts ops) J srcFacts is = .ok v'
      ∧ v' ≈ v ∧ v'.typeOf = v.typeOf := by
  obtain ⟨is, v', he, hd, hn, ht⟩ := roundtrip_partial ctx J hc hJ v hs
  refine ⟨is, v', he, ?_, hn, ht⟩
  rw [srcRegFacts_all]
  exact unmarshalTop_ext (ctxExt_after RFall rfl ctx ops) J srcFacts is v' hd

/-- **loud across registrations.**  For every well-typed value whatsoever: if it was written
    without error and is read without error after any further calls, the value read is the
    value written (≈, identical dynamic type). -/
theorem loud_across_registrations (ctx : Ctx) (J : JLayer) (hc : ctx.ok = true) (hJ : J.OK)
    (v : GoVal) (is : IS) (v' : GoVal) (ops : List RegOp) (hw : v.wt ctx = true)
    (he : enc ctx J srcFacts v = .ok is)
    (hd : unmarshalTop (ctx.after srcRegFacts ops) J srcFacts is = .ok v') :
    v' ≈ v ∧ v'.typeOf = v.typeOf := by
  obtain ⟨v'', hd''⟩ := written_is_readable ctx J hc hJ v is hw he
  have hx := unmarshalTop_ext (ctxExt_after RFall rfl ctx ops) J srcFacts is v'' hd''
  rw [srcRegFacts_all] at hd
  rw [hx] at hd
  have : v'' = v' := ok_inj hd
  subst this
  exact loud ctx J hc hJ v is v'' hw he hd''

/-! ### registry sequences: witnesses -/

def tCelsius : GoTy := .named "Celsius" "float64"
def tFahrenheit : GoTy := .named "Fahrenheit" "float64"

/-- `ctxW` plus two struct types where the second has the first one's field and one more -/
def ctxR : Ctx where
  reg := ctxW.reg
  structs := ctxW.structs ++ [("AgentState", [("Note", tStr)]), ("WorkflowState", [("Note", tStr), ("Retries", tInt)])]

/-- two packages call their state "state"; a repeated pair; a pointer type; an empty key -/
def clashOps : List RegOp :=
  [⟨"temperature", tCelsius⟩, ⟨"temperature", tFahrenheit⟩, ⟨"temperature", tCelsius⟩,
   ⟨"state", .ptr (.struct "AgentState")⟩, ⟨"state", .struct "WorkflowState"⟩, ⟨"agent", .struct "AgentState"⟩,
   ⟨"", .struct "WorkflowState"⟩, ⟨"_eino_string", tFahrenheit⟩]

/-- with the guards of the source: the first type keeps each key, every clashing call is an
    error, a value of the accepted type round-trips to itself and a value of the refused type
    is refused by the encoder (loud) -/
theorem key_clash_refused_and_loud :
    regOutcomes srcRegFacts ctxR.reg clashOps
      = [.accepted, .keyTaken, .keyTaken, .accepted, .keyTaken, .typeTaken, .emptyKey, .keyTaken]
    ∧ (ctxR.after srcRegFacts clashOps).ok = true
    ∧ (let c := ctxR.after srcRegFacts clashOps
       (enc c Jid srcFacts (.basic tCelsius "36.6") >>= unmarshalTop c Jid srcFacts) = .ok (.basic tCelsius "36.6")
       ∧ enc c Jid srcFacts (.basic tFahrenheit "36.6") = .error .unknownType
       ∧ (enc c Jid srcFacts (.ptr (.struct "AgentState" (.cons "Note" (.basic tStr "\"n\"") .nil))) >>= unmarshalTop c Jid srcFacts)
           = .ok (.ptr (.struct "AgentState" (.cons "Note" (.basic tStr "\"n\"") .nil)))
       ∧ enc c Jid srcFacts (.struct "WorkflowState" (.cons "Note" (.basic tStr "\"n\"") (.cons "Retries" (iv "1") .nil)))
           = .error .unknownType) := by
  decide

/-- facts of a `GenericRegister` without the `m[key]` guard (the key → type check dropped) -/
def RFnoKeyGuard : RegFacts := ⟨true, false, true⟩

/-- (negation witness) without the `keyTaken` guard the second type silently takes the key
    over: every call returns `nil`, the registry is no bijection any more, and a value of the
    type registered first is written without error and read back without error as a value of
    the other type — a named basic always, a struct whenever the second struct has the first
    one's fields.  The guard is needed for `registry_wellformed_after_any_calls`. -/
theorem key_takeover_without_key_guard :
    let ops : List RegOp := [⟨"temperature", tCelsius⟩, ⟨"temperature", tFahrenheit⟩,
                             ⟨"state", .struct "AgentState"⟩, ⟨"state", .struct "WorkflowState"⟩]
    let c := ctxR.after RFnoKeyGuard ops
    regOutcomes RFnoKeyGuard ctxR.reg ops = [.accepted, .accepted, .accepted, .accepted]
    ∧ c.ok = false
    ∧ (enc c Jid Fall (.basic tCelsius "36.6") >>= unmarshalTop c Jid Fall) = .ok (.basic tFahrenheit "36.6")
    ∧ (enc c Jid Fall (.ptr (.struct "AgentState" (.cons "Note" (.basic tStr "\"n\"") .nil))) >>= unmarshalTop c Jid Fall)
        = .ok (.ptr (.struct "WorkflowState" (.cons "Note" (.basic tStr "\"n\"") (.cons "Retries" (iv "0") .nil)))) := by
  decide

/-- (negation witness) the same for bytes in a store: written while the key named the first
    type, read after the second type took the key over — no error, another dynamic type.  The
    guard is needed for `written_earlier_reads_back`. -/
theorem stored_bytes_change_type_without_key_guard :
    let c1 := ctxR.after RFnoKeyGuard [⟨"state", .struct "AgentState"⟩]
    let c2 := c1.after RFnoKeyGuard [⟨"state", .struct "WorkflowState"⟩]
    let v := GoVal.ptr (.struct "AgentState" (.cons "Note" (.basic tStr "\"n\"") .nil))
    (enc c1 Jid Fall v >>= unmarshalTop c1 Jid Fall) = .ok v
    ∧ (enc c1 Jid Fall v >>= unmarshalTop c2 Jid Fall)
        = .ok (.ptr (.struct "WorkflowState" (.cons "Note" (.basic tStr "\"n\"") (.cons "Retries" (iv "0") .nil)))) := by
  decide

/-- facts of a `GenericRegister` without the `rm[t]` guard -/
def RFnoTypeGuard : RegFacts := ⟨true, true, false⟩

/-- (negation witness) without the `typeTaken` guard a second key for a type leaves the first
    key behind: `m` still resolves it but `rm` does not lead back to it (no bijection). -/
theorem stale_key_without_type_guard :
    let c := ctxR.after RFnoTypeGuard [⟨"a", tCelsius⟩, ⟨"b", tCelsius⟩]
    c.ok = false ∧ tyOfKey c "a" = some tCelsius ∧ keyOf c tCelsius = some "b" := by
  decide

/-! ### The translated `GenericRegister` (internal/serialization → Gen/TransC12.lean; gotrans phase 7)

  `GenericRegister[T](key)` is re-translated from /repo on every run of this property.  The type parameter `T`
  is a parameter holding its `reflect.Type`; `reflect.Type` is the prelude's inductive `GoRType` (a base type or
  a pointer to a type), so the pointer-stripping loop is real iteration (translated with fuel: the pointer depth
  of `T` is enough); the package-level maps `m` / `rm` are explicit state (`rm` is keyed by the type: `GoMapK`).
  `RegRel` relates the two Go maps to the model's log of accepted pairs (newest first, first match): `m[key]` is
  the type of the newest entry under the key, `rm[t]` the key of the newest entry for the type.  The theorems say
  that the translated function computes `regStep` — the state machine every registry theorem above is about —
  for the regenerated guard facts, with the errors by class (the three format strings), and never panics. -/
section TranslatedRegister
open EinoV.GoSem EinoV.TransC12 EinoV.Gen.TransC12
variable {V : Type} [Inhabited V]

theorem translated_source_is_current : FactsC12.registerTranslated = true := by decide

theorem translated_GenericRegister_refines (ext : Ext V) (code : GoTy → Nat) (hc : ∀ a b, code a = code b → a = b)
    (m : GoMap GoRType) (rm : GoMapK GoRType String) (r : Reg) (h : RegRel code m rm r)
    (op : RegOp) (fuel : Nat) (hf : op.ty.depth ≤ fuel) :
    ∃ m' rm', GenericRegister ext fuel op.key (TransC12.enc code op.ty) m rm
        = .ret (m', rm', errOf (regStep srcRegFacts r op).1) ∧
      RegRel code m' rm' (regStep srcRegFacts r op).2 ∧
      ((regStep srcRegFacts r op).1 ≠ .accepted → m' = m ∧ rm' = rm) := by
  rw [srcRegFacts_all]
  exact GenericRegister_refines ext code hc m rm r h op fuel hf

theorem translated_GenericRegister_total (ext : Ext V) (code : GoTy → Nat) (hc : ∀ a b, code a = code b → a = b)
    (m : GoMap GoRType) (rm : GoMapK GoRType String) (r : Reg) (h : RegRel code m rm r)
    (op : RegOp) (fuel : Nat) (hf : op.ty.depth ≤ fuel) :
    ∃ res, GenericRegister ext fuel op.key (TransC12.enc code op.ty) m rm = .ret res :=
  GenericRegister_total ext code hc m rm r h op fuel hf

/-- the initial state: both maps are declared empty (checked by the extractor), the empty log -/
theorem translated_register_initial (code : GoTy → Nat) : RegRel code [] [] [] := regRel_nil code

/-! non-vacuity: registering `**T7` under "k" stores the stripped type in both maps; the same key again, the
    same type under another key, and the empty key are refused with the three errors; with too little fuel the
    loop stops early (the fuel hypothesis matters) -/
def exExtR : Ext Nat := { zeroValue := 0, emptyStream := 0, mergeValues := fun _ => (0, none) }

example : (match GenericRegister exExtR 2 "k" (.ptr (.ptr (.base 7))) [] [] with
    | .ret r => r | _ => ([], [], none)) = ([("k", .base 7)], [(.base 7, "k")], none) := by decide
example : (match GenericRegister exExtR 2 "k" (.base 8) [("k", .base 7)] [(.base 7, "k")] with
    | .ret r => r.2.2 | _ => none) = errOf .keyTaken := by decide
example : (match GenericRegister exExtR 2 "j" (.ptr (.base 7)) [("k", .base 7)] [(.base 7, "k")] with
    | .ret r => r.2.2 | _ => none) = errOf .typeTaken := by decide
example : (match GenericRegister exExtR 2 "" (.base 9) [] [] with
    | .ret r => r.2.2 | _ => none) = errOf .emptyKey := by decide
example : (match GenericRegister exExtR 1 "k" (.ptr (.ptr (.base 7))) [] [] with
    | .ret r => r.1 | _ => []) = [("k", .ptr (.base 7))] := by decide

end TranslatedRegister

/-! ## embedded structs and clashing field names

For the serialiser an embedded struct (`type Task struct { Audit; ID string }`) is ONE field of
the outer struct, named after its type, holding a struct value: the encoder walks the outer
struct's own fields only (fact `structEncoderOwnFieldsOnly`: one loop over `rt.NumField()`, one
store `ret.MapValues[field.Name]` per exported own field, no helper call, no `.Anonymous`), and the
decoder's `FieldByName(k)` resolves a name the struct declares itself to that own field (depth 0
wins over promoted fields).  In the model that is a struct declaration with a field
`(Audit, .struct Audit)` — or `(Audit, .ptr (.struct Audit))` for `*Audit` —; field names are
distinct within ONE declaration (Go's rule, `Ctx.ok`) and may clash freely between the outer
struct and the structs it embeds, at any depth, or between two embedded structs.
`roundtrip_partial`, `loud`, … quantify over all such declarations.  What this section adds: the
table written for a struct has exactly the struct's own field names as keys (nothing is promoted
into it), and the clashing shapes as computed witnesses. -/

def GoKVs.keys : GoKVs → List String
  | .nil => []
  | .cons k _ r => k :: r.keys
def ISKVs.keys : ISKVs → List String
  | .nil => []
  | .cons k _ r => k :: r.keys

/-- the fact the model's `encFields` relies on has the value it was written for -/
theorem struct_encoder_fact_matches :
    FactsC12.structEncoderOwnFieldsOnly = structEncoderOwnFieldsOnly := by decide

theorem encFields_keys (ctx : Ctx) (J : JLayer) (F : Facts) :
    ∀ (fs : GoKVs) (xs : ISKVs), encFields ctx J F fs = .ok xs → xs.keys = fs.keys
  | .nil, xs, h => by
    simp only [encFields] at h
    have := ok_inj h
    subst this
    rfl
  | .cons f v r, xs, h => by
    simp only [encFields] at h
    cases hi : encP ctx J F 0 v with
    | error e => rw [hi] at h; cases h
    | ok i =>
      rw [hi] at h
      cases hr : encFields ctx J F r with
      | error e => rw [hr] at h; cases h
      | ok is =>
        rw [hr] at h
        have : ISKVs.cons f i is = xs := ok_inj h
        subst this
        simp only [ISKVs.keys, GoKVs.keys, encFields_keys ctx J F r is hr]

/-- **nothing is promoted into a struct's table.**  Whatever struct value the encoder accepts
    (any pointer depth above it, any declarations, embedded structs or not): the node it writes
    is a struct node whose table has exactly the value's own field names as keys, in declaration
    order — the fields of an embedded struct sit one level down, in the table of the field named
    after the embedded type, so equal names at different levels never meet in one table. -/
theorem struct_table_has_own_field_names_only (ctx : Ctx) (J : JLayer) (k : Nat) (n : Name) (fs : GoKVs) (is : IS)
    (h : encP ctx J srcFacts k (.struct n fs) = .ok is) :
    ∃ key xs, is = IS.structN k key xs ∧ xs.keys = fs.keys := by
  simp only [encP] at h
  cases hk : keyOfE ctx (.struct n) with
  | error e => rw [hk] at h; cases h
  | ok key =>
    rw [hk] at h
    cases hx : encFields ctx J srcFacts fs with
    | error e => rw [hx] at h; cases h
    | ok xs =>
      rw [hx] at h
      exact ⟨key, xs, (ok_inj h).symm, encFields_keys ctx J srcFacts fs xs hx⟩

def tAudit : GoTy := .struct "Audit"

/-- `ctxW` plus: `Audit{ID string; Version int}`; `Task{Audit; ID string}` (outer field after the
    embedded struct), `Task2{ID string; Version *int; Audit}` (before it, one clash with another
    type), `Two{EmbA; EmbB}` (both declare `ID`: ambiguous selector, no outer field of that name),
    `PTask{*Audit; ID string}` (embedded by pointer), `Deep{Task; Version int; ID []string}` (two
    levels: `Deep.ID` shadows `Deep.Task.ID` and `Deep.Task.Audit.ID`) -/
def ctxE : Ctx where
  reg := ctxW.reg ++ [("e_audit", tAudit), ("e_task", .struct "Task"), ("e_task2", .struct "Task2"), ("e_a", .struct "EmbA"),
    ("e_b", .struct "EmbB"), ("e_two", .struct "Two"), ("e_ptask", .struct "PTask"), ("e_deep", .struct "Deep")]
  structs := ctxW.structs ++
    [("Audit", [("ID", tStr), ("Version", tInt)]),
     ("Task", [("Audit", tAudit), ("ID", tStr)]),
     ("Task2", [("ID", tStr), ("Version", .ptr tInt), ("Audit", tAudit)]),
     ("EmbA", [("ID", tStr)]), ("EmbB", [("ID", tInt)]),
     ("Two", [("EmbA", .struct "EmbA"), ("EmbB", .struct "EmbB")]),
     ("PTask", [("Audit", .ptr tAudit), ("ID", tStr)]),
     ("Deep", [("Task", .struct "Task"), ("Version", tInt), ("ID", .slice tStr)])]

def sv (s : String) : GoVal := .basic tStr s
def wAudit (id : String) (ver : String) : GoVal := .struct "Audit" (.cons "ID" (sv id) (.cons "Version" (iv ver) .nil))
/-- `Task{Audit:{ID:"audit-1",Version:3}, ID:"task-7"}` -/
def wTask : GoVal := .struct "Task" (.cons "Audit" (wAudit "\"audit-1\"" "3") (.cons "ID" (sv "\"task-7\"") .nil))
/-- `Task2{ID:"job-9", Version:&7, Audit:{ID:"audit-2",Version:1}}` -/
def wTask2 : GoVal :=
  .struct "Task2" (.cons "ID" (sv "\"job-9\"") (.cons "Version" (.ptr (iv "7")) (.cons "Audit" (wAudit "\"audit-2\"" "1") .nil)))
def wTwo : GoVal :=
  .struct "Two" (.cons "EmbA" (.struct "EmbA" (.cons "ID" (sv "\"a\"") .nil)) (.cons "EmbB" (.struct "EmbB" (.cons "ID" (iv "2") .nil)) .nil))
def wPTask : GoVal := .struct "PTask" (.cons "Audit" (.ptr (wAudit "\"inner\"" "0")) (.cons "ID" (sv "\"outer\"") .nil))
def wPTaskNil : GoVal := .struct "PTask" (.cons "Audit" (.nilptr tAudit) (.cons "ID" (sv "\"outer\"") .nil))
def wDeep : GoVal :=
  .ptr (.struct "Deep" (.cons "Task" wTask (.cons "Version" (iv "9") (.cons "ID" (.slice tStr false (.cons (sv "\"d\"") .nil)) .nil))))

/-- every clashing shape is `Supported` and round-trips to ITSELF: the shadowed inner value and
    the shadowing outer value both come back (outer field after / before the embedded struct, a
    clash with another type, two embedded structs with the same field name, embedded by pointer —
    nil and non-nil —, two levels deep), also inside `any` positions -/
theorem embedded_structs_with_name_clashes_roundtrip :
    ctxE.ok = true
    ∧ [wTask, wTask2, wTwo, wPTask, wPTaskNil, wDeep,
       .slice .iface false (.cons wTask (.cons (.ptr wTask2) (.cons wDeep .nil)))].all
        (fun v => Supported ctxE Jid v
          && decide ((enc ctxE Jid srcFacts v >>= unmarshalTop ctxE Jid srcFacts) = .ok v)) = true := by
  decide

/-- the table written for `Task` has the keys `Audit` and `ID` — the embedded `ID` is one level
    down (computed instance of `struct_table_has_own_field_names_only`) -/
theorem task_table_keys :
    (match enc ctxE Jid srcFacts wTask with
     | .ok (.mk _ _ _ _ _ _ _ _ _ mvs _ _ _) => mvs.keys
     | _ => []) = ["Audit", "ID"] := by decide

/-- (why promotion cannot work) two different `Task` values — the IDs swapped between the outer
    field and the embedded struct — have the same set of (bare field name, value) pairs at the
    two levels taken together; only the per-struct tables tell them apart. -/
theorem swapped_ids_differ_only_by_level :
    let a := GoVal.struct "Task" (.cons "Audit" (wAudit "\"x\"" "1") (.cons "ID" (sv "\"y\"") .nil))
    let b := GoVal.struct "Task" (.cons "Audit" (wAudit "\"y\"" "1") (.cons "ID" (sv "\"x\"") .nil))
    a ≠ b ∧ enc ctxE Jid srcFacts a ≠ enc ctxE Jid srcFacts b
    ∧ (enc ctxE Jid srcFacts a >>= unmarshalTop ctxE Jid srcFacts) = .ok a
    ∧ (enc ctxE Jid srcFacts b >>= unmarshalTop ctxE Jid srcFacts) = .ok b := by
  decide

end EinoV.C12
